From Verif Require Import Decimal.
Require Import ZifyBool ZifyN.
Ltac Zify.zify_post_hook ::= Z.div_mod_to_equations.
Local Open Scope N_scope.

Lemma le_digits_value fuel n : (n < 2 ^ N.of_nat fuel)%N -> fuel <> O -> value_le (le_digits fuel n) = n.
Proof.
  revert n. induction fuel as [|f IH]; intros n Hn Hf; [congruence|].
  cbn [le_digits]. destruct (N.ltb_spec n 10) as [Hlt|Hge].
  - cbn. lia.
  - cbn [value_le fold_right]. fold (value_le (le_digits f (n / 10))).
    destruct f as [|f'].
    + cbn in Hn. lia.
    + rewrite IH; [|  |congruence].
      * pose proof (N.div_mod n 10). lia.
      * rewrite Nnat.Nat2N.inj_succ in Hn. rewrite N.pow_succ_r' in Hn.
        assert (n / 10 <= n / 2) by (apply N.div_le_compat_l; lia).
        assert (n / 2 < 2 ^ N.of_nat (S f')) by (apply N.div_lt_upper_bound; lia).
        lia.
Qed.

Lemma le_digits_range fuel n : Forall (fun d => d < 10) (le_digits fuel n).
Proof.
  revert n. induction fuel as [|f IH]; intros n; cbn [le_digits]; [constructor|].
  destruct (N.ltb_spec n 10).
  - constructor; [assumption|constructor].
  - constructor; [|apply IH]. apply N.mod_lt. lia.
Qed.

Lemma le_digits_nonempty fuel n : fuel <> O -> le_digits fuel n <> [].
Proof. destruct fuel; [congruence|]. intros _. cbn. destruct (n <? 10); discriminate. Qed.

Lemma lt_pow2_fuel n : n < 2 ^ N.of_nat (digits_fuel n).
Proof.
  unfold digits_fuel. rewrite Nnat.Nat2N.inj_succ, Nnat.N2Nat.id.
  destruct (N.eq_dec n 0) as [->|Hn]; [cbn; lia|].
  apply N.log2_spec. lia.
Qed.

Lemma value_be_rev ds : value_be ds = value_le (rev ds).
Proof.
  unfold value_be, value_le. rewrite <- fold_left_rev_right.
  induction (rev ds) as [|d r IH]; cbn [fold_right]; [reflexivity|]. rewrite IH. lia.
Qed.

Lemma print_N_digits n : Forall (fun c => is_digit c = true) (print_N n).
Proof.
  unfold print_N. apply Forall_map. apply Forall_rev.
  eapply Forall_impl; [|apply le_digits_range]. intros d Hd. cbn beta in Hd. unfold is_digit. lia.
Qed.

Lemma print_N_nonempty n : print_N n <> [].
Proof.
  unfold print_N. intros H. apply map_eq_nil in H.
  assert (Hr : rev (rev (le_digits (digits_fuel n) n)) = []) by (rewrite H; reflexivity).
  rewrite rev_involutive in Hr. revert Hr. apply le_digits_nonempty. discriminate.
Qed.

Lemma parse_print_N n : parse_digits (print_N n) = n.
Proof.
  unfold parse_digits, print_N. rewrite map_map.
  assert (Hm : map (fun d => digit_val (48 + d)) (rev (le_digits (digits_fuel n) n))
               = rev (le_digits (digits_fuel n) n)).
  { rewrite <- (map_id (rev _)) at 2. apply map_ext. intros d. unfold digit_val. lia. }
  rewrite Hm, value_be_rev, rev_involutive.
  apply le_digits_value; [apply lt_pow2_fuel|discriminate].
Qed.

Lemma span_digits_app ds r :
  Forall (fun c => is_digit c = true) ds -> no_digit_head r -> span_digits (ds ++ r) = (ds, r).
Proof.
  intros Hds Hr. induction Hds as [|c ds Hc _ IH]; cbn [app span_digits].
  - destruct r as [|c r]; [reflexivity|]. cbn in Hr. cbn [span_digits]. rewrite Hr. reflexivity.
  - rewrite Hc, IH. reflexivity.
Qed.

Lemma span_print_N n r : no_digit_head r -> span_digits (print_N n ++ r) = (print_N n, r).
Proof. intros H. apply span_digits_app; [apply print_N_digits|exact H]. Qed.

Lemma print_N_head n : exists c t, print_N n = c :: t /\ is_digit c = true.
Proof.
  pose proof (print_N_nonempty n) as Hne. pose proof (print_N_digits n) as Hd.
  destruct (print_N n) as [|c t]; [congruence|]. inversion Hd; subst. eauto.
Qed.
