(* A small JSON reader (the specification of "valid JSON stating exactly ...") and the compact
   printer it inverts.  Values: null, naturals, strings, arrays, objects. *)
From Verif Require Export Decimal.
Local Open Scope N_scope.

Inductive Json :=
| JNull
| JNum (n : N)
| JStr (s : bytes)
| JArr (l : list Json)
| JObj (m : list (bytes * Json)).

(* ---- printer ---- *)
Definition hex_digit (n : N) : N := if n <? 10 then 48 + n else 87 + n.

(* JSON string escaping: quote, backslash and control characters; everything else verbatim *)
Definition esc_char (c : N) : bytes :=
  if c =? 34 then [92; 34]
  else if c =? 92 then [92; 92]
  else if c <? 32 then [92; 117; 48; 48; hex_digit (c / 16); hex_digit (c mod 16)]
  else [c].

Definition print_str (s : bytes) : bytes := 34 :: flat_map esc_char s ++ [34].

Definition join (l : list bytes) : bytes :=
  match l with
  | [] => []
  | x :: r => x ++ flat_map (fun y => 44 :: y) r
  end.

Fixpoint print (v : Json) : bytes :=
  match v with
  | JNull => [110; 117; 108; 108]
  | JNum n => print_N n
  | JStr s => print_str s
  | JArr l => 91 :: join (map print l) ++ [93]
  | JObj m => 123 :: join (map (fun kv => print_str (fst kv) ++ 58 :: print (snd kv)) m) ++ [125]
  end.

(* ---- parser ---- *)
Definition unhex (c : N) : option N :=
  if is_digit c then Some (c - 48)
  else if (97 <=? c) && (c <=? 102) then Some (c - 87)
  else if (65 <=? c) && (c <=? 70) then Some (c - 55)
  else None.

Definition unhex4 (a c d e : N) : option N :=
  match unhex a, unhex c, unhex d, unhex e with
  | Some x, Some y, Some z, Some w => Some (((x * 16 + y) * 16 + z) * 16 + w)
  | _, _, _, _ => None
  end.

Definition simple_escape (e : N) : option N :=
  if e =? 34 then Some 34 else if e =? 92 then Some 92 else if e =? 47 then Some 47
  else if e =? 98 then Some 8 else if e =? 102 then Some 12 else if e =? 110 then Some 10
  else if e =? 114 then Some 13 else if e =? 116 then Some 9 else None.

Definition cons_fst {A B} (a : A) (p : list A * B) : list A * B := (a :: fst p, snd p).

(* after the opening quote; yields the decoded text and the rest after the closing quote.
   \uXXXX is decoded for code points below 128 only (all the printer ever emits) *)
Fixpoint parse_str_body (s : bytes) : option (bytes * bytes) :=
  match s with
  | [] => None
  | c :: r =>
    if c =? 34 then Some ([], r)
    else if c =? 92 then
      match r with
      | e :: r1 =>
        if e =? 117 then
          match r1 with
          | h1 :: h2 :: h3 :: h4 :: r2 =>
            match unhex4 h1 h2 h3 h4 with
            | Some code => if code <? 128 then option_map (cons_fst code) (parse_str_body r2) else None
            | None => None
            end
          | _ => None
          end
        else match simple_escape e with
             | Some x => option_map (cons_fst x) (parse_str_body r1)
             | None => None
             end
      | [] => None
      end
    else if c <? 32 then None
    else option_map (cons_fst c) (parse_str_body r)
  end.

Fixpoint parse_value (fuel : nat) (s : bytes) {struct fuel} : option (Json * bytes) :=
  match fuel with
  | O => None
  | S f =>
    match s with
    | [] => None
    | c :: r =>
      if c =? 34 then
        match parse_str_body r with Some (t, r') => Some (JStr t, r') | None => None end
      else if c =? 91 then
        match r with
        | c2 :: r2 =>
          if c2 =? 93 then Some (JArr [], r2)
          else match parse_elems f r with Some (vs, r') => Some (JArr vs, r') | None => None end
        | [] => None
        end
      else if c =? 123 then
        match r with
        | c2 :: r2 =>
          if c2 =? 125 then Some (JObj [], r2)
          else match parse_members f r with Some (ms, r') => Some (JObj ms, r') | None => None end
        | [] => None
        end
      else if c =? 110 then
        match r with
        | c1 :: c2 :: c3 :: r' =>
          if (c1 =? 117) && (c2 =? 108) && (c3 =? 108) then Some (JNull, r') else None
        | _ => None
        end
      else if is_digit c then
        let '(ds, r') := span_digits s in Some (JNum (parse_digits ds), r')
      else None
    end
  end
with parse_elems (fuel : nat) (s : bytes) {struct fuel} : option (list Json * bytes) :=
  match fuel with
  | O => None
  | S f =>
    match parse_value f s with
    | Some (v, c :: r) =>
      if c =? 93 then Some ([v], r)
      else if c =? 44 then
        match parse_elems f r with Some (vs, r') => Some (v :: vs, r') | None => None end
      else None
    | _ => None
    end
  end
with parse_members (fuel : nat) (s : bytes) {struct fuel} : option (list (bytes * Json) * bytes) :=
  match fuel with
  | O => None
  | S f =>
    match s with
    | c :: r =>
      if c =? 34 then
        match parse_str_body r with
        | Some (k, c2 :: r2) =>
          if c2 =? 58 then
            match parse_value f r2 with
            | Some (v, c3 :: r3) =>
              if c3 =? 125 then Some ([(k, v)], r3)
              else if c3 =? 44 then
                match parse_members f r3 with Some (ms, r') => Some ((k, v) :: ms, r') | None => None end
              else None
            | _ => None
            end
          else None
        | _ => None
        end
      else None
    | [] => None
    end
  end.

Definition json_parse (s : bytes) : option Json :=
  match parse_value (S (length s)) s with
  | Some (v, []) => Some v
  | _ => None
  end.

(* size measure: enough fuel for parse_value *)
Fixpoint jsize (v : Json) : nat :=
  match v with
  | JArr l => S (fold_right (fun x acc => S (jsize x + acc)) O l)
  | JObj m => S (fold_right (fun kv acc => S (jsize (snd kv) + acc)) O m)
  | _ => 1
  end.

(* structural equality, for the case runner *)
Fixpoint json_eqb (a c : Json) : bool :=
  match a, c with
  | JNull, JNull => true
  | JNum x, JNum y => x =? y
  | JStr x, JStr y => bytes_eqb x y
  | JArr x, JArr y =>
    (fix go (x y : list Json) : bool :=
       match x, y with [] , [] => true | a' :: x', c' :: y' => json_eqb a' c' && go x' y' | _, _ => false end) x y
  | JObj x, JObj y =>
    (fix go (x : list (bytes * Json)) (y : list (bytes * Json)) : bool :=
       match x, y with
       | [], [] => true
       | (k, a') :: x', (k', c') :: y' => bytes_eqb k k' && json_eqb a' c' && go x' y'
       | _, _ => false end) x y
  | _, _ => false
  end.
