(* Proleptic Gregorian calendar arithmetic and the Arrow definitions of the temporal types.
   The text-level parsing/formatting of dates and times is done by chrono (external); this file
   is the specification the stored integers are checked against, plus a model of the canonical
   strings the readers produce. *)
From Verif Require Export Span.
Local Open Scope Z_scope.

Definition is_leap (y : Z) : bool := ((y mod 4 =? 0) && negb (y mod 100 =? 0)) || (y mod 400 =? 0).
Definition days_in_month (y m : Z) : Z :=
  if (m =? 2) then (if is_leap y then 29 else 28)
  else if (m =? 4) || (m =? 6) || (m =? 9) || (m =? 11) then 30 else 31.
Definition valid_date (y m d : Z) : bool := (1 <=? m) && (m <=? 12) && (1 <=? d) && (d <=? days_in_month y m).

(* days since 1970-01-01 of a civil date (era based, floor division) *)
Definition days_from_civil (y m d : Z) : Z :=
  let y' := if m <=? 2 then y - 1 else y in
  let era := y' / 400 in
  let yoe := y' - era * 400 in
  let mp := if 2 <? m then m - 3 else m + 9 in
  let doy := (153 * mp + 2) / 5 + d - 1 in
  let doe := yoe * 365 + yoe / 4 - yoe / 100 + doy in
  era * 146097 + doe - 719468.

Definition civil_from_days (z0 : Z) : Z * Z * Z :=
  let z := z0 + 719468 in
  let era := z / 146097 in
  let doe := z - era * 146097 in
  let yoe := (doe - doe / 1460 + doe / 36524 - doe / 146096) / 365 in
  let y := yoe + era * 400 in
  let doy := doe - (365 * yoe + yoe / 4 - yoe / 100) in
  let mp := (5 * doy + 2) / 153 in
  let d := doy - (153 * mp + 2) / 5 + 1 in
  let m := if mp <? 10 then mp + 3 else mp - 9 in
  (if m <=? 2 then y + 1 else y, m, d).

(* ---- Arrow definitions of the stored integers ---- *)
Definition sub_factor (u : TimeUnit) : Z := 1000000000 / per_second u.   (* nanoseconds per unit *)

(* time of day: h:mi:s.nanos since midnight in the unit, finer digits dropped *)
Definition time_value (u : TimeUnit) (h mi s nanos : Z) : Z :=
  (h * 3600 + mi * 60 + s) * per_second u + nanos / sub_factor u.

(* instant: units since the epoch, floor *)
Definition timestamp_value (u : TimeUnit) (y m d h mi s nanos : Z) : Z :=
  ((days_from_civil y m d * 86400 + h * 3600 + mi * 60 + s) * 1000000000 + nanos) / sub_factor u.

(* ---- canonical strings produced by the readers ---- *)
Definition pad2 (n : Z) : bytes := pad_N 2 (Z.to_N n).

(* chrono NaiveDate Debug/Display, with the crate's own rule for negative years *)
Definition year_text (y : Z) : bytes :=
  if y <? 0 then 45%N :: pad_N 6 (Z.to_N (- y))
  else if y <=? 9999 then pad_N 4 (Z.to_N y)
  else 43%N :: pad_N 5 (Z.to_N y).

Definition date_text (y m d : Z) : bytes := year_text y ++ [45%N] ++ pad2 m ++ [45%N] ++ pad2 d.

(* chrono NaiveTime Debug/Display: fraction printed with 0, 3, 6 or 9 digits *)
Definition time_text (secs nanos : Z) : bytes :=
  let h := secs / 3600 in let mi := secs / 60 mod 60 in let s := secs mod 60 in
  pad2 h ++ [58%N] ++ pad2 mi ++ [58%N] ++ pad2 s ++
  (if nanos =? 0 then []
   else if nanos mod 1000000 =? 0 then 46%N :: pad_N 3 (Z.to_N (nanos / 1000000))
   else if nanos mod 1000 =? 0 then 46%N :: pad_N 6 (Z.to_N (nanos / 1000))
   else 46%N :: pad_N 9 (Z.to_N nanos)).

Definition min_year : Z := -262143.
Definition max_year : Z := 262142.

(* DateDeserializer::get_string_repr: `ts / DAY_TO_VALUE_FACTOR` truncates toward zero *)
Definition format_date (factor : Z) (v : Z) : Outcome bytes :=
  let days := Z.quot v factor in
  let '(y, m, d) := civil_from_days days in
  if (y <? min_year) || (max_year <? y) then Err else Ok (date_text y m d).

(* TimeDeserializer::get_string_repr: Rust `/` and `%` truncate; negative parts fail u32::try_from *)
Definition format_time (u : TimeUnit) (v : Z) : Outcome bytes :=
  let secs := Z.quot v (per_second u) in
  let nanos := Z.rem v (per_second u) * sub_factor u in
  if (secs <? 0) || (nanos <? 0) || (4294967295 <? secs) || (86400 <=? secs) then Err
  else Ok (time_text secs nanos).

(* TimestampDeserializer::get_string_repr *)
Definition format_timestamp (u : TimeUnit) (utc : bool) (v : Z) : Outcome bytes :=
  let total_nanos := v * sub_factor u in
  let secs := total_nanos / 1000000000 in           (* floor: chrono's rem_euclid split *)
  let nanos := total_nanos mod 1000000000 in
  let days := secs / 86400 in
  let sod := secs mod 86400 in
  let '(y, m, d) := civil_from_days days in
  if (y <? min_year) || (max_year <? y) then Err
  else Ok (date_text y m d ++ [84%N] ++ time_text sod nanos ++ (if utc then [90%N] else [])).
