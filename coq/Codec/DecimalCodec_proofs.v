From Verif Require Import DecimalCodec Decimal_proofs.
Require Import ZifyBool ZifyN ZifyNat.
Local Open Scope nat_scope.

(* ---------------- basic facts ---------------- *)
Lemma position_dot_lt s pos : position_dot s = Some pos -> pos < length s.
Proof.
  revert pos; induction s as [|c r IH]; intros pos H; cbn [position_dot] in H; [discriminate|].
  destruct (N.eqb c 46).
  - inversion H; subst. cbn; lia.
  - destruct (position_dot r) as [q|]; [|discriminate]. inversion H; subst. specialize (IH q eq_refl). cbn; lia.
Qed.

Lemma find_period_bounds s bf af : find_period s = (bf, af) ->
  bf <= af /\ af <= length s.
Proof.
  unfold find_period. destruct (position_dot s) as [pos|] eqn:E; intros H; inversion H; subst.
  - apply position_dot_lt in E. lia.
  - lia.
Qed.

Lemma slice_ok s a e : a <= e -> e <= length s ->
  slice s a e = Ok (firstn (e - a) (skipn a s)) /\ length (firstn (e - a) (skipn a s)) = e - a.
Proof.
  intros H1 H2. unfold slice.
  destruct (Nat.leb_spec a e); [|lia]. destruct (Nat.leb_spec e (length s)); [|lia]. cbn [andb].
  split; [reflexivity|]. rewrite firstn_length, skipn_length. lia.
Qed.

Lemma guard_np c k : guard c <> Panic k.
Proof. destruct c; discriminate. Qed.

Lemma bind_guard_np {B} c (f : unit -> Outcome B) :
  (forall k, f tt <> Panic k) -> forall k, bind (guard c) f <> Panic k.
Proof. intros H k. destruct c; cbn; [apply H|discriminate]. Qed.

Lemma bind_slice_np {B} s a e (f : bytes -> Outcome B) : a <= e -> e <= length s ->
  (forall r, length r = e - a -> forall k, f r <> Panic k) -> forall k, bind (slice s a e) f <> Panic k.
Proof.
  intros H1 H2 Hf k. destruct (slice_ok s a e H1 H2) as [-> Hl]. cbn [bind]. apply Hf, Hl.
Qed.

Lemma bind_usub_np {B} a c (f : nat -> Outcome B) : c <= a ->
  (forall k, f (a - c) <> Panic k) -> forall k, bind (usub a c) f <> Panic k.
Proof. intros H Hf k. unfold usub. destruct (Nat.leb_spec c a); [|lia]. cbn [bind]. apply Hf. Qed.

Lemma bind_buf_np {B} n (f : unit -> Outcome B) : n <= BUF ->
  (forall k, f tt <> Panic k) -> forall k, bind (buf_ok n) f <> Panic k.
Proof. intros H Hf k. unfold buf_ok. destruct (Nat.leb_spec n BUF); [|lia]. cbn [bind]. apply Hf. Qed.

(* ---------------- the digit copiers never panic ---------------- *)
Lemma copy_int_np p n s : p <= BUF -> forall k, copy_int p n s <> Panic k.
Proof.
  intros Hp. unfold copy_int. destruct (find_period s) as [bf af] eqn:E.
  apply find_period_bounds in E as [H1 H2].
  apply bind_slice_np; [lia|lia|]. intros lead _. apply bind_guard_np.
  apply bind_slice_np; [lia|lia|]. intros mid _. apply bind_guard_np.
  apply bind_slice_np; [lia|lia|]. intros tl _. apply bind_guard_np.
  apply bind_slice_np; [lia|lia|]. intros cp _.
  apply bind_buf_np; [lia|]. discriminate.
Qed.

Lemma copy_mixed_np p sc s : p <= BUF -> sc < p -> forall k, copy_mixed p sc s <> Panic k.
Proof.
  intros Hp Hs. unfold copy_mixed. destruct (find_period s) as [bf af] eqn:E.
  apply find_period_bounds in E as [H1 H2].
  apply bind_usub_np; [lia|].
  apply bind_usub_np; [lia|].
  apply bind_usub_np; [lia|].
  apply bind_slice_np; [lia|lia|]. intros lead _. apply bind_guard_np.
  apply bind_slice_np; [lia|lia|]. intros c1 Hc1. apply bind_guard_np.
  apply bind_slice_np; [lia|lia|]. intros tl _. apply bind_guard_np.
  apply bind_slice_np; [lia|lia|]. intros c2 Hc2.
  apply bind_buf_np; [lia|].
  destruct (Nat.leb_spec (length c1) BUF); [|lia].
  apply bind_buf_np; [lia|].
  destruct (Nat.leb_spec (length c1 + length c2) BUF); [|lia].
  apply bind_buf_np; [lia|]. discriminate.
Qed.

Lemma copy_frac_np p sc s : p <= BUF -> p <= sc -> forall k, copy_frac p sc s <> Panic k.
Proof.
  intros Hp Hs. unfold copy_frac. destruct (find_period s) as [bf af] eqn:E.
  apply find_period_bounds in E as [H1 H2].
  apply bind_usub_np; [lia|].
  apply bind_usub_np; [lia|].
  apply bind_usub_np; [lia|].
  apply bind_slice_np; [lia|lia|]. intros lead _. apply bind_guard_np.
  apply bind_slice_np; [lia|lia|]. intros z _. apply bind_guard_np.
  apply bind_slice_np; [lia|lia|]. intros tl _. apply bind_guard_np.
  apply bind_slice_np; [lia|lia|]. intros cp _.
  apply bind_buf_np; [lia|].
  match goal with |- context [Nat.leb ?a BUF] => destruct (Nat.leb_spec a BUF); [|lia] end.
  apply bind_buf_np; [lia|]. discriminate.
Qed.

Lemma copy_digits_np p sz s : p <= BUF -> forall k, copy_digits (parser_new p sz) s <> Panic k.
Proof.
  intros Hp. unfold parser_new. destruct (sz <? 0)%Z; cbn [copy_digits]; [apply copy_int_np, Hp|].
  destruct (Nat.ltb_spec (Z.to_nat sz) p); cbn [copy_digits]; [apply copy_mixed_np|apply copy_frac_np]; lia.
Qed.

Theorem parse_decimal128_np p sz t : p <= 255 -> forall k, parse_decimal128 p sz t <> Panic k.
Proof.
  intros Hp k. unfold parse_decimal128. destruct (parse_sign t) as [u neg].
  destruct (negb (existsb is_digit u)); [discriminate|].
  apply bind_not_panic; [apply copy_digits_np; unfold BUF; lia|].
  intros ds. apply bind_not_panic; [|intros; discriminate].
  intros k'. destruct ds; [discriminate|]. unfold parse_i128. destruct (_ <? _)%Z; discriminate.
Qed.

(* ---------------- the stored value respects the precision ---------------- *)
Lemma value_be_bound ds : Forall (fun d => (d < 10)%N) ds -> (value_be ds < 10 ^ N.of_nat (length ds))%N.
Proof.
  unfold value_be. intros H.
  assert (G : forall acc k, (acc < 10 ^ N.of_nat k)%N ->
            (fold_left (fun a d => a * 10 + d) ds acc < 10 ^ N.of_nat (k + length ds))%N).
  { induction H as [|d r Hd _ IH]; intros acc k Hacc; cbn [fold_left length].
    - rewrite Nat.add_0_r. exact Hacc.
    - replace (k + S (length r)) with (S k + length r) by lia. apply IH.
      rewrite Nnat.Nat2N.inj_succ, N.pow_succ_r'. lia. }
  specialize (G 0%N 0 ltac:(cbn; lia)). exact G.
Qed.

Lemma digit_vals_lt ds : all_digit ds = true -> Forall (fun d => (d < 10)%N) (map digit_val ds).
Proof.
  unfold all_digit. rewrite forallb_forall. intros H. apply Forall_map, Forall_forall. intros c Hc.
  specialize (H c Hc). unfold is_digit in H. unfold digit_val. lia.
Qed.

Lemma parse_digits_bound ds : all_digit ds = true -> (parse_digits ds < 10 ^ N.of_nat (length ds))%N.
Proof.
  intros H. unfold parse_digits. rewrite <- (map_length digit_val ds). apply value_be_bound, digit_vals_lt, H.
Qed.

Lemma guard_ok c : guard c = Ok tt -> c = true.
Proof. destruct c; [reflexivity|discriminate]. Qed.

Lemma all_digit_app x y : all_digit (x ++ y) = all_digit x && all_digit y.
Proof. apply forallb_app. Qed.

Lemma all_digit_repeat n : all_digit (repeat 48%N n) = true.
Proof. induction n; [reflexivity|]. cbn. exact IHn. Qed.

Lemma forallb_firstn {A} (f : A -> bool) n s : forallb f s = true -> forallb f (firstn n s) = true.
Proof.
  revert n; induction s as [|x s IH]; intros [|n] H; cbn in *; auto.
  apply andb_true_iff in H as [H1 H2]. rewrite H1. cbn. apply IH, H2.
Qed.

Lemma forallb_skipn {A} (f : A -> bool) n s : forallb f s = true -> forallb f (skipn n s) = true.
Proof.
  revert n; induction s as [|x s IH]; intros [|n] H; cbn in *; auto.
  apply andb_true_iff in H as [H1 H2]. apply IH, H2.
Qed.

Lemma skipn_skipn' {A} (x y : nat) (l : list A) : skipn x (skipn y l) = skipn (y + x) l.
Proof.
  revert l; induction y as [|y IH]; intros l; [reflexivity|].
  destruct l as [|a l]; [cbn; rewrite !skipn_nil; reflexivity|]. cbn [skipn plus]. apply IH.
Qed.

(* slices of one string: a slice [a, e) inside a checked slice [a0, e0) inherits the check *)
Lemma slice_sub_forallb (f : N -> bool) s a0 e0 a e r0 r :
  slice s a0 e0 = Ok r0 -> forallb f r0 = true -> slice s a e = Ok r -> a0 <= a -> e <= e0 ->
  forallb f r = true.
Proof.
  unfold slice. intros H0 Hf H Ha He.
  destruct (Nat.leb_spec a0 e0); [|discriminate]. destruct (Nat.leb_spec e0 (length s)); [|discriminate].
  destruct (Nat.leb_spec a e); [|discriminate]. destruct (Nat.leb_spec e (length s)); [|discriminate].
  cbn [andb] in *. inversion H0; subst r0. inversion H; subst r. clear H0 H.
  assert (Ea : skipn a s = skipn (a - a0) (skipn a0 s)) by (rewrite skipn_skipn'; replace (a0 + (a - a0)) with a by lia; reflexivity).
  rewrite Ea.
  assert (E : firstn (e - a) (skipn (a - a0) (skipn a0 s))
              = firstn (e - a) (skipn (a - a0) (firstn (e0 - a0) (skipn a0 s)))).
  { rewrite skipn_firstn_comm, firstn_firstn. f_equal. lia. }
  rewrite E. apply forallb_firstn, forallb_skipn, Hf.
Qed.

Definition digits_ok (p : nat) (ds : bytes) : Prop := all_digit ds = true /\ length ds <= p.

Lemma copy_int_digits p n s ds : copy_int p n s = Ok ds -> digits_ok p ds.
Proof.
  unfold copy_int. destruct (find_period s) as [bf af] eqn:E.
  intros H.
  apply bind_ok in H as (lead & Hl & H). apply bind_ok in H as ([] & Hg1 & H).
  apply bind_ok in H as (mid & Hm & H). apply bind_ok in H as ([] & Hg2 & H). apply guard_ok in Hg2.
  apply bind_ok in H as (tl & Ht & H). apply bind_ok in H as ([] & Hg3 & H).
  apply bind_ok in H as (cp & Hc & H). apply bind_ok in H as ([] & Hb & H). inversion H; subst ds.
  split.
  - eapply (slice_sub_forallb is_digit); [exact Hm|exact Hg2|exact Hc|lia|lia].
  - revert Hc. unfold slice. destruct (_ && _); [|discriminate]. intros Hc; inversion Hc.
    rewrite firstn_length. lia.
Qed.

Lemma slice_length s a e r : slice s a e = Ok r -> length r = e - a.
Proof.
  unfold slice. destruct (Nat.leb_spec a e) as [Hae|Hae]; [|discriminate]. destruct (Nat.leb_spec e (length s)) as [Hel|Hel]; [|discriminate].
  cbn [andb]. intros Heq; inversion Heq. rewrite firstn_length, skipn_length. lia.
Qed.

Lemma usub_ok a c r : usub a c = Ok r -> r = a - c /\ c <= a.
Proof. unfold usub. destruct (Nat.leb_spec c a) as [Hca|Hca]; [|discriminate]. intros Heq; inversion Heq. lia. Qed.

Lemma copy_mixed_digits p sc s ds : copy_mixed p sc s = Ok ds -> digits_ok p ds.
Proof.
  unfold copy_mixed. destruct (find_period s) as [bf af] eqn:E. intros H.
  apply bind_ok in H as (idg & Hi & H). apply usub_ok in Hi as [-> Hi].
  apply bind_ok in H as (n2 & Hn2 & H). apply usub_ok in Hn2 as [-> Hn2].
  apply bind_ok in H as (fill & Hf & H). apply usub_ok in Hf as [-> Hf].
  apply bind_ok in H as (lead & Hl & H). apply bind_ok in H as ([] & Hg1 & H).
  apply bind_ok in H as (c1 & Hc1 & H). apply bind_ok in H as ([] & Hg2 & H). apply guard_ok in Hg2.
  apply bind_ok in H as (tl & Ht & H). apply bind_ok in H as ([] & Hg3 & H). apply guard_ok in Hg3.
  apply bind_ok in H as (c2 & Hc2 & H).
  apply bind_ok in H as ([] & _ & H). apply bind_ok in H as ([] & _ & H). apply bind_ok in H as ([] & _ & H).
  inversion H; subst ds. split.
  - rewrite !all_digit_app, all_digit_repeat. fold (all_digit c1) in Hg2. rewrite Hg2. cbn [andb].
    rewrite andb_true_r. eapply (slice_sub_forallb is_digit); [exact Ht|exact Hg3|exact Hc2|lia|lia].
  - rewrite !app_length, repeat_length. apply slice_length in Hc1, Hc2. lia.
Qed.

Lemma copy_frac_digits p sc s ds : copy_frac p sc s = Ok ds -> digits_ok p ds.
Proof.
  unfold copy_frac. destruct (find_period s) as [bf af] eqn:E. intros H.
  apply bind_ok in H as (shift & Hs & H). apply usub_ok in Hs as [-> Hs].
  apply bind_ok in H as (n & Hn & H). apply usub_ok in Hn as [-> Hn].
  apply bind_ok in H as (fill & Hf & H). apply usub_ok in Hf as [-> Hf].
  apply bind_ok in H as (lead & Hl & H). apply bind_ok in H as ([] & Hg1 & H).
  apply bind_ok in H as (z & Hz & H). apply bind_ok in H as ([] & Hg2 & H).
  apply bind_ok in H as (tl & Ht & H). apply bind_ok in H as ([] & Hg3 & H). apply guard_ok in Hg3.
  apply bind_ok in H as (cp & Hc & H).
  apply bind_ok in H as ([] & _ & H). apply bind_ok in H as ([] & _ & H).
  inversion H; subst ds. split.
  - rewrite all_digit_app, all_digit_repeat, andb_true_r.
    eapply (slice_sub_forallb is_digit); [exact Ht|exact Hg3|exact Hc|lia|lia].
  - rewrite app_length, repeat_length. apply slice_length in Hc. lia.
Qed.

Lemma copy_digits_ok p sz s ds : copy_digits (parser_new p sz) s = Ok ds -> digits_ok p ds.
Proof.
  unfold parser_new. destruct (sz <? 0)%Z; cbn [copy_digits]; [apply copy_int_digits|].
  destruct (Nat.ltb _ _); cbn [copy_digits]; [apply copy_mixed_digits|apply copy_frac_digits].
Qed.

Lemma pow10_mono a c : a <= c -> (10 ^ N.of_nat a <= 10 ^ N.of_nat c)%N.
Proof. intros H. apply N.pow_le_mono_r; lia. Qed.

Theorem parse_decimal128_bound p sz t v :
  parse_decimal128 p sz t = Ok v -> (Z.abs v < 10 ^ Z.of_nat p)%Z.
Proof.
  unfold parse_decimal128. destruct (parse_sign t) as [u neg].
  destruct (negb (existsb is_digit u)); [discriminate|]. intros H.
  apply bind_ok in H as (ds & Hd & H). apply copy_digits_ok in Hd as [Hall Hlen].
  apply bind_ok in H as (m & Hm & H). inversion H; subst v. clear H.
  assert (Hb : (0 <= m < 10 ^ Z.of_nat p)%Z).
  { destruct ds as [|c r]; [inversion Hm; subst; split; [lia|apply Z.pow_pos_nonneg; lia]|].
    unfold parse_i128 in Hm. destruct (_ <? _)%Z; [discriminate|]. inversion Hm; subst m.
    pose proof (parse_digits_bound (c :: r) Hall) as Hb. pose proof (pow10_mono _ _ Hlen) as Hp.
    split; [lia|]. 
    assert (Z.of_N (10 ^ N.of_nat p) = 10 ^ Z.of_nat p)%Z as <- by (rewrite N2Z.inj_pow; f_equal; lia).
    lia. }
  destruct neg; lia.
Qed.

Theorem float_to_decimal_bound p sc v : float_to_decimal p sc = Ok v -> (Z.abs v < 10 ^ Z.of_nat p)%Z.
Proof.
  unfold float_to_decimal. destruct sc as [z|]; [|discriminate].
  destruct (Z.leb_spec (10 ^ Z.of_nat p) (Z.abs z)) as [Hle|Hlt]; [discriminate|]. intros Heq; inversion Heq; subst. assumption.
Qed.

(* ---------------- formatting never panics ---------------- *)
Lemma le_digits_length fuel : forall n k, (n < 10 ^ N.of_nat k)%N -> 1 <= k -> length (le_digits fuel n) <= k.
Proof.
  induction fuel as [|f IH]; intros n k Hn Hk; cbn [le_digits]; [cbn; lia|].
  destruct (N.ltb_spec n 10); [cbn; lia|]. cbn [length].
  destruct k as [|[|k']]; [lia|cbn in Hn; lia|].
  specialize (IH (n / 10)%N (S k')). 
  assert (Hdiv : (n / 10 < 10 ^ N.of_nat (S k'))%N).
  { rewrite (Nnat.Nat2N.inj_succ (S k')), N.pow_succ_r' in Hn. apply N.div_lt_upper_bound; lia. }
  specialize (IH Hdiv ltac:(lia)). lia.
Qed.

Lemma print_N_length n k : (n < 10 ^ N.of_nat k)%N -> 1 <= k -> length (print_N n) <= k.
Proof. intros H Hk. unfold print_N. rewrite map_length, rev_length. apply le_digits_length; assumption. Qed.

Theorem format_decimal_np v s :
  (- 2 ^ 127 <= v < 2 ^ 127)%Z -> (-128 <= s <= 127)%Z -> forall k, format_decimal v s <> Panic k.
Proof.
  intros Hv Hs k. unfold format_decimal.
  assert (Hd : length (print_N (Z.abs_N v)) <= 39).
  { apply print_N_length; [|lia].
    assert ((Z.abs_N v <= 2 ^ 127)%N) by lia.
    assert ((2 ^ 127 < 10 ^ N.of_nat 39)%N) by (vm_compute; reflexivity). lia. }
  set (digits := print_N (Z.abs_N v)) in *. set (sign := if (v <? 0)%Z then [45%N] else []).
  assert (Hsg : length sign <= 1) by (subst sign; destruct (v <? 0)%Z; cbn; lia).
  revert k. apply bind_buf_np; [rewrite app_length; unfold BUF; lia|].
  destruct (s =? 0)%Z; [discriminate|].
  destruct (s <? 0)%Z eqn:Hneg.
  - destruct (v =? 0)%Z; [discriminate|].
    apply bind_buf_np; [rewrite app_length; unfold BUF; lia|]. discriminate.
  - destruct (Nat.leb_spec (length digits) (Z.to_nat s)).
    + apply bind_buf_np; [rewrite app_length; unfold BUF; lia|]. discriminate.
    + apply bind_buf_np; [rewrite app_length; unfold BUF; lia|]. discriminate.
Qed.
