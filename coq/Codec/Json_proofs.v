From Verif Require Import Json Decimal_proofs.
Require Import ZifyBool ZifyN ZifyNat.
Ltac Zify.zify_post_hook ::= Z.div_mod_to_equations.
Local Open Scope N_scope.

Section JsonInd.
  Variable P : Json -> Prop.
  Hypothesis Hnull : P JNull.
  Hypothesis Hnum : forall n, P (JNum n).
  Hypothesis Hstr : forall s, P (JStr s).
  Hypothesis Harr : forall l, Forall P l -> P (JArr l).
  Hypothesis Hobj : forall m, Forall (fun kv => P (snd kv)) m -> P (JObj m).
  Fixpoint Json_ind' (v : Json) : P v :=
    match v with
    | JNull => Hnull
    | JNum n => Hnum n
    | JStr s => Hstr s
    | JArr l => Harr l ((fix go (l : list Json) : Forall P l :=
                           match l with
                           | [] => Forall_nil _
                           | x :: r => Forall_cons x (Json_ind' x) (go r)
                           end) l)
    | JObj m => Hobj m ((fix go (m : list (bytes * Json)) : Forall (fun kv => P (snd kv)) m :=
                           match m with
                           | [] => Forall_nil _
                           | (k, x) :: r => Forall_cons (k, x) (Json_ind' x) (go r)
                           end) m)
    end.
End JsonInd.

Lemma unhex_hex n : n < 16 -> unhex (hex_digit n) = Some n.
Proof.
  intros H.
  assert (E : n = 0 \/ n = 1 \/ n = 2 \/ n = 3 \/ n = 4 \/ n = 5 \/ n = 6 \/ n = 7 \/ n = 8 \/ n = 9
              \/ n = 10 \/ n = 11 \/ n = 12 \/ n = 13 \/ n = 14 \/ n = 15) by lia.
  repeat (destruct E as [->|E]; [reflexivity|]). subst. reflexivity.
Qed.

Lemma esc_ctrl c : c < 32 ->
  unhex4 48 48 (hex_digit (c / 16)) (hex_digit (c mod 16)) = Some c.
Proof.
  intros H. unfold unhex4. change (unhex 48) with (Some 0).
  rewrite !unhex_hex by lia. f_equal. lia.
Qed.

Lemma parse_str_roundtrip t r : parse_str_body (flat_map esc_char t ++ 34 :: r) = Some (t, r).
Proof.
  induction t as [|c t IH]; [reflexivity|].
  cbn [flat_map]. rewrite <- app_assoc. unfold esc_char at 1.
  destruct (N.eqb_spec c 34) as [->|H34].
  { cbn [app parse_str_body]. change (92 =? 34) with false. change (92 =? 92) with true.
    change (34 =? 117) with false. cbn [N.eqb Pos.eqb simple_escape]. rewrite IH. reflexivity. }
  destruct (N.eqb_spec c 92) as [->|H92].
  { cbn [app parse_str_body]. change (92 =? 34) with false. change (92 =? 92) with true.
    change (92 =? 117) with false. change (simple_escape 92) with (Some 92). rewrite IH. reflexivity. }
  destruct (N.ltb_spec c 32) as [Hlt|Hge].
  - cbn [app parse_str_body]. change (92 =? 34) with false. change (92 =? 92) with true.
    change (117 =? 117) with true. rewrite esc_ctrl by exact Hlt.
    assert (c <? 128 = true) as -> by lia. rewrite IH. reflexivity.
  - cbn [app parse_str_body].
    assert (c =? 34 = false) as -> by lia. assert (c =? 92 = false) as -> by lia.
    assert (c <? 32 = false) as -> by lia. rewrite IH. reflexivity.
Qed.

(* first character of a printed value *)
Definition head_ok (v : Json) (c : N) : Prop :=
  match v with
  | JNull => c = 110 | JNum _ => is_digit c = true | JStr _ => c = 34 | JArr _ => c = 91 | JObj _ => c = 123
  end.

Lemma print_head v : exists c t, print v = c :: t /\ head_ok v c.
Proof.
  destruct v as [|n|s|l|m]; cbn [print head_ok].
  - eauto. - apply print_N_head. - unfold print_str; eauto. - eauto. - eauto.
Qed.

Lemma head_not_close v c : head_ok v c -> c <> 93 /\ c <> 125 /\ c <> 44.
Proof. destruct v; cbn [head_ok]; unfold is_digit; intros H; lia. Qed.

Definition RT (v : Json) : Prop :=
  forall fuel r, (jsize v < fuel)%nat -> no_digit_head r -> parse_value fuel (print v ++ r) = Some (v, r).

Definition esum (l : list Json) : nat := fold_right (fun x acc => S (jsize x + acc)) O l.
Definition msum (m : list (bytes * Json)) : nat := fold_right (fun kv acc => S (jsize (snd kv) + acc)) O m.

Definition mtext (kv : bytes * Json) : bytes := print_str (fst kv) ++ 58 :: print (snd kv).
Definition rest_text (l : list bytes) : bytes := flat_map (fun y => 44 :: y) l.

Lemma elems_roundtrip l' : forall x, RT x -> Forall RT l' ->
  forall fuel r, (esum (x :: l') < fuel)%nat ->
  parse_elems fuel (print x ++ rest_text (map print l') ++ 93 :: r) = Some (x :: l', r).
Proof.
  induction l' as [|y l'' IH]; intros x Hx Hall fuel r Hf;
    cbn [esum fold_right] in Hf; (destruct fuel as [|f]; [lia|]); cbn [parse_elems].
  - cbn [map rest_text flat_map app]. rewrite Hx; [|lia|cbn; reflexivity].
    change (93 =? 93) with true. reflexivity.
  - inversion Hall as [|? ? Hy Hall']; subst.
    cbn [map rest_text flat_map]. fold (rest_text (map print l'')). cbn [app]. rewrite <- app_assoc.
    rewrite Hx; [|fold (esum l'') in Hf; lia|cbn; reflexivity].
    change (44 =? 93) with false. change (44 =? 44) with true.
    rewrite (IH y Hy Hall' f r); [reflexivity|]. cbn [esum fold_right]. lia.
Qed.

Lemma members_roundtrip m' : forall kv, RT (snd kv) -> Forall (fun kv => RT (snd kv)) m' ->
  forall fuel r, (msum (kv :: m') < fuel)%nat ->
  parse_members fuel (mtext kv ++ rest_text (map mtext m') ++ 125 :: r) = Some (kv :: m', r).
Proof.
  induction m' as [|kv' m'' IH]; intros [k x] Hx Hall fuel r Hf; cbn [snd] in Hx;
    cbn [msum fold_right snd] in Hf; (destruct fuel as [|f]; [lia|]);
    unfold mtext at 1; cbn [fst snd]; unfold print_str at 1; cbn [app parse_members];
    change (34 =? 34) with true; rewrite <- !app_assoc; cbn [app];
    rewrite parse_str_roundtrip; change (58 =? 58) with true.
  - cbn [map rest_text flat_map app]. rewrite Hx; [|lia|cbn; reflexivity].
    change (125 =? 125) with true. reflexivity.
  - inversion Hall as [|? ? Hy Hall']; subst.
    cbn [map rest_text flat_map]. fold (rest_text (map mtext m'')). cbn [app]. rewrite <- app_assoc.
    rewrite Hx; [|fold (msum m'') in Hf; lia|cbn; reflexivity].
    change (44 =? 125) with false. change (44 =? 44) with true.
    rewrite (IH kv' Hy Hall' f r); [reflexivity|]. cbn [msum fold_right]. lia.
Qed.

Lemma parse_value_obj f T' :
  parse_value (S f) (123 :: 34 :: T') =
  match parse_members f (34 :: T') with Some (ms, r') => Some (JObj ms, r') | None => None end.
Proof. reflexivity. Qed.

Lemma parse_value_arr f c T' : c <> 93 ->
  parse_value (S f) (91 :: c :: T') =
  match parse_elems f (c :: T') with Some (vs, r') => Some (JArr vs, r') | None => None end.
Proof.
  intros H. cbn [parse_value]. change (91 =? 34) with false. change (91 =? 91) with true.
  assert (c =? 93 = false) as -> by lia. reflexivity.
Qed.

Lemma print_arr_text x l' r :
  print (JArr (x :: l')) ++ r = 91 :: (print x ++ rest_text (map print l') ++ 93 :: r).
Proof. cbn [print map join]. unfold rest_text. cbn [app]. rewrite <- !app_assoc. reflexivity. Qed.

Lemma print_obj_text kv m' r :
  print (JObj (kv :: m')) ++ r = 123 :: (mtext kv ++ rest_text (map mtext m') ++ 125 :: r).
Proof. cbn [print map join]. unfold rest_text, mtext. cbn [app]. rewrite <- !app_assoc. reflexivity. Qed.

Lemma parse_print_gen : forall v, RT v.
Proof.
  apply Json_ind'; unfold RT.
  - intros [|f] r Hf _; [cbn in Hf; lia|]. reflexivity.
  - intros n [|f] r Hf Hr; [cbn in Hf; lia|]. cbn [print].
    destruct (print_N_head n) as (c & t & E & Hc).
    pose proof (span_print_N n r Hr) as Hs. rewrite E in Hs |- *. cbn [app] in Hs |- *.
    cbn [parse_value]. unfold is_digit in Hc.
    assert (c =? 34 = false) as -> by lia. assert (c =? 91 = false) as -> by lia.
    assert (c =? 123 = false) as -> by lia. assert (c =? 110 = false) as -> by lia.
    assert (is_digit c = true) as -> by (unfold is_digit; lia).
    rewrite Hs. rewrite <- E, parse_print_N. reflexivity.
  - intros s [|f] r Hf _; [cbn in Hf; lia|]. cbn [print]. unfold print_str. cbn [app parse_value].
    change (34 =? 34) with true. rewrite <- app_assoc. cbn [app]. rewrite parse_str_roundtrip. reflexivity.
  - intros l Hall [|f] r Hf _; [cbn in Hf; lia|].
    destruct l as [|x l']; [reflexivity|].
    inversion Hall as [|? ? Hx Hall']; subst.
    cbn [jsize] in Hf. fold (esum (x :: l')) in Hf.
    pose proof (elems_roundtrip l' x Hx Hall' f r ltac:(lia)) as He.
    rewrite print_arr_text.
    destruct (print_head x) as (c & t & E & Hc). apply head_not_close in Hc as (H93 & _ & _).
    rewrite E in He |- *. cbn [app] in He |- *.
    rewrite parse_value_arr by exact H93. rewrite He. reflexivity.
  - intros m Hall [|f] r Hf _; [cbn in Hf; lia|].
    destruct m as [|kv m']; [reflexivity|].
    inversion Hall as [|? ? Hx Hall']; subst.
    cbn [jsize] in Hf. fold (msum (kv :: m')) in Hf.
    pose proof (members_roundtrip m' kv Hx Hall' f r ltac:(lia)) as He.
    rewrite print_obj_text.
    assert (EH : exists T', mtext kv ++ rest_text (map mtext m') ++ 125 :: r = 34 :: T')
      by (unfold mtext, print_str; cbn [app]; eauto).
    destruct EH as [T' EH]. rewrite EH in He |- *. rewrite parse_value_obj, He. reflexivity.
Qed.

Lemma rest_text_length (f : Json -> nat) l : 
  Forall (fun v => (jsize v <= length (print v))%nat) l ->
  (esum l <= length (rest_text (map print l)))%nat.
Proof.
  intros Hall. induction Hall as [|x l' Hx _ IH]; [cbn; lia|].
  cbn [esum fold_right map rest_text flat_map]. fold (esum l'). fold (rest_text (map print l')).
  rewrite app_length. cbn [length]. lia.
Qed.

Lemma mtext_length kv : (jsize (snd kv) <= length (print (snd kv)) -> jsize (snd kv) <= length (mtext kv))%nat.
Proof. unfold mtext. rewrite app_length. cbn [length]. lia. Qed.

Lemma rest_mtext_length m :
  Forall (fun kv => (jsize (snd kv) <= length (print (snd kv)))%nat) m ->
  (msum m <= length (rest_text (map mtext m)))%nat.
Proof.
  intros Hall. induction Hall as [|x l' Hx _ IH]; [cbn; lia|].
  cbn [msum fold_right map rest_text flat_map]. fold (msum l'). fold (rest_text (map mtext l')).
  rewrite app_length. cbn [length]. apply mtext_length in Hx. lia.
Qed.

Lemma jsize_le_length : forall v, (jsize v <= length (print v))%nat.
Proof.
  apply Json_ind'.
  - cbn; lia.
  - intros n. cbn [jsize print]. pose proof (print_N_nonempty n). destruct (print_N n); [congruence|cbn; lia].
  - intros s. cbn [jsize print]. unfold print_str. cbn [length]. lia.
  - intros l Hall. cbn [jsize print length]. fold (esum l). rewrite app_length. cbn [length].
    destruct l as [|x l']; [cbn; lia|]. inversion Hall as [|? ? Hx Hall']; subst.
    cbn [map join esum fold_right]. fold (esum l').
    change (flat_map (fun y : list N => 44 :: y) (map print l')) with (rest_text (map print l')).
    rewrite app_length. pose proof (rest_text_length jsize l' Hall'). lia.
  - intros m Hall. cbn [jsize print length]. fold (msum m). rewrite app_length. cbn [length].
    destruct m as [|x l']; [cbn; lia|]. inversion Hall as [|? ? Hx Hall']; subst.
    cbn [map join msum fold_right]. fold (msum l'). fold mtext. fold (mtext x).
    change (flat_map (fun y : list N => 44 :: y) (map mtext l')) with (rest_text (map mtext l')).
    rewrite app_length. pose proof (rest_mtext_length l' Hall'). apply mtext_length in Hx. lia.
Qed.

Theorem json_parse_print v : json_parse (print v) = Some v.
Proof.
  unfold json_parse. pose proof (parse_print_gen v (S (length (print v))) []) as H.
  rewrite app_nil_r in H. rewrite H; [reflexivity| |exact I].
  pose proof (jsize_le_length v). lia.
Qed.

Lemma json_eqb_refl : forall v, json_eqb v v = true.
Proof.
  apply Json_ind'; cbn [json_eqb]; intros.
  - reflexivity. - apply N.eqb_refl. - apply bytes_eqb_refl.
  - induction H as [|x l Hx _ IH]; [reflexivity|]. rewrite Hx, IH. reflexivity.
  - induction H as [|[k x] l Hx _ IH]; [reflexivity|]. cbn [snd] in Hx. rewrite bytes_eqb_refl, Hx, IH. reflexivity.
Qed.
