(* Reading a Decimal128 column: format_decimal prints a plain decimal numeral that is numerically equal to
   value * 10^(-scale), for every value and scale; and what it prints parses back to the same value. *)
From Verif Require Import DecimalCodec DecimalCodec_proofs Decimal_proofs DecimalExact_proofs.
Require Import ZifyBool ZifyN ZifyNat.
Local Open Scope nat_scope.

Definition sign_of (neg : bool) : bytes := if neg then [45%N] else [].

Lemma parse_sign_build neg ip rest : ip <> [] -> all_digit ip = true ->
  parse_sign (sign_of neg ++ ip ++ rest) = (ip ++ rest, neg).
Proof.
  intros Hne Hd. destruct neg; [reflexivity|]. destruct ip as [|c ip']; [congruence|].
  cbn [all_digit forallb] in Hd. apply andb_true_iff in Hd as [Hc _]. unfold is_digit in Hc.
  cbn [sign_of app parse_sign].
  destruct (N.eqb_spec c 43) as [E|_]; [lia|]. destruct (N.eqb_spec c 45) as [E|_]; [lia|]. reflexivity.
Qed.

Lemma denote_build neg ip mid fp : ip <> [] -> Form (ip ++ mid ++ fp) ip mid fp ->
  denote (sign_of neg ++ ip ++ mid ++ fp) = Some {| nm_neg := neg; nm_int := ip; nm_frac := fp |}.
Proof.
  intros Hne HF. unfold denote. rewrite parse_sign_build; [|exact Hne|apply HF].
  rewrite (form_split_dot _ _ _ _ HF). destruct HF as (_ & Hi & Hf & _). rewrite Hi, Hf. cbn [andb].
  destruct (Nat.eqb_spec (length ip + length fp) 0) as [E|E]; [destruct ip; [congruence|cbn in E; lia]|reflexivity].
Qed.

Lemma denote_int neg ip : ip <> [] -> all_digit ip = true ->
  denote (sign_of neg ++ ip) = Some {| nm_neg := neg; nm_int := ip; nm_frac := [] |}.
Proof.
  intros Hne Hd. pose proof (denote_build neg ip [] [] Hne) as HH. cbn [app] in HH. rewrite !app_nil_r in HH. apply HH.
  split; [rewrite app_nil_r; reflexivity|]. split; [exact Hd|]. split; [reflexivity|right; split; reflexivity].
Qed.

Lemma all_digit_print n : all_digit (print_N n) = true.
Proof. unfold all_digit. apply forallb_forall. apply Forall_forall. apply print_N_digits. Qed.

Lemma signed_abs v : (if (v <? 0)%Z then (- Z.of_N (Z.abs_N v))%Z else Z.of_N (Z.abs_N v)) = v.
Proof. destruct (Z.ltb_spec v 0); lia. Qed.

Lemma pd_nil : parse_digits [] = 0%N.
Proof. reflexivity. Qed.

Lemma pd_repeat0 k : parse_digits (repeat 48%N k) = 0%N.
Proof. apply pd_zeros, all_zero_repeat. Qed.

Lemma buf_ok_tt n (u : unit) : buf_ok n = Ok u -> True.
Proof. trivial. Qed.

Theorem format_exact v s t : format_decimal v s = Ok t ->
  exists n, denote t = Some n /\ value_scaled s n = v /\ numeral_eq n v s.
Proof.
  unfold format_decimal.
  pose proof (all_digit_print (Z.abs_N v)) as Hd. pose proof (print_N_nonempty (Z.abs_N v)) as Hne.
  pose proof (parse_print_N (Z.abs_N v)) as Hpd. pose proof (signed_abs v) as Hsg.
  set (digits := print_N (Z.abs_N v)) in *.
  change (if (v <? 0)%Z then [45%N] else []) with (sign_of (v <? 0)%Z).
  set (neg := (v <? 0)%Z) in *.
  intros H. apply bind_ok in H as ([] & _ & H).
  destruct (Z.eqb_spec s 0) as [->|Hs0].
  - (* scale 0 *)
    injection H as <-. exists {| nm_neg := neg; nm_int := digits; nm_frac := [] |}. split; [|split].
    + apply denote_int; assumption.
    + unfold value_scaled, magnitude_scaled. cbn [nm_neg nm_int nm_frac Z.ltb Z.compare Z.to_nat firstn N.of_nat].
      rewrite pd_nil, Hpd. replace (Z.abs_N v * 10 ^ 0 + 0)%N with (Z.abs_N v) by lia. exact Hsg.
    + unfold numeral_eq, numeral_num. cbn [nm_neg nm_int nm_frac length]. rewrite app_nil_r, Hpd.
      cbn [Z.max Z.compare Z.opp Z.of_nat]. rewrite Hsg. lia.
  - destruct (Z.ltb_spec s 0) as [Hneg|Hpos].
    + (* negative scale *)
      destruct (Z.eqb_spec v 0) as [->|Hv0].
      * injection H as <-. exists {| nm_neg := false; nm_int := [48%N]; nm_frac := [] |}. split; [reflexivity|]. split.
        -- unfold value_scaled, magnitude_scaled. cbn [nm_neg nm_int nm_frac]. destruct (Z.ltb_spec s 0); [|lia].
           change (parse_digits [48%N]) with 0%N. rewrite N.div_0_l; [reflexivity|]. apply N.pow_nonzero. lia.
        -- unfold numeral_eq, numeral_num. cbn [nm_neg nm_int nm_frac length app]. change (parse_digits [48%N]) with 0%N. lia.
      * apply bind_ok in H as ([] & _ & H). injection H as <-.
        set (k := Z.to_nat (- s)) in *.
        exists {| nm_neg := neg; nm_int := digits ++ repeat 48%N k; nm_frac := [] |}. split; [|split].
        -- rewrite <- app_assoc. apply denote_int; [destruct digits; [congruence|discriminate]|].
           rewrite all_digit_app, Hd, all_digit_repeat; reflexivity.
        -- unfold value_scaled, magnitude_scaled. cbn [nm_neg nm_int nm_frac]. destruct (Z.ltb_spec s 0); [|lia].
           rewrite pd_app, pd_repeat0, repeat_length, Hpd.
           replace (Z.to_N (- s)) with (N.of_nat k) by lia.
           rewrite N.add_0_r, N.div_mul; [exact Hsg|]. apply N.pow_nonzero. lia.
        -- unfold numeral_eq, numeral_num. cbn [nm_neg nm_int nm_frac length]. rewrite app_nil_r, pd_app, pd_repeat0, repeat_length, Hpd.
           rewrite N.add_0_r. rewrite N2Z.inj_mul, pow_N_Z.
           replace (Z.max s 0) with 0%Z by lia. replace (Z.max (- s) 0) with (Z.of_nat k) by lia.
           cbn [Z.of_nat]. rewrite !Z.pow_0_r, !Z.mul_1_r. rewrite <- Hsg at 2. destruct neg; lia.
    + (* positive scale *)
      set (sc := Z.to_nat s) in *. set (nd := length digits) in *.
      assert (Hsc : (0 < sc)) by lia.
      assert (Hmax : Z.max s 0 = Z.of_nat sc /\ Z.max (- s) 0 = 0%Z) by lia. destruct Hmax as [Hm1 Hm2].
      destruct (Nat.leb_spec nd sc) as [Hle|Hgt].
      * apply bind_ok in H as ([] & _ & H). injection H as <-.
        exists {| nm_neg := neg; nm_int := [48%N]; nm_frac := repeat 48%N (sc - nd) ++ digits |}. split; [|split].
        -- change ([48%N; 46%N] ++ repeat 48%N (sc - nd) ++ digits) with ([48%N] ++ [46%N] ++ (repeat 48%N (sc - nd) ++ digits)).
           apply (denote_build neg [48%N] [46%N] (repeat 48%N (sc - nd) ++ digits)); [discriminate|]. split; [reflexivity|]. split; [reflexivity|].
           split; [rewrite all_digit_app, Hd, all_digit_repeat; reflexivity|left; reflexivity].
        -- unfold value_scaled, magnitude_scaled. cbn [nm_neg nm_int nm_frac]. destruct (Z.ltb_spec s 0); [lia|]. fold sc.
           rewrite firstn_app. rewrite firstn_all2 by (rewrite app_length, repeat_length; fold nd; lia).
           rewrite app_length, repeat_length. fold nd. replace (sc - (sc - nd + nd)) with 0 by lia. rewrite firstn_O, app_nil_r.
           rewrite pd_lead_zero by apply all_zero_repeat. rewrite Hpd. change (parse_digits [48%N]) with 0%N.
           rewrite N.mul_0_l, N.add_0_l. exact Hsg.
        -- unfold numeral_eq, numeral_num. cbn [nm_neg nm_int nm_frac]. rewrite app_length, repeat_length. fold nd.
           change ([48%N] ++ repeat 48%N (sc - nd) ++ digits) with (repeat 48%N (S (sc - nd)) ++ digits).
           rewrite pd_lead_zero by apply all_zero_repeat. rewrite Hpd, Hm1, Hm2, Hsg. rewrite Z.pow_0_r.
           replace (sc - nd + nd) with sc by lia. lia.
      * apply bind_ok in H as ([] & _ & H). injection H as <-.
        exists {| nm_neg := neg; nm_int := firstn (nd - sc) digits; nm_frac := skipn (nd - sc) digits |}.
        assert (Hfl : length (skipn (nd - sc) digits) = sc) by (rewrite skipn_length; fold nd; lia).
        split; [|split].
        -- apply (denote_build neg (firstn (nd - sc) digits) [46%N] (skipn (nd - sc) digits)).
           ++ intros E. apply (f_equal (@length N)) in E. rewrite firstn_length in E. cbn [length] in E. unfold bytes in *. subst nd. lia.
           ++ split; [reflexivity|]. split; [apply forallb_firstn, Hd|]. split; [apply forallb_skipn, Hd|left; reflexivity].
        -- unfold value_scaled, magnitude_scaled. cbn [nm_neg nm_int nm_frac]. destruct (Z.ltb_spec s 0); [lia|]. fold sc.
           rewrite firstn_app, Hfl, Nat.sub_diag, firstn_O, app_nil_r. rewrite (@firstn_all2 _ sc) by (rewrite skipn_length; fold nd; lia).
           replace (N.of_nat sc) with (N.of_nat (length (skipn (nd - sc) digits))) by (rewrite Hfl; reflexivity). rewrite <- pd_app, firstn_skipn, Hpd. exact Hsg.
        -- unfold numeral_eq, numeral_num. cbn [nm_neg nm_int nm_frac]. rewrite firstn_skipn, Hpd, Hfl, Hm1, Hm2, Hsg, Z.pow_0_r. lia.
Qed.

(* what is read back parses to the stored value: for every precision that can hold the value *)
Theorem format_parse_roundtrip p s v t : p <= 38 -> (Z.abs v < 10 ^ Z.of_nat p)%Z ->
  format_decimal v s = Ok t -> parse_decimal128 p s t = Ok v.
Proof.
  intros Hp Hv Hf. destruct (format_exact v s t Hf) as (n & Hd & Hval & _).
  pose proof (parse_exact p s t Hp) as H. rewrite Hd, Hval in H.
  destruct (Z.ltb_spec (Z.abs v) (10 ^ Z.of_nat p)); [exact H|lia].
Qed.

Lemma format_decimal_not_err v s : format_decimal v s <> Err.
Proof.
  unfold format_decimal, buf_ok.
  repeat match goal with
  | |- context [Nat.leb ?a ?b] => destruct (Nat.leb a b); cbn [bind]
  | |- context [Z.eqb ?a ?b] => destruct (Z.eqb a b)
  | |- context [Z.ltb ?a ?b] => destruct (Z.ltb a b)
  end; discriminate.
Qed.

Theorem format_decimal_total v s : (- 2 ^ 127 <= v < 2 ^ 127)%Z -> (-128 <= s <= 127)%Z ->
  exists t, format_decimal v s = Ok t.
Proof.
  intros Hv Hs. pose proof (format_decimal_np v s Hv Hs) as Hnp. pose proof (format_decimal_not_err v s) as Hne.
  destruct (format_decimal v s) as [t| |k]; [eauto|congruence|exfalso; exact (Hnp k eq_refl)].
Qed.
