(* Model of the ISO-8601 span support in serde_arrow/src/internal/chrono.rs:
   parsing::match_span, Span::to_arrow_duration, format_arrow_duration_as_span.
   Text is bytes; only ASCII characters can match. *)
From Verif Require Export Decimal.
Local Open Scope Z_scope.

Inductive TimeUnit := Second | Millisecond | Microsecond | Nanosecond.
Definition per_second (u : TimeUnit) : Z :=
  match u with Second => 1 | Millisecond => 1000 | Microsecond => 1000000 | Nanosecond => 1000000000 end.
Definition unit_digits (u : TimeUnit) : nat :=
  match u with Second => 0 | Millisecond => 3 | Microsecond => 6 | Nanosecond => 9 end.

Definition i64_max : Z := 9223372036854775807.
Definition i64_min : Z := -9223372036854775808.

Record Span := {
  sp_neg : bool;                          (* sign == Some('-') *)
  sp_year : option bytes; sp_month : option bytes; sp_week : option bytes; sp_day : option bytes;
  sp_hour : option bytes; sp_minute : option bytes; sp_second : option bytes; sp_subsecond : option bytes }.

Definition upper_or_lower (c up : N) : bool := N.eqb c up || N.eqb c (up + 32)%N.

(* match_optional_span_value(s, unit): digits followed by the unit letter, or nothing consumed *)
Definition opt_span_value (s : bytes) (unit : N) : bytes * option bytes :=
  let '(ds, rest) := span_digits s in
  match ds, rest with
  | _ :: _, c :: r => if upper_or_lower c unit then (r, Some ds) else (s, None)
  | _, _ => (s, None)
  end.

(* match_optional_span_seconds: digits ['.' digits] 'S'; a '.' without digits is a hard error *)
Definition opt_span_seconds (s : bytes) : option (bytes * option bytes * option bytes) :=
  let '(ds, rest) := span_digits s in
  match ds with
  | [] => Some (s, None, None)
  | _ :: _ =>
    let after_frac :=
      match rest with
      | c0 :: r1 =>
        if N.eqb c0 46 then
          let '(fs, r2) := span_digits r1 in
          match fs with [] => None | _ => Some (r2, Some fs) end
        else Some (rest, None)
      | [] => Some (rest, None)
      end in
    match after_frac with
    | None => None
    | Some (r, sub) =>
      match r with
      | c :: r' => if upper_or_lower c 83 then Some (r', Some ds, sub) else Some (s, None, None)
      | [] => Some (s, None, None)
      end
    end
  end.

(* match_span followed by into_result: the whole text must be consumed *)
Definition parse_span (s : bytes) : option Span :=
  let '(s, neg) := match s with
                   | c0 :: r => if N.eqb c0 43 then (r, false) else if N.eqb c0 45 then (r, true) else (s, false)
                   | [] => (s, false) end in
  match s with
  | c :: s =>
    if upper_or_lower c 80 then
      let '(s, year) := opt_span_value s 89 in
      let '(s, month) := opt_span_value s 77 in
      let '(s, week) := opt_span_value s 87 in
      let '(s, day) := opt_span_value s 68 in
      let finish s hour minute second sub :=
          match s with
          | [] => Some {| sp_neg := neg; sp_year := year; sp_month := month; sp_week := week; sp_day := day;
                          sp_hour := hour; sp_minute := minute; sp_second := second; sp_subsecond := sub |}
          | _ => None
          end in
      match s with
      | t :: s' =>
        if upper_or_lower t 84 then
          let '(s1, hour) := opt_span_value s' 72 in
          let '(s2, minute) := opt_span_value s1 77 in
          match opt_span_seconds s2 with
          | Some (s3, second, sub) => finish s3 hour minute second sub
          | None => None
          end
        else finish s None None None None
      | [] => finish s None None None None
      end
    else None
  | [] => None
  end.

Definition u64_max : Z := 18446744073709551615.

(* get_optional_digit_value: str::parse::<u64>() of a digit string *)
Definition digit_value (o : option bytes) : Outcome Z :=
  match o with
  | Some ds => let v := Z.of_N (parse_digits ds) in if u64_max <? v then Err else Ok v
  | None => Ok 0
  end.

Definition second_value (sp : Span) : Outcome Z :=
  do w <- digit_value (sp_week sp) ;; do d <- digit_value (sp_day sp) ;;
  do h <- digit_value (sp_hour sp) ;; do m <- digit_value (sp_minute sp) ;;
  do s <- digit_value (sp_second sp) ;;
  Ok (w * 7 * 24 * 60 * 60 + d * 24 * 60 * 60 + h * 60 * 60 + m * 60 + s).

(* first nine sub-second digits, scaled to nanoseconds *)
Definition nanosecond_value (sp : Span) : Outcome Z :=
  match sp_subsecond sp with
  | None => Ok 0
  | Some sub =>
    let ds := firstn 9 sub in
    Ok (Z.of_N (parse_digits ds) * 10 ^ (9 - Z.of_nat (length ds)))
  end.

Definition build_duration (neg : bool) (secs nanos : Z) (u : TimeUnit) : Outcome Z :=
  let unsigned :=
      match u with
      | Second => secs
      | Millisecond => secs * 1000 + nanos / 1000000
      | Microsecond => secs * 1000000 + nanos / 1000
      | Nanosecond => secs * 1000000000 + nanos
      end in
  let d := if neg then - unsigned else unsigned in
  if (d <? i64_min) || (i64_max <? d) then Err else Ok d.

Definition to_arrow_duration (sp : Span) (u : TimeUnit) : Outcome Z :=
  do y <- digit_value (sp_year sp) ;; do mo <- digit_value (sp_month sp) ;;
  if negb ((y =? 0) && (mo =? 0)) then Err
  else
    do secs <- second_value sp ;; do nanos <- nanosecond_value sp ;;
    build_duration (sp_neg sp) secs nanos u.

(* DurationBuilder::serialize_str *)
Definition parse_duration (u : TimeUnit) (text : bytes) : Outcome Z :=
  match parse_span text with
  | Some sp => to_arrow_duration sp u
  | None => Err
  end.

(* zero padded decimal, `{:0w}` *)
Definition pad_N (w : nat) (n : N) : bytes :=
  let ds := print_N n in repeat 48%N (w - length ds) ++ ds.

(* format_arrow_duration_as_span *)
Definition format_duration (u : TimeUnit) (v : Z) : bytes :=
  let sign := if v <? 0 then [45%N] else [] in
  let a := Z.abs_N v in
  let ps := Z.to_N (per_second u) in
  match u with
  | Second => sign ++ [80; 84]%N ++ print_N a ++ [115%N]
  | _ => sign ++ [80; 84]%N ++ print_N (a / ps) ++ [46%N] ++ pad_N (unit_digits u) (a mod ps) ++ [115%N]
  end.

(* ---- specification: the exact value a span denotes, in units of 10^-k seconds where k is the
        number of sub-second digits ---- *)
Definition span_magnitude (sp : Span) (u : TimeUnit) : option Z :=
  let dv o := match o with Some ds => Z.of_N (parse_digits ds) | None => 0 end in
  let secs := (((dv (sp_week sp) * 7 + dv (sp_day sp)) * 24 + dv (sp_hour sp)) * 60 + dv (sp_minute sp)) * 60
              + dv (sp_second sp) in
  let sub := match sp_subsecond sp with Some ds => ds | None => [] end in
  let k := Z.of_nat (length sub) in
  (* trunc((secs + 0.sub) * per_second) *)
  Some ((secs * 10 ^ k + Z.of_N (parse_digits sub)) * per_second u / 10 ^ k).
