From Verif Require Import Span Decimal_proofs DecimalCodec DecimalCodec_proofs.
Require Import ZifyBool ZifyN ZifyNat.
Local Open Scope Z_scope.

(* ---------------- digit strings ---------------- *)
Lemma value_be_app a c :
  value_be (a ++ c) = (value_be a * 10 ^ N.of_nat (length c) + value_be c)%N.
Proof.
  unfold value_be. rewrite fold_left_app.
  generalize (fold_left (fun acc d : N => (acc * 10 + d)%N) a 0%N) as x.
  induction c as [|d c IH]; intros x; cbn [fold_left length].
  - cbn. lia.
  - rewrite IH, (IH (0 * 10 + d)%N). rewrite Nnat.Nat2N.inj_succ, N.pow_succ_r'. lia.
Qed.

Definition all_digits (s : bytes) : Prop := all_digit s = true.

Lemma parse_digits_lt s : all_digits s -> (parse_digits s < 10 ^ N.of_nat (length s))%N.
Proof. apply parse_digits_bound. Qed.

Lemma all_digits_firstn n s : all_digits s -> all_digits (firstn n s).
Proof. apply forallb_firstn. Qed.
Lemma all_digits_skipn n s : all_digits s -> all_digits (skipn n s).
Proof. apply forallb_skipn. Qed.

(* dropping trailing digits is floor division *)
Lemma parse_digits_firstn n s : all_digits s ->
  Z.of_N (parse_digits (firstn n s))
  = Z.of_N (parse_digits s) / 10 ^ (Z.of_nat (length s) - Z.of_nat (length (firstn n s))).
Proof.
  intros H. rewrite <- (firstn_skipn n s) at 2 3.
  unfold parse_digits at 2. rewrite map_app, value_be_app, map_length, app_length.
  fold (parse_digits (firstn n s)). fold (parse_digits (skipn n s)).
  assert (Hsk : all_digits (skipn n s)) by (apply all_digits_skipn, H).
  pose proof (parse_digits_lt _ Hsk) as Hlt.
  replace (Z.of_nat (length (firstn n s) + length (skipn n s)) - Z.of_nat (length (firstn n s)))
    with (Z.of_nat (length (skipn n s))) by lia.
  set (a := parse_digits (firstn n s)) in *. set (c := parse_digits (skipn n s)) in *.
  set (L := length (skipn n s)) in *.
  rewrite N2Z.inj_add, N2Z.inj_mul, N2Z.inj_pow, nat_N_Z. change (Z.of_N 10) with 10.
  assert (Hp : 0 < 10 ^ Z.of_nat L) by (apply Z.pow_pos_nonneg; lia).
  assert (Hc : 0 <= Z.of_N c < 10 ^ Z.of_nat L).
  { split; [lia|]. rewrite <- nat_N_Z. change 10 with (Z.of_N 10). rewrite <- N2Z.inj_pow. lia. }
  rewrite Z.div_add_l by lia. rewrite (Z.div_small (Z.of_N c)) by exact Hc. lia.
Qed.

(* ---------------- the scaling identity ---------------- *)
(* x: value of the k sub-second digits; the model keeps x9 = x / 10^(k-k9) with k9 = min k 9 and
   computes (x9 * 10^(9-k9)) / 10^(9-f); the specification says (x * 10^f) / 10^k. *)
Lemma pow10_pos e : 0 <= e -> 0 < 10 ^ e.
Proof. intros; apply Z.pow_pos_nonneg; lia. Qed.

Lemma scale_identity x k k9 f :
  0 <= x -> 0 <= f <= 9 -> 0 <= k9 <= 9 -> k9 <= k -> (k9 = k \/ k9 = 9) ->
  (x / 10 ^ (k - k9) * 10 ^ (9 - k9)) / 10 ^ (9 - f) = (x * 10 ^ f) / 10 ^ k.
Proof.
  intros Hx Hf Hk9 Hk [E|E].
  - subst k9. replace (k - k) with 0 by lia. rewrite Z.pow_0_r, Z.div_1_r.
    (* both sides are (x * 10^(9-k) * 10^f) / 10^9 *)
    transitivity ((x * 10 ^ (9 - k) * 10 ^ f) / 10 ^ 9).
    + replace (10 ^ 9) with (10 ^ (9 - f) * 10 ^ f) by (rewrite <- Z.pow_add_r by lia; f_equal; lia).
      rewrite Z.div_mul_cancel_r; [reflexivity| |]; pose proof (pow10_pos (9 - f)); pose proof (pow10_pos f); lia.
    + replace (10 ^ 9) with (10 ^ k * 10 ^ (9 - k)) by (rewrite <- Z.pow_add_r by lia; f_equal; lia).
      replace (x * 10 ^ (9 - k) * 10 ^ f) with (x * 10 ^ f * 10 ^ (9 - k)) by ring.
      rewrite Z.div_mul_cancel_r; [reflexivity| |]; pose proof (pow10_pos k); pose proof (pow10_pos (9 - k)); lia.
  - subst k9. replace (9 - 9) with 0 by lia. rewrite Z.pow_0_r, Z.mul_1_r.
    rewrite Z.div_div; [| pose proof (pow10_pos (k - 9)); lia | pose proof (pow10_pos (9 - f)); lia].
    rewrite <- Z.pow_add_r by lia. replace (k - 9 + (9 - f)) with (k - f) by lia.
    replace (10 ^ k) with (10 ^ (k - f) * 10 ^ f) by (rewrite <- Z.pow_add_r by lia; f_equal; lia).
    rewrite Z.div_mul_cancel_r; [reflexivity| |]; pose proof (pow10_pos (k - f)); pose proof (pow10_pos f); lia.
Qed.

(* ---------------- exactness of to_arrow_duration ---------------- *)
Definition span_wf (sp : Span) : Prop :=
  match sp_subsecond sp with Some ds => all_digits ds | None => True end.

Definition dv (o : option bytes) : Z := match o with Some ds => Z.of_N (parse_digits ds) | None => 0 end.

Lemma digit_value_ok o v : digit_value o = Ok v -> v = dv o /\ 0 <= v.
Proof.
  destruct o as [ds|]; cbn [digit_value dv].
  - destruct (u64_max <? _); [discriminate|]. intros H; inversion H; subst. lia.
  - intros H; inversion H; subst. lia.
Qed.

Definition unit_f (u : TimeUnit) : Z := Z.of_nat (unit_digits u).
Lemma per_second_pow u : per_second u = 10 ^ unit_f u.
Proof. destruct u; reflexivity. Qed.

Theorem to_arrow_duration_exact sp u v : span_wf sp ->
  to_arrow_duration sp u = Ok v ->
  dv (sp_year sp) = 0 /\ dv (sp_month sp) = 0 /\
  exists m, span_magnitude sp u = Some m /\ v = (if sp_neg sp then - m else m) /\ i64_min <= v <= i64_max.
Proof.
  intros Hwf H. unfold to_arrow_duration in H.
  apply bind_ok in H as (y & Hy & H). apply bind_ok in H as (mo & Hmo & H).
  apply digit_value_ok in Hy as [-> _]. apply digit_value_ok in Hmo as [-> _].
  destruct (negb _) eqn:Hz; [discriminate|]. apply negb_false_iff, andb_true_iff in Hz as [Hz1 Hz2].
  split; [lia|]. split; [lia|].
  apply bind_ok in H as (secs & Hs & H). apply bind_ok in H as (nanos & Hn & H).
  unfold second_value in Hs.
  apply bind_ok in Hs as (w & Hw & Hs). apply bind_ok in Hs as (d & Hd & Hs). apply bind_ok in Hs as (h & Hh & Hs).
  apply bind_ok in Hs as (mi & Hmi & Hs). apply bind_ok in Hs as (s & Hse & Hs). inversion Hs; subst secs; clear Hs.
  apply digit_value_ok in Hw as [-> Hw], Hd as [-> Hd], Hh as [-> Hh], Hmi as [-> Hmi], Hse as [-> Hse].
  unfold span_magnitude. eexists; split; [reflexivity|].
  set (secs := (((dv (sp_week sp) * 7 + dv (sp_day sp)) * 24 + dv (sp_hour sp)) * 60 + dv (sp_minute sp)) * 60 + dv (sp_second sp)).
  assert (Hsecs : dv (sp_week sp) * 7 * 24 * 60 * 60 + dv (sp_day sp) * 24 * 60 * 60 + dv (sp_hour sp) * 60 * 60
                  + dv (sp_minute sp) * 60 + dv (sp_second sp) = secs) by (subst secs; ring).
  rewrite Hsecs in H. clear Hsecs.
  set (sub := match sp_subsecond sp with Some ds => ds | None => [] end).
  set (k := Z.of_nat (length sub)). set (x := Z.of_N (parse_digits sub)).
  (* the nanosecond value in terms of x and k *)
  assert (Hnan : nanos / 10 ^ (9 - unit_f u) = (x * 10 ^ unit_f u) / 10 ^ k).
  { unfold nanosecond_value in Hn. unfold span_wf in Hwf. subst sub x k.
    destruct (sp_subsecond sp) as [ds|].
    - cbv zeta in Hn.
      assert (En : nanos = Z.of_N (parse_digits (firstn 9 ds)) * 10 ^ (9 - Z.of_nat (length (firstn 9 ds)))) by congruence.
      subst nanos. clear Hn.
      rewrite (parse_digits_firstn 9 ds Hwf).
      assert (Hl : length (firstn 9 ds) = Nat.min 9 (length ds)) by apply firstn_length.
      apply scale_identity; try lia; destruct u; cbn; lia.
    - assert (En : nanos = 0) by congruence. subst nanos.
      change (Z.of_N (parse_digits [])) with 0. rewrite Z.mul_0_l.
      rewrite (Z.div_0_l (10 ^ Z.of_nat (length (@nil N)))) by (cbn; lia).
      rewrite Z.div_0_l by (pose proof (pow10_pos (9 - unit_f u)); destruct u; cbn in *; lia). reflexivity. }
  (* the unit switch of build_duration *)
  unfold build_duration in H.
  assert (Hun : match u with Second => secs | Millisecond => secs * 1000 + nanos / 1000000
                        | Microsecond => secs * 1000000 + nanos / 1000 | Nanosecond => secs * 1000000000 + nanos end
                = (secs * 10 ^ k + x) * per_second u / 10 ^ k).
  { assert (Hk : 0 < 10 ^ k) by (apply pow10_pos; subst k; lia).
    replace ((secs * 10 ^ k + x) * per_second u) with (secs * per_second u * 10 ^ k + x * per_second u) by ring.
    rewrite Z.div_add_l by lia. rewrite per_second_pow, <- Hnan.
    destruct u.
    - change (unit_f Second) with 0. change (10 ^ 0) with 1. change (10 ^ (9 - 0)) with 1000000000.
      (* Second: nanos < 10^9 so the quotient is 0 *)
      assert (Hn9 : 0 <= nanos < 1000000000).
      { unfold nanosecond_value in Hn. unfold span_wf in Hwf. destruct (sp_subsecond sp) as [ds|]; cbv zeta in Hn;
          [assert (En : nanos = Z.of_N (parse_digits (firstn 9 ds)) * 10 ^ (9 - Z.of_nat (length (firstn 9 ds)))) by congruence
          |assert (En : nanos = 0) by congruence; lia].
        rewrite En. clear En Hn.
        assert (Hd9 : all_digits (firstn 9 ds)) by (apply all_digits_firstn, Hwf).
        pose proof (parse_digits_lt _ Hd9) as Hlt.
        assert (Hl : (length (firstn 9 ds) <= 9)%nat) by (rewrite firstn_length; lia).
        set (L := length (firstn 9 ds)) in *. set (p := parse_digits (firstn 9 ds)) in *.
        assert (Hpw : 10 ^ Z.of_nat L * 10 ^ (9 - Z.of_nat L) = 1000000000)
          by (rewrite <- Z.pow_add_r by lia; replace (Z.of_nat L + (9 - Z.of_nat L)) with 9 by lia; reflexivity).
        assert (Hp : Z.of_N p < 10 ^ Z.of_nat L).
        { rewrite <- nat_N_Z. change 10 with (Z.of_N 10). rewrite <- N2Z.inj_pow. lia. }
        pose proof (pow10_pos (9 - Z.of_nat L) ltac:(lia)). split; [nia|nia]. }
      rewrite (Z.div_small nanos) by exact Hn9. lia.
    - change (unit_f Millisecond) with 3. change (10 ^ (9 - 3)) with 1000000. change (10 ^ 3) with 1000. reflexivity.
    - change (unit_f Microsecond) with 6. change (10 ^ (9 - 6)) with 1000. change (10 ^ 6) with 1000000. reflexivity.
    - change (unit_f Nanosecond) with 9. change (10 ^ (9 - 9)) with 1. change (10 ^ 9) with 1000000000. rewrite Z.div_1_r. reflexivity. }
  rewrite Hun in H.
  destruct ((_ <? i64_min) || (i64_max <? _)) eqn:Hr; [discriminate|]. inversion H; subst v; clear H.
  apply orb_false_iff in Hr as [H1 H2]. split; [reflexivity|lia].
Qed.

(* parse_span only yields well-formed spans *)
Lemma span_digits_all s : all_digits (fst (span_digits s)).
Proof.
  unfold all_digits, all_digit. induction s as [|c r IH]; cbn [span_digits]; [reflexivity|].
  destruct (is_digit c) eqn:Hc; [|reflexivity].
  destruct (span_digits r) as [ds r']. cbn [fst forallb] in *. rewrite Hc, IH. reflexivity.
Qed.

Lemma opt_span_seconds_wf s r sec sub : opt_span_seconds s = Some (r, sec, sub) ->
  match sub with Some ds => all_digits ds | None => True end.
Proof.
  unfold opt_span_seconds. destruct (span_digits s) as [ds rest]. destruct ds as [|d ds']; [intros H; inversion H; exact I|].
  assert (Hfin : forall (r0 : bytes) (sub0 : option bytes),
            match sub0 with Some ds => all_digits ds | None => True end ->
            match r0 with
            | c :: r' => if upper_or_lower c 83 then Some (r', Some (d :: ds'), sub0) else Some (s, None, None)
            | [] => Some (s, None, None)
            end = Some (r, sec, sub) -> match sub with Some ds => all_digits ds | None => True end).
  { intros r0 sub0 Hs0. destruct r0 as [|c r']; [intros H; inversion H; exact I|].
    destruct (upper_or_lower c 83); intros H; inversion H; subst; [exact Hs0|exact I]. }
  destruct rest as [|c0 r1]; [exact (Hfin [] None I)|].
  destruct (N.eqb c0 46); [|exact (Hfin (c0 :: r1) None I)].
  pose proof (span_digits_all r1) as Hall. destruct (span_digits r1) as [fs r2]. cbn [fst] in Hall.
  destruct fs as [|f fs']; [discriminate|]. exact (Hfin r2 (Some (f :: fs')) Hall).
Qed.

Theorem parse_span_wf t sp : parse_span t = Some sp -> span_wf sp.
Proof.
  unfold parse_span.
  destruct (match t with c0 :: r => _ | [] => _ end) as [s neg].
  destruct s as [|c s]; [discriminate|]. destruct (upper_or_lower c 80); [|discriminate].
  destruct (opt_span_value s 89) as [s1 year]. destruct (opt_span_value s1 77) as [s2 month].
  destruct (opt_span_value s2 87) as [s3 week]. destruct (opt_span_value s3 68) as [s4 day].
  assert (Hfin : forall (s5 : bytes) hour minute second sub,
            match sub with Some ds => all_digits ds | None => True end ->
            match s5 with
            | [] => Some {| sp_neg := neg; sp_year := year; sp_month := month; sp_week := week; sp_day := day;
                            sp_hour := hour; sp_minute := minute; sp_second := second; sp_subsecond := sub |}
            | _ => None
            end = Some sp -> span_wf sp).
  { intros s5 hour minute second sub Hs. destruct s5; [|discriminate]. intros H; inversion H; subst. exact Hs. }
  destruct s4 as [|t0 s'] eqn:E4; [exact (Hfin [] None None None None I)|].
  destruct (upper_or_lower t0 84); [|exact (Hfin (t0 :: s') None None None None I)].
  destruct (opt_span_value s' 72) as [s5 hour]. destruct (opt_span_value s5 77) as [s6 minute].
  destruct (opt_span_seconds s6) as [[[s7 second] sub]|] eqn:Es; [|discriminate].
  apply (Hfin s7 hour minute second sub). eapply opt_span_seconds_wf. exact Es.
Qed.

(* DurationBuilder::serialize_str end to end *)
Theorem parse_duration_exact u t v : parse_duration u t = Ok v ->
  exists sp m, parse_span t = Some sp /\ dv (sp_year sp) = 0 /\ dv (sp_month sp) = 0 /\
    span_magnitude sp u = Some m /\ v = (if sp_neg sp then - m else m) /\ (i64_min <= v <= i64_max).
Proof.
  unfold parse_duration. destruct (parse_span t) as [sp|] eqn:E; [|discriminate]. intros H.
  pose proof (parse_span_wf t sp E) as Hwf.
  destruct (to_arrow_duration_exact sp u v Hwf H) as (Hy & Hm & m & Hmag & Hv & Hr).
  exists sp, m. repeat split; try assumption; lia.
Qed.
