(* C15_full: parsing a decimal numeral stores exactly trunc(value * 10^scale), or fails exactly when the
   numeral is malformed or the result needs more digits than the precision. *)
From Verif Require Import DecimalCodec DecimalCodec_proofs Decimal_proofs.
Require Import ZifyBool ZifyN ZifyNat.
Local Open Scope nat_scope.

(* ---------------- arithmetic of digit strings ---------------- *)
Lemma value_be_acc ds : forall acc, fold_left (fun a d => (a * 10 + d)%N) ds acc = (acc * 10 ^ N.of_nat (length ds) + value_be ds)%N.
Proof.
  unfold value_be. induction ds as [|d r IH]; intros acc; cbn [fold_left length].
  - cbn. lia.
  - rewrite IH, (IH (0 * 10 + d)%N). rewrite Nnat.Nat2N.inj_succ, N.pow_succ_r'. lia.
Qed.

Lemma pd_app a c : parse_digits (a ++ c) = (parse_digits a * 10 ^ N.of_nat (length c) + parse_digits c)%N.
Proof.
  unfold parse_digits. rewrite map_app. unfold value_be at 1. rewrite fold_left_app.
  change (fold_left (fun acc d => (acc * 10 + d)%N) (map digit_val a) 0%N) with (value_be (map digit_val a)).
  rewrite value_be_acc, map_length. reflexivity.
Qed.

Lemma pd_zeros s : all_zero s = true -> parse_digits s = 0%N.
Proof.
  unfold all_zero. induction s as [|c r IH]; intros H; [reflexivity|]. cbn [forallb] in H. apply andb_true_iff in H as [Hc Hr].
  apply N.eqb_eq in Hc. subst c. change (48%N :: r) with ([48%N] ++ r). rewrite pd_app, (IH Hr). reflexivity.
Qed.

Lemma all_zero_digit s : all_zero s = true -> all_digit s = true.
Proof.
  unfold all_zero, all_digit. rewrite !forallb_forall. intros H c Hc. specialize (H c Hc). apply N.eqb_eq in H. subst c. reflexivity.
Qed.

Lemma all_zero_repeat n : all_zero (repeat 48%N n) = true.
Proof. unfold all_zero. induction n; [reflexivity|]. cbn. exact IHn. Qed.

Lemma pd_pos s : all_digit s = true -> all_zero s = false -> (1 <= parse_digits s)%N.
Proof.
  unfold all_digit, all_zero. induction s as [|c r IH]; intros Hd Hz; [discriminate|]. cbn [forallb] in *.
  apply andb_true_iff in Hd as [Hc Hr]. change (c :: r) with ([c] ++ r). rewrite pd_app.
  destruct (N.eqb_spec 48 c) as [<-|Hne]; cbn [andb] in Hz.
  - specialize (IH Hr Hz). lia.
  - assert (1 <= parse_digits [c])%N. { unfold parse_digits, value_be. cbn. unfold digit_val, is_digit in *. lia. }
    assert (1 <= 10 ^ N.of_nat (length r))%N by (apply N.lt_pred_le; cbn; apply N.neq_0_lt_0, N.pow_nonzero; lia). nia.
Qed.

(* dropping the last k digits is division by 10^k *)
Lemma pd_drop_last s k : all_digit s = true -> parse_digits (firstn (length s - k) s) = (parse_digits s / 10 ^ N.of_nat k)%N.
Proof.
  intros Hd. destruct (Nat.le_gt_cases k (length s)) as [Hk|Hk].
  - rewrite <- (firstn_skipn (length s - k) s) at 3. rewrite pd_app.
    assert (Hl : length (skipn (length s - k) s) = k) by (rewrite skipn_length; lia). rewrite Hl.
    pose proof (parse_digits_bound (skipn (length s - k) s) (forallb_skipn _ _ _ Hd)) as Hb. rewrite Hl in Hb.
    apply N.div_unique with (r := parse_digits (skipn (length s - k) s)); [exact Hb|lia].
  - replace (length s - k) with 0 by lia. cbn [firstn]. symmetry. apply N.div_small.
    pose proof (parse_digits_bound s Hd) as Hb. eapply N.lt_le_trans; [exact Hb|]. apply pow10_mono. lia.
Qed.

Lemma pow10_pos n : (1 <= 10 ^ N.of_nat n)%N.
Proof. apply N.lt_pred_le. cbn. apply N.neq_0_lt_0, N.pow_nonzero. lia. Qed.

(* ---------------- the shape of a numeral: digits [ '.' digits ] ---------------- *)
Lemma digit_not_dot c : is_digit c = true -> N.eqb c 46 = false.
Proof. unfold is_digit. intros H. apply N.eqb_neq. lia. Qed.

Lemma position_dot_digits ip : all_digit ip = true -> forall r, position_dot (ip ++ 46%N :: r) = Some (length ip).
Proof.
  unfold all_digit. induction ip as [|c ip IH]; intros H r; [reflexivity|]. cbn [forallb] in H. apply andb_true_iff in H as [Hc Hr].
  cbn [app position_dot length]. rewrite (digit_not_dot c Hc), (IH Hr r). reflexivity.
Qed.

Lemma position_dot_none s : all_digit s = true -> position_dot s = None.
Proof.
  unfold all_digit. induction s as [|c s IH]; intros H; [reflexivity|]. cbn [forallb] in H. apply andb_true_iff in H as [Hc Hr].
  cbn [position_dot]. rewrite (digit_not_dot c Hc), (IH Hr). reflexivity.
Qed.

Lemma position_dot_split s pos : position_dot s = Some pos -> s = firstn pos s ++ 46%N :: skipn (S pos) s.
Proof.
  revert pos. induction s as [|c s IH]; intros pos H; [discriminate|]. cbn [position_dot] in H.
  destruct (N.eqb_spec c 46) as [->|Hne]; [injection H as <-; reflexivity|].
  destruct (position_dot s) as [q|] eqn:Eq; [|discriminate]. injection H as <-. cbn [firstn skipn app]. f_equal. apply (IH q eq_refl).
Qed.

(* t = ip ++ mid ++ fp with mid the optional period *)
Definition Form (t ip mid fp : bytes) : Prop :=
  t = ip ++ mid ++ fp /\ all_digit ip = true /\ all_digit fp = true /\ (mid = [46%N] \/ (mid = [] /\ fp = [])).

Lemma form_find_period t ip mid fp : Form t ip mid fp -> find_period t = (length ip, length ip + length mid).
Proof.
  intros (-> & Hi & Hf & [-> | [-> ->]]); unfold find_period.
  - cbn [app]. rewrite (position_dot_digits ip Hi fp). cbn [length]. f_equal. lia.
  - cbn [app]. rewrite ?app_nil_r, (position_dot_none ip Hi). cbn [length]. f_equal. lia.
Qed.

Lemma form_split_dot t ip mid fp : Form t ip mid fp -> split_dot t = (ip, fp).
Proof.
  intros (-> & Hi & Hf & [-> | [-> ->]]); unfold split_dot.
  - cbn [app]. rewrite (position_dot_digits ip Hi fp). rewrite firstn_app, Nat.sub_diag, firstn_all, firstn_O, app_nil_r.
    f_equal. change (S (length ip)) with (1 + length ip). rewrite Nat.add_comm. rewrite <- skipn_skipn'. rewrite skipn_app, skipn_all, Nat.sub_diag. reflexivity.
  - cbn [app]. rewrite ?app_nil_r, (position_dot_none ip Hi). reflexivity.
Qed.

Lemma denote_form text n : denote text = Some n ->
  exists mid, Form (fst (parse_sign text)) (nm_int n) mid (nm_frac n) /\ nm_neg n = snd (parse_sign text) /\ length (nm_int n) + length (nm_frac n) <> 0.
Proof.
  unfold denote. destruct (parse_sign text) as [t neg]. cbn [fst snd]. destruct (split_dot t) as [ip fp] eqn:Es.
  destruct (all_digit ip && all_digit fp && negb (length ip + length fp =? 0)) eqn:Ec; [|discriminate]. intros H. injection H as <-. cbn [nm_int nm_frac nm_neg].
  apply andb_true_iff in Ec as [Ec Hne]. apply andb_true_iff in Ec as [Hi Hf].
  unfold split_dot in Es. destruct (position_dot t) as [pos|] eqn:Ep.
  - injection Es as <- <-. exists [46%N]. split; [|split; [reflexivity|]].
    + split; [cbn [app]; apply position_dot_split; exact Ep|]. split; [exact Hi|]. split; [exact Hf|left; reflexivity].
    + apply negb_true_iff in Hne. apply Nat.eqb_neq in Hne. exact Hne.
  - injection Es as <- <-. exists []. split; [|split; [reflexivity|]].
    + split; [cbn [app]; rewrite app_nil_r; reflexivity|]. split; [exact Hi|]. split; [reflexivity|right; split; reflexivity].
    + apply negb_true_iff in Hne. apply Nat.eqb_neq in Hne. exact Hne.
Qed.

(* slices of ip ++ mid ++ fp *)
Lemma firstn_skipn_app1 {A} (x y : list A) a n : a + n <= length x -> firstn n (skipn a (x ++ y)) = firstn n (skipn a x).
Proof. intros H. rewrite skipn_app, firstn_app. rewrite skipn_length. replace (n - (length x - a)) with 0 by lia. rewrite firstn_O, app_nil_r. reflexivity. Qed.

Lemma skipn_app2 {A} (x y : list A) a : length x <= a -> skipn a (x ++ y) = skipn (a - length x) y.
Proof. intros H. rewrite skipn_app, skipn_all2 by exact H. reflexivity. Qed.

Lemma slice_int ip rest a e : a <= e -> e <= length ip -> slice (ip ++ rest) a e = Ok (firstn (e - a) (skipn a ip)).
Proof.
  intros H1 H2. unfold slice. rewrite app_length. destruct (Nat.leb_spec a e); [|lia]. destruct (Nat.leb_spec e (length ip + length rest)); [|lia]. cbn [andb].
  rewrite firstn_skipn_app1 by lia. reflexivity.
Qed.

Lemma slice_frac ip mid fp a e : length ip + length mid <= a -> a <= e -> e <= length ip + length mid + length fp ->
  slice (ip ++ mid ++ fp) a e = Ok (firstn (e - a) (skipn (a - (length ip + length mid)) fp)).
Proof.
  intros H1 H2 H3. unfold slice. rewrite !app_length. destruct (Nat.leb_spec a e); [|lia]. destruct (Nat.leb_spec e (length ip + (length mid + length fp))); [|lia]. cbn [andb].
  rewrite app_assoc, skipn_app2 by (rewrite app_length; lia). rewrite app_length. reflexivity.
Qed.

Lemma firstn_split {A} (l : list A) a c : firstn (a + c) l = firstn a l ++ firstn c (skipn a l).
Proof. revert l; induction a as [|a IH]; intros l; [reflexivity|]. destruct l as [|x l]; [rewrite !firstn_nil; reflexivity|]. cbn [plus firstn skipn app]. f_equal. apply IH. Qed.

(* ---------------- integer-only parser (negative scale) ---------------- *)
Lemma copy_int_form p n t ip mid fp : p <= 38 -> Form t ip mid fp ->
  let e := length ip - n in let s := e - p in
  copy_int p n t = if all_zero (firstn s ip) then Ok (firstn (e - s) (skipn s ip)) else Err.
Proof.
  intros Hp HF e s. unfold copy_int. rewrite (form_find_period t ip mid fp HF). destruct HF as (-> & Hi & Hf & Hm). fold e. fold s.
  rewrite (slice_int ip (mid ++ fp) 0 s) by lia. cbn [bind]. rewrite Nat.sub_0_r. cbn [skipn].
  destruct (all_zero (firstn s ip)); cbn [guard bind]; [|reflexivity].
  rewrite (slice_int ip (mid ++ fp) s (length ip)) by lia. cbn [bind].
  assert (Hd1 : all_digit (firstn (length ip - s) (skipn s ip)) = true) by (apply forallb_firstn, forallb_skipn, Hi). rewrite Hd1. cbn [guard bind].
  rewrite (slice_frac ip mid fp (length ip + length mid) (length (ip ++ mid ++ fp))) by (rewrite ?app_length; lia). cbn [bind].
  rewrite Nat.sub_diag. cbn [skipn].
  assert (Hd2 : all_digit (firstn (length (ip ++ mid ++ fp) - (length ip + length mid)) fp) = true) by (apply forallb_firstn, Hf). rewrite Hd2. cbn [guard bind].
  rewrite (slice_int ip (mid ++ fp) s e) by lia. cbn [bind]. unfold buf_ok, BUF. destruct (Nat.leb_spec (e - s) 256); [reflexivity|lia].
Qed.

Lemma slice_tail ip mid fp : slice (ip ++ mid ++ fp) (length ip + length mid) (length (ip ++ mid ++ fp)) = Ok fp.
Proof.
  rewrite (slice_frac ip mid fp) by (rewrite ?app_length; lia). rewrite Nat.sub_diag. cbn [skipn]. rewrite !app_length.
  replace (length ip + (length mid + length fp) - (length ip + length mid)) with (length fp) by lia. rewrite firstn_all. reflexivity.
Qed.

(* ---------------- mixed parser (0 <= scale < precision) ---------------- *)
Lemma copy_mixed_form p sc t ip mid fp : p <= 38 -> sc < p -> Form t ip mid fp ->
  let s := length ip - (p - sc) in let n2 := Nat.min sc (length fp) in
  copy_mixed p sc t = if all_zero (firstn s ip) then Ok (skipn s ip ++ firstn n2 fp ++ repeat 48%N (sc - n2)) else Err.
Proof.
  intros Hp Hsc HF s n2. unfold copy_mixed. rewrite (form_find_period t ip mid fp HF). destruct HF as (-> & Hi & Hf & Hm).
  unfold usub. destruct (Nat.leb_spec sc p); [|lia]. cbn [bind]. fold s.
  set (after := length ip + length mid). set (tlen := length (ip ++ mid ++ fp)).
  assert (Htl : tlen = after + length fp) by (unfold tlen, after; rewrite !app_length; lia).
  assert (Hend : Nat.min tlen (after + sc) - after = n2) by (unfold n2; lia).
  destruct (Nat.leb_spec after (Nat.min tlen (after + sc))); [|lia]. cbn [bind]. rewrite Hend.
  destruct (Nat.leb_spec n2 sc); [|unfold n2 in *; lia]. cbn [bind].
  rewrite (slice_int ip (mid ++ fp) 0 s) by lia. cbn [bind]. rewrite Nat.sub_0_r. cbn [skipn].
  destruct (all_zero (firstn s ip)); cbn [guard bind]; [|reflexivity].
  rewrite (slice_int ip (mid ++ fp) s (length ip)) by lia. cbn [bind].
  assert (E1 : firstn (length ip - s) (skipn s ip) = skipn s ip) by (apply firstn_all2; rewrite skipn_length; lia). rewrite E1.
  assert (Hd1 : all_digit (skipn s ip) = true) by (apply forallb_skipn, Hi). rewrite Hd1. cbn [guard bind].
  unfold after, tlen. rewrite slice_tail. cbn [bind]. rewrite Hf. cbn [guard bind].
  fold after. fold tlen. rewrite (slice_frac ip mid fp after (Nat.min tlen (after + sc))) by (unfold after in *; lia). cbn [bind].
  unfold after at 2. rewrite Nat.sub_diag. cbn [skipn]. rewrite Hend.
  assert (Hl1 : length (skipn s ip) <= p - sc) by (rewrite skipn_length; lia).
  assert (Hl2 : length (firstn n2 fp) = n2) by (rewrite firstn_length; unfold n2; lia).
  change (length ip + length mid) with after. rewrite ?Hend, ?Hl2.
  unfold buf_ok, BUF.
  destruct (Nat.leb_spec (length (skipn s ip)) 256); [|lia]. cbn [bind].
  destruct (Nat.leb_spec (length (skipn s ip) + n2) 256); [|unfold n2 in *; lia]. cbn [bind].
  destruct (Nat.leb_spec (length (skipn s ip) + n2 + (sc - n2)) 256); [|unfold n2 in *; lia]. reflexivity.
Qed.

(* ---------------- fraction-only parser (precision <= scale) ---------------- *)
Lemma copy_frac_form p sc t ip mid fp : p <= 38 -> p <= sc -> Form t ip mid fp ->
  let k := Nat.min (length fp) (sc - p) in let n := Nat.min (length fp) sc - k in
  copy_frac p sc t = if all_zero ip && all_zero (firstn k fp) then Ok (firstn n (skipn k fp) ++ repeat 48%N (p - n)) else Err.
Proof.
  intros Hp Hsc HF k n. unfold copy_frac. rewrite (form_find_period t ip mid fp HF). destruct HF as (-> & Hi & Hf & Hm).
  set (after := length ip + length mid). set (tlen := length (ip ++ mid ++ fp)).
  assert (Htl : tlen = after + length fp) by (unfold tlen, after; rewrite !app_length; lia).
  unfold usub. destruct (Nat.leb_spec p (after + sc)); [|lia]. cbn [bind].
  set (start := Nat.min tlen (after + sc - p)). set (end_ := Nat.min tlen (after + sc)).
  assert (Hs : start = after + k) by (unfold start, k; lia).
  assert (He : end_ - start = n) by (unfold end_, n; lia).
  destruct (Nat.leb_spec start end_); [|unfold start, end_ in *; lia]. cbn [bind]. rewrite He.
  destruct (Nat.leb_spec n p); [|unfold n, k in *; lia]. cbn [bind].
  rewrite (slice_int ip (mid ++ fp) 0 (length ip)) by lia. cbn [bind]. rewrite Nat.sub_0_r. cbn [skipn]. rewrite firstn_all.
  destruct (all_zero ip); cbn [guard bind andb]; [|reflexivity].
  fold after. rewrite (slice_frac ip mid fp after start) by (unfold after in *; lia). cbn [bind].
  unfold after at 2. rewrite Nat.sub_diag. cbn [skipn]. replace (start - after) with k by lia.
  destruct (all_zero (firstn k fp)); cbn [guard bind]; [|reflexivity].
  rewrite (slice_frac ip mid fp start tlen) by (unfold after in *; lia). cbn [bind].
  fold after. replace (start - after) with k by lia.
  assert (Hd : all_digit (firstn (tlen - start) (skipn k fp)) = true) by (apply forallb_firstn, forallb_skipn, Hf). rewrite Hd. cbn [guard bind].
  rewrite (slice_frac ip mid fp start end_) by (unfold after, end_ in *; lia). cbn [bind]. fold after. replace (start - after) with k by lia. rewrite He.
  unfold buf_ok, BUF. destruct (Nat.leb_spec n 256); [|lia]. cbn [bind]. destruct (Nat.leb_spec (n + (p - n)) 256); [|lia]. reflexivity.
Qed.

(* ---------------- the value of the copied digits ---------------- *)
Lemma pd_lead_zero lead rest : all_zero lead = true -> parse_digits (lead ++ rest) = parse_digits rest.
Proof. intros H. rewrite pd_app, (pd_zeros lead H). lia. Qed.

Lemma pd_lead_nonzero lead rest : all_digit lead = true -> all_zero lead = false -> (10 ^ N.of_nat (length rest) <= parse_digits (lead ++ rest))%N.
Proof. intros Hd Hz. rewrite pd_app. pose proof (pd_pos lead Hd Hz). nia. Qed.

Lemma all_zero_nil_false s : all_zero s = false -> s <> [].
Proof. intros H E. subst. discriminate. Qed.

Lemma int_mode ip k p : all_digit ip = true -> p <= 38 ->
  let e := length ip - k in let st := e - p in
  (all_zero (firstn st ip) = true ->
     parse_digits (firstn (e - st) (skipn st ip)) = (parse_digits ip / 10 ^ N.of_nat k)%N /\
     (parse_digits ip / 10 ^ N.of_nat k < 10 ^ N.of_nat p)%N) /\
  (all_zero (firstn st ip) = false -> (10 ^ N.of_nat p <= parse_digits ip / 10 ^ N.of_nat k)%N).
Proof.
  intros Hd Hp e st. rewrite <- (pd_drop_last ip k Hd). fold e.
  assert (Hsplit : firstn e ip = firstn st ip ++ firstn (e - st) (skipn st ip)).
  { replace e with (st + (e - st)) at 1 by (unfold st; lia). apply firstn_split. }
  rewrite Hsplit. split.
  - intros Hz. rewrite (pd_lead_zero _ _ Hz). split; [reflexivity|].
    eapply N.lt_le_trans; [apply parse_digits_bound, forallb_firstn, forallb_skipn, Hd|]. apply pow10_mono. rewrite firstn_length. unfold st. lia.
  - intros Hz. pose proof (all_zero_nil_false _ Hz) as Hne.
    assert (Hst : 0 < st) by (destruct st; [cbn in Hne; congruence|lia]).
    assert (Hlen : length (firstn (e - st) (skipn st ip)) = p) by (rewrite firstn_length, skipn_length; unfold st, e in *; lia).
    rewrite <- Hlen at 1. apply pd_lead_nonzero; [apply forallb_firstn, Hd|exact Hz].
Qed.

Lemma firstn_repeat {A} (x : A) m n : firstn m (repeat x n) = repeat x (Nat.min m n).
Proof. revert m; induction n as [|n IH]; intros [|m]; cbn; try reflexivity. f_equal. apply IH. Qed.

Lemma frac_pad fp sc : firstn sc (fp ++ repeat 48%N sc) = firstn (Nat.min sc (length fp)) fp ++ repeat 48%N (sc - Nat.min sc (length fp)).
Proof.
  rewrite firstn_app, firstn_repeat. f_equal.
  - destruct (Nat.le_gt_cases sc (length fp)); [replace (Nat.min sc (length fp)) with sc by lia; reflexivity|].
    replace (Nat.min sc (length fp)) with (length fp) by lia. rewrite firstn_all. apply firstn_all2. lia.
  - f_equal. lia.
Qed.

Lemma frac_pad_length fp sc : length (firstn sc (fp ++ repeat 48%N sc)) = sc.
Proof. rewrite firstn_length, app_length, repeat_length. lia. Qed.

Lemma frac_pad_digit fp sc : all_digit fp = true -> all_digit (firstn sc (fp ++ repeat 48%N sc)) = true.
Proof. intros H. apply forallb_firstn. rewrite all_digit_app, H, all_digit_repeat. reflexivity. Qed.

Lemma mixed_mode ip fp sc p : all_digit ip = true -> all_digit fp = true -> sc < p ->
  let st := length ip - (p - sc) in
  let F := firstn sc (fp ++ repeat 48%N sc) in
  let mag := (parse_digits ip * 10 ^ N.of_nat sc + parse_digits F)%N in
  (all_zero (firstn st ip) = true -> parse_digits (skipn st ip ++ F) = mag /\ (mag < 10 ^ N.of_nat p)%N) /\
  (all_zero (firstn st ip) = false -> (10 ^ N.of_nat p <= mag)%N).
Proof.
  intros Hi Hf Hsc st F mag. unfold mag.
  assert (Hip : parse_digits ip = parse_digits (firstn st ip ++ skipn st ip)) by (rewrite firstn_skipn; reflexivity). rewrite Hip. split.
  - intros Hz. rewrite (pd_lead_zero _ _ Hz). rewrite pd_app. unfold F at 1. rewrite frac_pad_length. split; [reflexivity|].
    rewrite <- (frac_pad_length fp sc) at 1. fold F. rewrite <- pd_app.
    eapply N.lt_le_trans; [apply parse_digits_bound; rewrite all_digit_app; unfold F; rewrite (frac_pad_digit fp sc Hf), Bool.andb_true_r; apply forallb_skipn, Hi|].
    apply pow10_mono. rewrite app_length, skipn_length. unfold F. rewrite frac_pad_length. unfold st. lia.
  - intros Hz. pose proof (all_zero_nil_false _ Hz) as Hne.
    assert (Hst : 0 < st) by (destruct st; [cbn in Hne; congruence|lia]).
    assert (Hlen : length (skipn st ip) = p - sc) by (rewrite skipn_length; unfold st in *; lia).
    pose proof (pd_lead_nonzero (firstn st ip) (skipn st ip) (forallb_firstn _ _ _ Hi) Hz) as Hge. rewrite Hlen in Hge.
    replace (N.of_nat p) with (N.of_nat (p - sc) + N.of_nat sc)%N by lia. rewrite N.pow_add_r. nia.
Qed.

Lemma frac_split fp sc p : p <= sc ->
  let k := Nat.min (length fp) (sc - p) in let n := Nat.min (length fp) sc - k in
  firstn sc (fp ++ repeat 48%N sc) = (firstn k fp ++ repeat 48%N (sc - p - k)) ++ (firstn n (skipn k fp) ++ repeat 48%N (p - n)).
Proof.
  intros Hp k n. rewrite frac_pad. destruct (Nat.le_gt_cases (sc - p) (length fp)) as [Hc|Hc].
  - assert (Ek : k = sc - p) by (unfold k; lia). assert (En : Nat.min sc (length fp) = k + n) by (unfold n, k; lia).
    rewrite En, firstn_split. replace (sc - p - k) with 0 by lia. cbn [repeat]. rewrite app_nil_r, <- app_assoc. f_equal. f_equal. f_equal. lia.
  - assert (Ek : k = length fp) by (unfold k; lia). assert (En : n = 0) by (unfold n, k; lia).
    replace (Nat.min sc (length fp)) with (length fp) by lia. rewrite Ek, En, firstn_all. cbn [firstn app]. rewrite <- app_assoc. f_equal.
    rewrite <- repeat_app. f_equal. lia.
Qed.

Lemma frac_mode ip fp sc p : all_digit ip = true -> all_digit fp = true -> p <= sc ->
  let k := Nat.min (length fp) (sc - p) in let n := Nat.min (length fp) sc - k in
  let D := firstn n (skipn k fp) ++ repeat 48%N (p - n) in
  let mag := (parse_digits ip * 10 ^ N.of_nat sc + parse_digits (firstn sc (fp ++ repeat 48%N sc)))%N in
  (all_zero ip && all_zero (firstn k fp) = true -> parse_digits D = mag /\ (mag < 10 ^ N.of_nat p)%N) /\
  (all_zero ip && all_zero (firstn k fp) = false -> (10 ^ N.of_nat p <= mag)%N).
Proof.
  intros Hi Hf Hp k n D mag. unfold mag. rewrite (frac_split fp sc p Hp). fold k. fold n. fold D.
  assert (HlenD : length D = p) by (unfold D; rewrite app_length, firstn_length, skipn_length, repeat_length; unfold n, k; lia).
  assert (HdD : all_digit D = true) by (unfold D; rewrite all_digit_app, all_digit_repeat, Bool.andb_true_r; apply forallb_firstn, forallb_skipn, Hf).
  set (Hd := firstn k fp ++ repeat 48%N (sc - p - k)).
  assert (HdH : all_digit Hd = true) by (unfold Hd; rewrite all_digit_app, all_digit_repeat, Bool.andb_true_r; apply forallb_firstn, Hf).
  split.
  - intros Hz. apply andb_true_iff in Hz as [Hzi Hzf]. rewrite (pd_zeros ip Hzi).
    assert (HzH : all_zero Hd = true) by (unfold Hd, all_zero in *; rewrite forallb_app, Hzf; apply all_zero_repeat).
    rewrite (pd_lead_zero _ _ HzH). split; [lia|]. rewrite N.mul_0_l, N.add_0_l. rewrite <- HlenD. apply parse_digits_bound, HdD.
  - intros Hz. apply andb_false_iff in Hz as [Hzi|Hzf].
    + pose proof (pd_pos ip Hi Hzi). pose proof (pow10_mono p sc Hp). nia.
    + assert (HzH : all_zero Hd = false).
      { unfold Hd, all_zero in *. rewrite forallb_app, Hzf. reflexivity. }
      pose proof (pd_lead_nonzero Hd D HdH HzH) as Hge. rewrite HlenD in Hge. lia.
Qed.

(* ---------------- assembling the parser ---------------- *)
Lemma i128_holds_38_digits : (10 ^ 38 <= Z.to_N i128_max)%N.
Proof. vm_compute. discriminate. Qed.

Lemma parse_copied ds : all_digit ds = true -> length ds <= 38 ->
  match ds with [] => Ok 0%Z | _ => parse_i128 ds end = Ok (Z.of_N (parse_digits ds)).
Proof.
  intros Hd Hl. destruct ds as [|c r] eqn:E; [reflexivity|]. rewrite <- E in *. unfold parse_i128.
  pose proof (parse_digits_bound ds Hd) as Hb. pose proof (pow10_mono (length ds) 38 Hl) as Hm. pose proof i128_holds_38_digits as Hi.
  change (N.of_nat 38) with 38%N in Hm.
  destruct (Z.ltb_spec i128_max (Z.of_N (parse_digits ds))) as [Hlt|]; [|reflexivity]. exfalso.
  assert (Z.to_N i128_max < parse_digits ds)%N by (unfold i128_max in *; lia). lia.
Qed.

Lemma form_has_digit t ip mid fp : Form t ip mid fp -> length ip + length fp <> 0 -> existsb is_digit t = true.
Proof.
  intros (-> & Hi & Hf & _) Hne. rewrite !existsb_app. unfold all_digit in *. destruct ip as [|c r].
  - destruct fp as [|c r]; [cbn in Hne; lia|]. cbn [forallb] in Hf. apply andb_true_iff in Hf as [Hc _]. cbn [existsb]. rewrite Hc. rewrite !Bool.orb_true_r. reflexivity.
  - cbn [forallb] in Hi. apply andb_true_iff in Hi as [Hc _]. cbn [existsb]. rewrite Hc. reflexivity.
Qed.

Lemma pow_N_Z p : Z.of_N (10 ^ N.of_nat p) = (10 ^ Z.of_nat p)%Z.
Proof. rewrite N2Z.inj_pow. rewrite nat_N_Z. reflexivity. Qed.

(* the copied digits: value and success, for the parser chosen by (precision, scale) *)
Lemma copy_digits_exact p s t ip mid fp : p <= 38 -> Form t ip mid fp ->
  let mag := magnitude_scaled s {| nm_neg := false; nm_int := ip; nm_frac := fp |} in
  if (mag <? 10 ^ N.of_nat p)%N
  then exists ds, copy_digits (parser_new p s) t = Ok ds /\ all_digit ds = true /\ length ds <= 38 /\ parse_digits ds = mag
  else copy_digits (parser_new p s) t = Err.
Proof.
  intros Hp HF mag. pose proof HF as (_ & Hi & Hf & _). unfold mag, magnitude_scaled, parser_new. cbn [nm_int nm_frac].
  destruct (Z.ltb_spec s 0) as [Hs|Hs].
  - (* integer only *)
    cbn [copy_digits]. rewrite (copy_int_form p (Z.to_nat (- s)) t ip mid fp Hp HF).
    replace (Z.to_N (- s)) with (N.of_nat (Z.to_nat (- s))) by lia.
    destruct (int_mode ip (Z.to_nat (- s)) p Hi Hp) as [Hz Hnz].
    destruct (all_zero (firstn (length ip - Z.to_nat (- s) - p) ip)) eqn:Ez.
    + destruct (Hz eq_refl) as [Hv Hb]. destruct (N.ltb_spec (parse_digits ip / 10 ^ N.of_nat (Z.to_nat (- s))) (10 ^ N.of_nat p)); [|lia].
      eexists. split; [reflexivity|]. split; [apply forallb_firstn, forallb_skipn, Hi|]. split; [rewrite firstn_length; lia|exact Hv].
    + specialize (Hnz eq_refl). destruct (N.ltb_spec (parse_digits ip / 10 ^ N.of_nat (Z.to_nat (- s))) (10 ^ N.of_nat p)); [lia|reflexivity].
  - destruct (Nat.ltb_spec (Z.to_nat s) p) as [Hsc|Hsc]; cbn [copy_digits].
    + (* mixed *)
      rewrite (copy_mixed_form p (Z.to_nat s) t ip mid fp Hp Hsc HF).
      destruct (mixed_mode ip fp (Z.to_nat s) p Hi Hf Hsc) as [Hz Hnz]. cbv zeta in Hz, Hnz.
      rewrite <- frac_pad.
      destruct (all_zero (firstn (length ip - (p - Z.to_nat s)) ip)) eqn:Ez.
      * destruct (Hz eq_refl) as [Hv Hb].
        destruct (N.ltb_spec (parse_digits ip * 10 ^ N.of_nat (Z.to_nat s) + parse_digits (firstn (Z.to_nat s) (fp ++ repeat 48%N (Z.to_nat s)))) (10 ^ N.of_nat p)); [|lia].
        eexists. split; [reflexivity|]. split; [rewrite all_digit_app, (frac_pad_digit fp _ Hf), Bool.andb_true_r; apply forallb_skipn, Hi|].
        split; [rewrite app_length, skipn_length, frac_pad_length; lia|exact Hv].
      * specialize (Hnz eq_refl).
        destruct (N.ltb_spec (parse_digits ip * 10 ^ N.of_nat (Z.to_nat s) + parse_digits (firstn (Z.to_nat s) (fp ++ repeat 48%N (Z.to_nat s)))) (10 ^ N.of_nat p)); [lia|reflexivity].
    + (* fraction only *)
      rewrite (copy_frac_form p (Z.to_nat s) t ip mid fp Hp Hsc HF).
      destruct (frac_mode ip fp (Z.to_nat s) p Hi Hf Hsc) as [Hz Hnz]. cbv zeta in Hz, Hnz.
      destruct (all_zero ip && all_zero (firstn (Nat.min (length fp) (Z.to_nat s - p)) fp)) eqn:Ez.
      * destruct (Hz eq_refl) as [Hv Hb].
        destruct (N.ltb_spec (parse_digits ip * 10 ^ N.of_nat (Z.to_nat s) + parse_digits (firstn (Z.to_nat s) (fp ++ repeat 48%N (Z.to_nat s)))) (10 ^ N.of_nat p)); [|lia].
        eexists. split; [reflexivity|]. split; [rewrite all_digit_app, all_digit_repeat, Bool.andb_true_r; apply forallb_firstn, forallb_skipn, Hf|].
        split; [rewrite app_length, firstn_length, skipn_length, repeat_length; lia|exact Hv].
      * specialize (Hnz eq_refl).
        destruct (N.ltb_spec (parse_digits ip * 10 ^ N.of_nat (Z.to_nat s) + parse_digits (firstn (Z.to_nat s) (fp ++ repeat 48%N (Z.to_nat s)))) (10 ^ N.of_nat p)); [lia|reflexivity].
Qed.

(* a well-formed numeral: the exact value, or an error exactly when it needs more than `precision` digits *)
Theorem parse_exact_some p s text n : p <= 38 -> denote text = Some n ->
  if (Z.abs (value_scaled s n) <? 10 ^ Z.of_nat p)%Z
  then parse_decimal128 p s text = Ok (value_scaled s n)
  else parse_decimal128 p s text = Err.
Proof.
  intros Hp Hd. destruct (denote_form text n Hd) as (mid & HF & Hneg & Hne).
  unfold parse_decimal128. destruct (parse_sign text) as [t neg] eqn:Eps. cbn [fst snd] in *.
  rewrite (form_has_digit t _ mid _ HF Hne). cbn [negb].
  pose proof (copy_digits_exact p s t (nm_int n) mid (nm_frac n) Hp HF) as Hcopy. cbv zeta in Hcopy.
  assert (Emag : magnitude_scaled s {| nm_neg := false; nm_int := nm_int n; nm_frac := nm_frac n |} = magnitude_scaled s n) by (destruct n; reflexivity).
  rewrite Emag in Hcopy. unfold value_scaled. rewrite Hneg.
  assert (Eabs : Z.abs (if neg then (- Z.of_N (magnitude_scaled s n))%Z else Z.of_N (magnitude_scaled s n)) = Z.of_N (magnitude_scaled s n)) by (destruct neg; lia).
  rewrite Eabs, <- pow_N_Z.
  destruct (N.ltb_spec (magnitude_scaled s n) (10 ^ N.of_nat p)) as [Hlt|Hge].
  - destruct Hcopy as (ds & Hc & Hdd & Hl & Hv). destruct (Z.ltb_spec (Z.of_N (magnitude_scaled s n)) (Z.of_N (10 ^ N.of_nat p))); [|lia].
    rewrite Hc. cbn [bind]. rewrite (parse_copied ds Hdd Hl), Hv. cbn [bind]. reflexivity.
  - destruct (Z.ltb_spec (Z.of_N (magnitude_scaled s n)) (Z.of_N (10 ^ N.of_nat p))); [lia|]. rewrite Hcopy. reflexivity.
Qed.

(* ---------------- malformed text is refused ---------------- *)
Lemma slice_val s a e r : slice s a e = Ok r -> r = firstn (e - a) (skipn a s) /\ a <= e /\ e <= length s.
Proof.
  unfold slice. destruct (Nat.leb_spec a e); [|discriminate]. destruct (Nat.leb_spec e (length s)); [|discriminate]. cbn [andb]. intros Hq. injection Hq as <-. auto.
Qed.

(* whichever parser runs, success means digits before and after the period *)
Lemma copy_digits_guards ps t ds : copy_digits ps t = Ok ds ->
  all_digit (firstn (fst (find_period t)) t) = true /\ all_digit (skipn (snd (find_period t)) t) = true.
Proof.
  destruct (find_period t) as [bf af] eqn:E. pose proof (find_period_bounds t bf af E) as [Hb1 Hb2]. cbn [fst snd].
  assert (Htail : forall r, slice t af (length t) = Ok r -> all_digit r = true -> all_digit (skipn af t) = true).
  { intros r Hr Hd. apply slice_val in Hr as (-> & _ & _). rewrite firstn_all2 in Hd by (rewrite skipn_length; lia). exact Hd. }
  destruct ps as [p n|p sc|p sc]; cbn [copy_digits]; intros H.
  - unfold copy_int in H. rewrite E in H.
    apply bind_ok in H as (lead & Hl & H). apply bind_ok in H as ([] & Hg1 & H). apply guard_ok in Hg1.
    apply bind_ok in H as (md & Hm & H). apply bind_ok in H as ([] & Hg2 & H). apply guard_ok in Hg2.
    apply bind_ok in H as (tl & Ht & H). apply bind_ok in H as ([] & Hg3 & H). apply guard_ok in Hg3.
    split; [|apply (Htail tl Ht Hg3)].
    apply slice_val in Hl as (-> & _ & _). apply slice_val in Hm as (-> & Hs1 & _). rewrite Nat.sub_0_r in Hg1. cbn [skipn] in Hg1.
    replace bf with ((bf - n - p) + (bf - (bf - n - p))) at 1 by lia. rewrite firstn_split, all_digit_app, (all_zero_digit _ Hg1), Hg2. reflexivity.
  - unfold copy_mixed in H. rewrite E in H.
    apply bind_ok in H as (idg & Hu1 & H). apply bind_ok in H as (n2 & Hu2 & H). apply bind_ok in H as (fill & Hu3 & H).
    apply bind_ok in H as (lead & Hl & H). apply bind_ok in H as ([] & Hg1 & H). apply guard_ok in Hg1.
    apply bind_ok in H as (c1 & Hm & H). apply bind_ok in H as ([] & Hg2 & H). apply guard_ok in Hg2.
    apply bind_ok in H as (tl & Ht & H). apply bind_ok in H as ([] & Hg3 & H). apply guard_ok in Hg3.
    split; [|apply (Htail tl Ht Hg3)].
    apply slice_val in Hl as (-> & _ & _). apply slice_val in Hm as (-> & Hs1 & _). rewrite Nat.sub_0_r in Hg1. cbn [skipn] in Hg1.
    replace bf with ((bf - idg) + (bf - (bf - idg))) at 1 by lia. rewrite firstn_split, all_digit_app, (all_zero_digit _ Hg1), Hg2. reflexivity.
  - unfold copy_frac in H. rewrite E in H.
    apply bind_ok in H as (shift & Hu1 & H). apply bind_ok in H as (n & Hu2 & H). apply bind_ok in H as (fill & Hu3 & H).
    apply bind_ok in H as (lead & Hl & H). apply bind_ok in H as ([] & Hg1 & H). apply guard_ok in Hg1.
    apply bind_ok in H as (z & Hz & H). apply bind_ok in H as ([] & Hg2 & H). apply guard_ok in Hg2.
    apply bind_ok in H as (tl & Ht & H). apply bind_ok in H as ([] & Hg3 & H). apply guard_ok in Hg3.
    apply slice_val in Hl as (-> & _ & _). rewrite Nat.sub_0_r in Hg1. cbn [skipn] in Hg1. split; [apply all_zero_digit, Hg1|].
    apply slice_val in Hz as (-> & Hz1 & Hz2). apply slice_val in Ht as (-> & Ht1 & _).
    set (st := Nat.min (length t) shift) in *.
    rewrite <- (firstn_skipn (st - af) (skipn af t)), all_digit_app, (all_zero_digit _ Hg2). cbn [andb].
    rewrite skipn_skipn'. replace (af + (st - af)) with st by lia. rewrite firstn_all2 in Hg3 by (rewrite skipn_length; lia). exact Hg3.
Qed.

Theorem parse_exact_none p s text : p <= 255 -> denote text = None -> parse_decimal128 p s text = Err.
Proof.
  intros Hp Hd. destruct (parse_decimal128 p s text) as [v| |k] eqn:E; [|reflexivity|exfalso; exact (parse_decimal128_np p s text Hp k E)].
  exfalso. unfold parse_decimal128 in E. unfold denote in Hd. destruct (parse_sign text) as [t neg].
  destruct (existsb is_digit t) eqn:Ex; cbn [negb] in E; [|discriminate].
  apply bind_ok in E as (ds & Hc & _). destruct (copy_digits_guards _ _ _ Hc) as [G1 G2].
  unfold split_dot in Hd. unfold find_period in G1, G2. destruct (position_dot t) as [pos|] eqn:Ep; cbn [fst snd] in G1, G2.
  - rewrite G1, G2 in Hd. cbn [andb] in Hd. destruct (Nat.eqb_spec (length (firstn pos t) + length (skipn (S pos) t)) 0) as [E0|]; [|discriminate Hd].
    assert (E1 : firstn pos t = []) by (destruct (firstn pos t); [reflexivity|cbn in E0; lia]).
    assert (E2 : skipn (S pos) t = []) by (destruct (skipn (S pos) t); [reflexivity|cbn in E0; lia]).
    rewrite (position_dot_split t pos Ep), E1, E2 in Ex. discriminate Ex.
  - rewrite firstn_all in G1. rewrite G1 in Hd. cbn [andb all_digit forallb] in Hd.
    destruct (Nat.eqb_spec (length t + length (@nil N)) 0) as [E0|]; [|discriminate Hd]. destruct t; [discriminate Ex|cbn in E0; lia].
Qed.

(* C15_full *)
Theorem parse_exact p s text : p <= 38 ->
  match denote text with
  | Some n => if (Z.abs (value_scaled s n) <? 10 ^ Z.of_nat p)%Z
              then parse_decimal128 p s text = Ok (value_scaled s n)
              else parse_decimal128 p s text = Err
  | None => parse_decimal128 p s text = Err
  end.
Proof.
  intros Hp. destruct (denote text) as [n|] eqn:Hd; [apply parse_exact_some; assumption|apply parse_exact_none; [lia|exact Hd]].
Qed.
