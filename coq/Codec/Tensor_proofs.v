From Verif Require Import Tensor Json_proofs Decimal_proofs.
Require Import ZifyBool ZifyN ZifyNat.
Local Open Scope nat_scope.

(* ---------------- check_permutation ---------------- *)
Lemma set_nth_length l i : length (set_nth l i) = length l.
Proof. revert i; induction l as [|x l IH]; intros [|i]; cbn; auto. Qed.

Lemma nth_set_nth l i j : i < length l ->
  nth j (set_nth l i) false = if Nat.eqb j i then true else nth j l false.
Proof.
  revert i j; induction l as [|x l IH]; intros i j Hi; [cbn in Hi; lia|].
  destruct i as [|i], j as [|j]; cbn [set_nth nth Nat.eqb]; auto.
  apply IH. cbn in Hi. lia.
Qed.

Lemma mark_sound p : forall seen seen', mark seen p = Ok seen' ->
  NoDup p /\ (forall i, In i p -> i < length seen /\ nth i seen false = false)
  /\ length seen' = length seen
  /\ (forall j, nth j seen' false = true <-> (nth j seen false = true \/ In j p)).
Proof.
  induction p as [|i p IH]; intros seen seen' H; cbn [mark] in H.
  - inversion H; subst. split; [constructor|]. split; [intros i []|]. split; [reflexivity|]. intros j. cbn [In]. tauto.
  - destruct (Nat.leb_spec (length seen) i) as [Hle|Hlt]; [discriminate|].
    destruct (nth i seen false) eqn:Hi; [discriminate|].
    apply IH in H as (Hnd & Hin & Hlen & Hnth). rewrite set_nth_length in Hlen, Hin.
    assert (Hnotin : ~ In i p).
    { intros Hc. apply Hin in Hc as [_ Hc]. rewrite nth_set_nth in Hc by lia. rewrite Nat.eqb_refl in Hc. discriminate. }
    split; [constructor; assumption|].
    split.
    { intros i0 [<-|H0]; [split; [lia|exact Hi]|].
      pose proof (Hin i0 H0) as [Hlt0 Hv]. split; [exact Hlt0|]. rewrite nth_set_nth in Hv by lia.
      destruct (Nat.eqb i0 i); [discriminate|exact Hv]. }
    split; [exact Hlen|].
    intros j. split.
    { intros Hj. apply Hnth in Hj as [Hj|Hj]; [|right; right; exact Hj].
      rewrite nth_set_nth in Hj by lia.
      destruct (Nat.eqb_spec j i) as [E|E]; [right; left; symmetry; exact E|left; exact Hj]. }
    { intros [Hj|[<-|Hj]]; apply Hnth.
      - left. rewrite nth_set_nth by lia. destruct (Nat.eqb j i); [reflexivity|exact Hj].
      - left. rewrite nth_set_nth by lia. rewrite Nat.eqb_refl. reflexivity.
      - right. exact Hj. }
Qed.

Lemma mark_complete p : forall seen, NoDup p ->
  (forall i, In i p -> i < length seen /\ nth i seen false = false) ->
  exists seen', mark seen p = Ok seen'.
Proof.
  induction p as [|i p IH]; intros seen Hnd Hin; cbn [mark]; [eauto|].
  inversion Hnd as [|? ? Hni Hnd']; subst.
  destruct (Hin i (or_introl eq_refl)) as [Hlt Hv].
  destruct (Nat.leb_spec (length seen) i); [lia|]. rewrite Hv.
  apply IH; [exact Hnd'|]. intros j Hj. rewrite set_nth_length.
  destruct (Hin j (or_intror Hj)) as [Hjl Hjv]. split; [exact Hjl|].
  rewrite nth_set_nth by lia. destruct (Nat.eqb_spec j i) as [->|]; [contradiction|exact Hjv].
Qed.

Lemma nth_repeat_false n j : nth j (repeat false n) false = false.
Proof. revert j; induction n as [|n IH]; intros [|j]; cbn; auto. Qed.

Theorem check_permutation_iff ndim p :
  check_permutation ndim p = Ok tt <-> Permutation p (seq 0 ndim).
Proof.
  unfold check_permutation. split.
  - destruct (Nat.eqb_spec (length p) ndim) as [Hlen|]; cbn [negb]; [|discriminate].
    destruct (mark (repeat false (length p)) p) as [seen'| |] eqn:Hm; cbn [bind]; try discriminate.
    destruct (forallb (fun x => x) seen') eqn:Hall; [|discriminate]. intros _.
    apply mark_sound in Hm as (Hnd & Hin & Hl & Hnth). rewrite repeat_length in Hl, Hin.
    apply NoDup_Permutation; [exact Hnd|apply seq_NoDup|].
    intros x. rewrite in_seq. split.
    + intros Hx. apply Hin in Hx. lia.
    + intros Hx. rewrite forallb_forall in Hall.
      assert (Ht : nth x seen' false = true) by (apply Hall, nth_In; lia).
      apply Hnth in Ht as [Ht|Ht]; [rewrite nth_repeat_false in Ht; discriminate|exact Ht].
  - intros Hp. pose proof (Permutation_length Hp) as Hlen. rewrite seq_length in Hlen.
    rewrite Hlen, Nat.eqb_refl. cbn [negb].
    assert (Hnd : NoDup p) by (eapply Permutation_NoDup; [apply Permutation_sym, Hp|apply seq_NoDup]).
    assert (Hin : forall i, In i p -> i < length (repeat false ndim) /\ nth i (repeat false ndim) false = false).
    { intros i Hi. rewrite repeat_length, nth_repeat_false. split; [|reflexivity].
      apply (Permutation_in _ Hp) in Hi. apply in_seq in Hi. lia. }
    destruct (mark_complete p _ Hnd Hin) as [seen' Hm]. rewrite Hm. cbn [bind].
    apply mark_sound in Hm as (_ & _ & Hl & Hnth). rewrite repeat_length in Hl.
    assert (forallb (fun x => x) seen' = true) as ->; [|reflexivity].
    apply forallb_forall. intros x Hx. apply (In_nth _ _ false) in Hx as (j & Hj & <-).
    apply Hnth. right. apply (Permutation_in _ (Permutation_sym Hp)). apply in_seq. lia.
Qed.

Lemma check_permutation_total ndim p : forall k, check_permutation ndim p <> Panic k.
Proof.
  intros k. unfold check_permutation. destruct (negb _); [discriminate|].
  assert (Hm : forall seen, (exists s, mark seen p = Ok s) \/ mark seen p = Err).
  { induction p as [|i p IH]; intros seen; cbn [mark]; [eauto|].
    destruct (Nat.leb _ _); [auto|]. destruct (nth i seen false); [auto|]. apply IH. }
  destruct (Hm (repeat false (length p))) as [[s ->]| ->]; cbn [bind]; [|discriminate].
  destruct (forallb _ _); discriminate.
Qed.

(* ---------------- metadata text = printed JSON of the configuration ---------------- *)
Lemma write_items_false l : write_items false l = rest_text l.
Proof. induction l as [|x l IH]; [reflexivity|]. cbn [write_items rest_text flat_map]. rewrite IH. reflexivity. Qed.

Lemma write_list_print l : write_list (map print l) = print (JArr l).
Proof.
  unfold write_list. cbn [print]. destruct l as [|x l]; [reflexivity|].
  cbn [map write_items join]. rewrite write_items_false. reflexivity.
Qed.

Lemma write_list_nums l : write_list (map print_N l) = print (JArr (map JNum l)).
Proof. rewrite <- write_list_print, map_map. reflexivity. Qed.

Lemma write_list_idx (p : list nat) :
  write_list (map (fun i => print_N (N.of_nat i)) p) = print (JArr (map (fun i => JNum (N.of_nat i)) p)).
Proof. rewrite <- write_list_print, map_map. reflexivity. Qed.

Lemma write_list_strs l : write_list (map print_str l) = print (JArr (map JStr l)).
Proof. rewrite <- write_list_print, map_map. reflexivity. Qed.

Lemma write_list_optnums u :
  write_list (map opt_num_text u)
  = print (JArr (map (fun o => match o with Some n => JNum n | None => JNull end) u)).
Proof.
  rewrite <- write_list_print, map_map. f_equal. apply map_ext. intros [n|]; reflexivity.
Qed.

Theorem fixed_metadata_print c : fixed_metadata c = print (fixed_expected c).
Proof.
  destruct c as [shape perm names]. unfold fixed_metadata, fixed_expected. cbn [f_shape f_perm f_names].
  rewrite write_list_nums.
  destruct perm as [p|], names as [ns|]; rewrite ?write_list_idx, ?write_list_strs;
    cbn [app print map join flat_map fst snd];
    repeat match goal with |- context [print (JArr ?l)] => generalize (print (JArr l)); intro end;
    cbn [q bytes_of_string print_str flat_map esc_char app];
    repeat (rewrite <- app_assoc; cbn [app]); reflexivity.
Qed.

Theorem var_metadata_print c : var_metadata c = print (var_expected c).
Proof.
  destruct c as [nd perm names uni]. unfold var_metadata, var_expected. cbn [v_perm v_names v_uniform].
  destruct perm as [p|], names as [ns|], uni as [u|];
    rewrite ?write_list_idx, ?write_list_strs, ?write_list_optnums;
    cbn [app print map join flat_map fst snd];
    repeat match goal with |- context [print (JArr ?l)] => generalize (print (JArr l)); intro end;
    cbn [q bytes_of_string print_str flat_map esc_char app];
    repeat (rewrite <- app_assoc; cbn [app]); reflexivity.
Qed.

Theorem fixed_metadata_json c : json_parse (fixed_metadata c) = Some (fixed_expected c).
Proof. rewrite fixed_metadata_print. apply json_parse_print. Qed.

Theorem var_metadata_json c : json_parse (var_metadata c) = Some (var_expected c).
Proof. rewrite var_metadata_print. apply json_parse_print. Qed.

(* ---------------- element count ---------------- *)
Local Open Scope N_scope.
Lemma checked_product_value shape : forall acc n,
  checked_product acc shape = Ok n -> n = fold_left N.mul shape acc.
Proof.
  induction shape as [|s r IH]; intros acc n H; cbn [checked_product fold_left] in *.
  - inversion H; reflexivity.
  - destruct (usize_max <? acc * s); [discriminate|]. apply IH, H.
Qed.

Theorem fixed_list_size_spec c n :
  fixed_list_size c = Ok n -> n = fold_left N.mul (f_shape c) 1 /\ n <= i32_max.
Proof.
  unfold fixed_list_size. destruct (checked_product 1 (f_shape c)) as [m| |] eqn:Hp; cbn [bind]; try discriminate.
  destruct (N.ltb_spec i32_max m) as [Hgt|Hle]; [discriminate|]. intros Heq; inversion Heq; subst.
  split; [apply checked_product_value, Hp|assumption].
Qed.

Lemma checked_product_total shape : forall acc k, checked_product acc shape <> Panic k.
Proof.
  induction shape as [|s r IH]; intros acc k; cbn [checked_product]; [discriminate|].
  destruct (usize_max <? acc * s); [discriminate|apply IH].
Qed.

Lemma opt_check_total {A} (o : option A) (chk : A -> Outcome unit) :
  (forall a k, chk a <> Panic k) -> forall k, match o with Some a => chk a | None => Ok tt end <> Panic k.
Proof. intros H k. destruct o; [apply H|discriminate]. Qed.

Lemma check_dim_names_total n ns k : check_dim_names n ns <> Panic k.
Proof. unfold check_dim_names. destruct (Nat.eqb _ _); discriminate. Qed.

Lemma check_uniform_total n u k : check_uniform_shape n u <> Panic k.
Proof. unfold check_uniform_shape. destruct (Nat.eqb _ _); discriminate. Qed.

Theorem fixed_field_total shape perm names : forall k, fixed_field shape perm names <> Panic k.
Proof.
  unfold fixed_field. apply bind_not_panic.
  - unfold fixed_build. apply bind_not_panic; [apply opt_check_total; intros; apply check_permutation_total|].
    intros _. apply bind_not_panic; [apply opt_check_total; intros; apply check_dim_names_total|].
    intros; discriminate.
  - intros c. apply bind_not_panic; [|intros; discriminate].
    unfold fixed_list_size. apply bind_not_panic; [apply checked_product_total|].
    intros m k. destruct (i32_max <? m); discriminate.
Qed.

Theorem var_field_total ndim perm names uni : forall k, var_field ndim perm names uni <> Panic k.
Proof.
  unfold var_field. apply bind_not_panic.
  - unfold var_build. apply bind_not_panic; [apply opt_check_total; intros; apply check_permutation_total|].
    intros _. apply bind_not_panic; [apply opt_check_total; intros; apply check_dim_names_total|].
    intros _. apply bind_not_panic; [apply opt_check_total; intros; apply check_uniform_total|].
    intros; discriminate.
  - intros c k. destruct (i32_max <? N.of_nat ndim); discriminate.
Qed.
