(* Model of serde_arrow/src/internal/utils/decimal.rs (DecimalParser with truncation, as used by
   DecimalBuilder; format_decimal as used by DecimalDeserializer) and of the float path of
   serde_arrow/src/internal/serialization/decimal_builder.rs.
   Index arithmetic, slice bounds and the fixed-size buffer are modelled explicitly: a slice out
   of bounds, a usize underflow or a write past the buffer is `Panic`. *)
From Verif Require Export Decimal.
Local Open Scope nat_scope.

Definition BUF : nat := 256.                  (* BUFFER_SIZE_I128 *)
Definition i128_max : Z := 170141183460469231731687303715884105727%Z.

Definition slice (s : bytes) (a e : nat) : Outcome bytes :=
  if Nat.leb a e && Nat.leb e (length s) then Ok (firstn (e - a) (skipn a s)) else Panic PSlice.

Definition usub (a c : nat) : Outcome nat := if Nat.leb c a then Ok (a - c) else Panic POverflow.

Definition all_zero (s : bytes) : bool := forallb (N.eqb 48) s.
Definition all_digit (s : bytes) : bool := forallb is_digit s.
Definition guard (c : bool) : Outcome unit := if c then Ok tt else Err.

Fixpoint position_dot (s : bytes) : option nat :=
  match s with
  | [] => None
  | c :: r => if N.eqb c 46 then Some 0 else option_map S (position_dot r)
  end.

Definition find_period (s : bytes) : nat * nat :=
  match position_dot s with Some pos => (pos, S pos) | None => (length s, length s) end.

(* write `n` bytes into the buffer starting at `at_`: panics past the end *)
Definition buf_ok (upto : nat) : Outcome unit := if Nat.leb upto BUF then Ok tt else Panic PSlice.

Inductive Parser :=
| IntegerOnlyTruncated (p n : nat)
| MixedTruncated (p s : nat)
| FractionOnlyTruncated (p s : nat).

(* DecimalParser::new(precision, scale, truncated = true) *)
Definition parser_new (p : nat) (s : Z) : Parser :=
  if (s <? 0)%Z then IntegerOnlyTruncated p (Z.to_nat (- s))
  else if Nat.ltb (Z.to_nat s) p then MixedTruncated p (Z.to_nat s)
  else FractionOnlyTruncated p (Z.to_nat s).

Definition copy_int (p n : nat) (s : bytes) : Outcome bytes :=
  let '(before, after) := find_period s in
  let end_copy := before - n in           (* saturating_sub *)
  let start_copy := end_copy - p in       (* saturating_sub *)
  do lead <- slice s 0 start_copy ;; do _ <- guard (all_zero lead) ;;
  do mid <- slice s start_copy before ;; do _ <- guard (all_digit mid) ;;
  do tl <- slice s after (length s) ;; do _ <- guard (all_digit tl) ;;
  do cp <- slice s start_copy end_copy ;;
  do _ <- buf_ok (end_copy - start_copy) ;;
  Ok cp.

Definition copy_mixed (p sc : nat) (s : bytes) : Outcome bytes :=
  let '(before, after) := find_period s in
  do int_digits <- usub p sc ;;
  let start_copy := before - int_digits in
  let end_copy := Nat.min (length s) (after + sc) in
  do n2 <- usub end_copy after ;;
  do fill <- usub sc n2 ;;
  do lead <- slice s 0 start_copy ;; do _ <- guard (all_zero lead) ;;
  do c1 <- slice s start_copy before ;; do _ <- guard (all_digit c1) ;;
  do tl <- slice s after (length s) ;; do _ <- guard (all_digit tl) ;;
  do c2 <- slice s after end_copy ;;
  do _ <- buf_ok (length c1) ;;
  do _ <- (if Nat.leb (length c1) BUF then buf_ok (length c1 + length c2) else Panic PSlice) ;;
  do _ <- (if Nat.leb (length c1 + length c2) BUF then buf_ok (length c1 + length c2 + fill) else Panic PSlice) ;;
  Ok (c1 ++ c2 ++ repeat 48%N fill).

Definition copy_frac (p sc : nat) (s : bytes) : Outcome bytes :=
  let '(before, after) := find_period s in
  do shift <- usub (after + sc) p ;;
  let start_copy := Nat.min (length s) shift in
  let end_copy := Nat.min (length s) (after + sc) in
  do n <- usub end_copy start_copy ;;
  do fill <- usub p n ;;
  do lead <- slice s 0 before ;; do _ <- guard (all_zero lead) ;;
  do z <- slice s after start_copy ;; do _ <- guard (all_zero z) ;;
  do tl <- slice s start_copy (length s) ;; do _ <- guard (all_digit tl) ;;
  do cp <- slice s start_copy end_copy ;;
  do _ <- buf_ok n ;;
  do _ <- (if Nat.leb n BUF then buf_ok (n + fill) else Panic PSlice) ;;
  Ok (cp ++ repeat 48%N fill).

Definition copy_digits (ps : Parser) (s : bytes) : Outcome bytes :=
  match ps with
  | IntegerOnlyTruncated p n => copy_int p n s
  | MixedTruncated p sc => copy_mixed p sc s
  | FractionOnlyTruncated p sc => copy_frac p sc s
  end.

Definition parse_sign (s : bytes) : bytes * bool :=
  match s with
  | c :: r => if N.eqb c 43 then (r, false) else if N.eqb c 45 then (r, true) else (s, false)
  | [] => (s, false)
  end.

(* str::parse::<i128>() on a string of ASCII digits (non-empty): overflow is an error *)
Definition parse_i128 (ds : bytes) : Outcome Z :=
  let v := Z.of_N (parse_digits ds) in if (i128_max <? v)%Z then Err else Ok v.

Definition parse_decimal128 (p : nat) (s : Z) (text : bytes) : Outcome Z :=
  let '(t, neg) := parse_sign text in
  if negb (existsb is_digit t) then Err            (* no digit at all: not a number *)
  else
    do ds <- copy_digits (parser_new p s) t ;;
    do v <- match ds with [] => Ok 0%Z | _ => parse_i128 ds end ;;
    Ok (if neg then (- v)%Z else v).

(* float path: the driver supplies trunc(v * 10^scale) as computed in floating point
   (None when the product is not finite) *)
Definition float_limit : Z := i128_max.
Definition float_to_decimal (p : nat) (scaled : option Z) : Outcome Z :=
  match scaled with
  | None => Err
  | Some z => if (10 ^ Z.of_nat p <=? Z.abs z)%Z then Err else Ok z
  end.

(* ---------------- format_decimal(buffer, val, scale) ---------------- *)
Definition format_decimal (v : Z) (s : Z) : Outcome bytes :=
  let digits := print_N (Z.abs_N v) in
  let sign := if (v <? 0)%Z then [45%N] else [] in
  let written := sign ++ digits in
  do _ <- buf_ok (length written) ;;
  if (s =? 0)%Z then Ok written
  else if (s <? 0)%Z then
    if (v =? 0)%Z then Ok [48%N]
    else
      let n := Z.to_nat (- s) in
      do _ <- buf_ok (length written + n) ;;
      Ok (written ++ repeat 48%N n)
  else
    let sc := Z.to_nat s in
    let nd := length digits in
    if Nat.leb nd sc then
      let missing := sc - nd in
      do _ <- buf_ok (length written + missing + 2) ;;
      Ok (sign ++ [48%N; 46%N] ++ repeat 48%N missing ++ digits)
    else
      do _ <- buf_ok (length written + 1) ;;
      Ok (sign ++ firstn (nd - sc) digits ++ [46%N] ++ skipn (nd - sc) digits).

(* ---------------- specification: what a decimal numeral denotes ---------------- *)
Record Numeral := { nm_neg : bool; nm_int : bytes; nm_frac : bytes }.

Definition split_dot (s : bytes) : bytes * bytes :=
  match position_dot s with
  | Some pos => (firstn pos s, skipn (S pos) s)
  | None => (s, [])
  end.

(* sign? digit* ('.' digit* )? with at least one digit *)
Definition denote (text : bytes) : option Numeral :=
  let '(t, neg) := parse_sign text in
  let '(ip, fp) := split_dot t in
  if all_digit ip && all_digit fp && negb (Nat.eqb (length ip + length fp) 0)
  then Some {| nm_neg := neg; nm_int := ip; nm_frac := fp |} else None.

(* trunc(|numeral| * 10^scale), sign applied afterwards (truncation toward zero) *)
Definition magnitude_scaled (s : Z) (n : Numeral) : N :=
  if (s <? 0)%Z then (parse_digits (nm_int n) / 10 ^ Z.to_N (- s))%N
  else
    let sc := Z.to_nat s in
    (parse_digits (nm_int n) * 10 ^ N.of_nat sc
     + parse_digits (firstn sc (nm_frac n ++ repeat 48%N sc)))%N.

Definition value_scaled (s : Z) (n : Numeral) : Z :=
  let m := Z.of_N (magnitude_scaled s n) in if nm_neg n then (- m)%Z else m.

(* a numeral as an exact rational: (+/-) digits(int ++ frac) / 10^|frac| *)
Definition numeral_num (n : Numeral) : Z :=
  let m := Z.of_N (parse_digits (nm_int n ++ nm_frac n)) in if nm_neg n then (- m)%Z else m.
(* numeral = v * 10^(-s), cross-multiplied so that no division appears *)
Definition numeral_eq (n : Numeral) (v s : Z) : Prop :=
  (numeral_num n * 10 ^ Z.max s 0 = v * 10 ^ Z.max (- s) 0 * 10 ^ Z.of_nat (length (nm_frac n)))%Z.
