(* Decimal text of natural numbers (what Rust's Display prints for unsigned integers) and its
   inverse. *)
From Verif Require Export Bytes.
Local Open Scope N_scope.

(* little-endian digit values *)
Fixpoint le_digits (fuel : nat) (n : N) : list N :=
  match fuel with
  | O => []
  | S f => if n <? 10 then [n] else (n mod 10) :: le_digits f (n / 10)
  end.

Definition value_le (ds : list N) : N := fold_right (fun d acc => d + 10 * acc) 0 ds.
Definition value_be (ds : list N) : N := fold_left (fun acc d => acc * 10 + d) ds 0.

Definition digits_fuel (n : N) : nat := S (N.to_nat (N.log2 n)).

(* big-endian ASCII digits *)
Definition print_N (n : N) : bytes := map (fun d => 48 + d) (rev (le_digits (digits_fuel n) n)).

Fixpoint span_digits (s : bytes) : bytes * bytes :=
  match s with
  | c :: r => if is_digit c then let '(ds, r') := span_digits r in (c :: ds, r') else ([], s)
  | [] => ([], [])
  end.

Definition parse_digits (ds : bytes) : N := value_be (map digit_val ds).

Definition no_digit_head (r : bytes) : Prop :=
  match r with [] => True | c :: _ => is_digit c = false end.
