From Verif Require Import Calendar Calendar_proofs.
Require Import ZifyBool.
Ltac Zify.zify_post_hook ::= Z.div_mod_to_equations.
Local Open Scope Z_scope.

(* ---- times of day ---- *)
Lemma sub_factor_mul u : sub_factor u * per_second u = 1000000000 /\ 0 < sub_factor u /\ 0 < per_second u.
Proof. destruct u; cbv; repeat split; reflexivity. Qed.

Ltac unit_consts :=
  unfold time_value, timestamp_value, sub_factor, per_second;
  change (1000000000 / 1) with 1000000000; change (1000000000 / 1000) with 1000000;
  change (1000000000 / 1000000) with 1000; change (1000000000 / 1000000000) with 1.

Theorem time_value_split u h mi s nanos :
  0 <= h -> 0 <= mi -> 0 <= s -> 0 <= nanos < 1000000000 ->
  let v := time_value u h mi s nanos in
  Z.quot v (per_second u) = h * 3600 + mi * 60 + s /\
  Z.rem v (per_second u) * sub_factor u = nanos / sub_factor u * sub_factor u.
Proof.
  intros Hh Hmi Hs Hn v. subst v.
  destruct u; unit_consts;
    (rewrite Z.quot_div_nonneg, Z.rem_mod_nonneg by lia); lia.
Qed.

(* ---- instants: splitting a stored timestamp gives back the civil date and the time of day,
        truncated (floor) to the unit ---- *)
Theorem timestamp_value_split u y m d h mi s nanos :
  valid_date y m d = true -> 0 <= h < 24 -> 0 <= mi < 60 -> 0 <= s < 60 -> 0 <= nanos < 1000000000 ->
  let v := timestamp_value u y m d h mi s nanos in
  let total := v * sub_factor u in
  civil_from_days (total / 1000000000 / 86400) = (y, m, d) /\
  total / 1000000000 mod 86400 = h * 3600 + mi * 60 + s /\
  total mod 1000000000 = nanos / sub_factor u * sub_factor u.
Proof.
  intros Hv Hh Hmi Hs Hn v total. subst total v.
  pose proof (civil_days_civil y m d Hv) as Hc.
  set (days := days_from_civil y m d) in *.
  destruct u; unit_consts; fold days;
    (split; [rewrite <- Hc; f_equal; lia|split; lia]).
Qed.
