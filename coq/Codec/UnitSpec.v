(* The unit factors of the temporal code as written in the source (every `match unit { TimeUnit::X => .. }`,
   regenerated on every run: Gen/UnitTables.v) against the model's per_second / sub_factor (Codec/Calendar.v). *)
From Coq Require Import String.
From Verif Require Import Calendar UnitTables.
Local Open Scope string_scope.

Definition unit_of_name (s : string) : option TimeUnit :=
  if String.eqb s "Second" then Some Second else if String.eqb s "Millisecond" then Some Millisecond
  else if String.eqb s "Microsecond" then Some Microsecond else if String.eqb s "Nanosecond" then Some Nanosecond else None.

Definition digits_of (u : TimeUnit) : Z := match u with Second => 0 | Millisecond => 3 | Microsecond => 6 | Nanosecond => 9 end%Z.
Definition suffix_of (u : TimeUnit) : string := match u with Second => "" | Millisecond => "_millis" | Microsecond => "_micros" | Nanosecond => "_nanos" end.

(* what each site must contain for unit u, in terms of the model's factors *)
Definition expected_arm (site : string) (u : TimeUnit) : option (list Z * list Z * list string) :=
  let ps := per_second u in let sf := sub_factor u in
  if String.eqb site "chrono.rs:build_duration" then
    Some (match u with Second => [] | Nanosecond => [ps] | _ => [ps; sf] end, [], [])
  else if String.eqb site "chrono.rs:format_arrow_duration_as_span" then
    Some (match u with Second => [] | _ => [ps; ps] end, match u with Second => [] | _ => [digits_of u] end, [])
  else if String.eqb site "serialization/time_builder.rs:serialize_str" then Some ([ps; sf], [], [])
  else if String.eqb site "deserialization/time_deserializer.rs:get_string_repr" then
    Some (match u with Second => [0%Z] | Nanosecond => [ps; ps] | _ => [ps; ps; sf] end, [], [])
  else if String.eqb site "deserialization/timestamp_deserializer.rs:get_string_repr" then
    Some (match u with Second => [0%Z] | _ => [] end, [], ["from_timestamp" ++ suffix_of u])
  else if String.eqb site "serialization/timestamp_builder.rs:parse_str_to_timestamp" then
    Some ([], [], ["timestamp" ++ suffix_of u ++ match u with Nanosecond => "_opt" | _ => "" end])
  else None.

Definition zlist_eqb (x y : list Z) : bool :=
  (fix go x y := match x, y with [], [] => true | a :: x', c :: y' => Z.eqb a c && go x' y' | _, _ => false end) x y.
Definition slist_eqb (x y : list string) : bool :=
  (fix go x y := match x, y with [], [] => true | a :: x', c :: y' => String.eqb a c && go x' y' | _, _ => false end) x y.

Definition site_ok (row : string * list (string * list Z * list Z * list string)) : bool :=
  let '(site, arms) := row in
  Nat.eqb (length arms) 4 &&
  forallb (fun arm : string * list Z * list Z * list string =>
             let '(un, lits, widths, calls) := arm in
             match unit_of_name un with
             | Some u => match expected_arm site u with
                         | Some (l, w, c) => zlist_eqb lits l && zlist_eqb widths w && slist_eqb calls c
                         | None => false end
             | None => false
             end) arms &&
  (* each unit exactly once *)
  forallb (fun un => Nat.eqb (length (filter (fun arm : string * list Z * list Z * list string => String.eqb (fst (fst (fst arm))) un) arms)) 1)
          ["Second"; "Millisecond"; "Microsecond"; "Nanosecond"].

Definition unit_tables_ok : bool := Nat.eqb (length unit_arms) 6 && forallb site_ok unit_arms.

(* the model's factors themselves *)
Lemma factors : forall u, (per_second u * sub_factor u = 1000000000)%Z /\ (per_second u = 10 ^ digits_of u)%Z.
Proof. intros []; split; reflexivity. Qed.

Lemma unit_tables_match : unit_tables_ok = true.
Proof. vm_compute. reflexivity. Qed.
