(* Model of serde_arrow/src/internal/schema/extensions/{utils,fixed_shape_tensor_field,
   variable_shape_tensor_field,bool8_field}.rs *)
From Verif Require Export Json.
From Coq Require Export Permutation.
Local Open Scope N_scope.

(* ---- check_permutation(ndim, permutation): `seen` flags ---- *)
Fixpoint set_nth (l : list bool) (i : nat) : list bool :=
  match l, i with
  | [], _ => []
  | _ :: r, O => true :: r
  | x :: r, S j => x :: set_nth r j
  end.

Fixpoint mark (seen : list bool) (p : list nat) : Outcome (list bool) :=
  match p with
  | [] => Ok seen
  | i :: r =>
    if Nat.leb (length seen) i then Err                 (* index not in range *)
    else if nth i seen false then Err                    (* index found multiple times *)
    else mark (set_nth seen i) r
  end.

Definition check_permutation (ndim : nat) (p : list nat) : Outcome unit :=
  if negb (Nat.eqb (length p) ndim) then Err
  else
    do seen <- mark (repeat false (length p)) p ;;
    if forallb (fun x => x) seen then Ok tt else Err.   (* index not present *)

Definition check_dim_names (ndim : nat) (names : list bytes) : Outcome unit :=
  if Nat.eqb (length names) ndim then Ok tt else Err.

Definition check_uniform_shape (ndim : nat) (u : list (option N)) : Outcome unit :=
  if Nat.eqb (length u) ndim then Ok tt else Err.

(* ---- write_list: "[" item ("," item)* "]" ---- *)
Fixpoint write_items (first : bool) (items : list bytes) : bytes :=
  match items with
  | [] => []
  | x :: r => (if first then x else 44 :: x) ++ write_items false r
  end.
Definition write_list (items : list bytes) : bytes := 91 :: write_items true items ++ [93].

Definition q (s : string) : bytes := b s.

(* ---- FixedShapeTensorField ---- *)
Record FixedCfg := {
  f_shape : list N;
  f_perm : option (list nat);
  f_names : option (list bytes) }.

Definition fixed_metadata (c : FixedCfg) : bytes :=
  let s := [123] ++ q """shape"":" ++ write_list (map print_N (f_shape c)) in
  let s := match f_perm c with
           | Some p => s ++ q ",""permutation"":" ++ write_list (map (fun i => print_N (N.of_nat i)) p)
           | None => s end in
  let s := match f_names c with
           | Some ns => s ++ q ",""dim_names"":" ++ write_list (map print_str ns)
           | None => s end in
  s ++ [125].

Definition usize_max : N := 18446744073709551615.
Definition i32_max : N := 2147483647.

(* element count: checked product over usize, then try_into::<i32>() *)
Fixpoint checked_product (acc : N) (shape : list N) : Outcome N :=
  match shape with
  | [] => Ok acc
  | s :: r => let n := acc * s in if usize_max <? n then Err else checked_product n r
  end.

Definition fixed_list_size (c : FixedCfg) : Outcome N :=
  do n <- checked_product 1 (f_shape c) ;; if i32_max <? n then Err else Ok n.

(* builder methods: each setter validates against ndim = |shape| *)
Definition fixed_build (shape : list N) (perm : option (list nat)) (names : option (list bytes))
  : Outcome FixedCfg :=
  do _ <- match perm with Some p => check_permutation (length shape) p | None => Ok tt end ;;
  do _ <- match names with Some ns => check_dim_names (length shape) ns | None => Ok tt end ;;
  Ok {| f_shape := shape; f_perm := perm; f_names := names |}.

(* the whole path: configuration -> (fixed size list length, metadata text) *)
Definition fixed_field (shape : list N) perm names : Outcome (N * bytes) :=
  do c <- fixed_build shape perm names ;;
  do n <- fixed_list_size c ;;
  Ok (n, fixed_metadata c).

Definition fixed_expected (c : FixedCfg) : Json :=
  JObj ([(q "shape", JArr (map JNum (f_shape c)))]
        ++ match f_perm c with Some p => [(q "permutation", JArr (map (fun i => JNum (N.of_nat i)) p))] | None => [] end
        ++ match f_names c with Some ns => [(q "dim_names", JArr (map JStr ns))] | None => [] end).

(* ---- VariableShapeTensorField ---- *)
Record VarCfg := {
  v_ndim : nat;
  v_perm : option (list nat);
  v_names : option (list bytes);
  v_uniform : option (list (option N)) }.

Definition opt_num_text (o : option N) : bytes :=
  match o with Some n => print_N n | None => [110; 117; 108; 108] end.

(* the writer keeps a `first_field` flag and puts a comma before every entry but the first *)
Definition var_metadata (c : VarCfg) : bytes :=
  let st := ([123], true) in
  let entry (st : bytes * bool) (key : bytes) (val : bytes) : bytes * bool :=
      ((fst st ++ (if snd st then [] else [44])) ++ key ++ val, false) in
  let st := match v_perm c with
            | Some p => entry st (q """permutation"":") (write_list (map (fun i => print_N (N.of_nat i)) p))
            | None => st end in
  let st := match v_names c with
            | Some ns => entry st (q """dim_names"":") (write_list (map print_str ns))
            | None => st end in
  let st := match v_uniform c with
            | Some u => entry st (q """uniform_shape"":") (write_list (map opt_num_text u))
            | None => st end in
  fst st ++ [125].

Definition var_build (ndim : nat) perm names uniform : Outcome VarCfg :=
  do _ <- match perm with Some p => check_permutation ndim p | None => Ok tt end ;;
  do _ <- match names with Some ns => check_dim_names ndim ns | None => Ok tt end ;;
  do _ <- match uniform with Some u => check_uniform_shape ndim u | None => Ok tt end ;;
  Ok {| v_ndim := ndim; v_perm := perm; v_names := names; v_uniform := uniform |}.

(* ndim.try_into::<i32>() for the shape child *)
Definition var_field (ndim : nat) perm names uniform : Outcome (N * bytes) :=
  do c <- var_build ndim perm names uniform ;;
  if i32_max <? N.of_nat ndim then Err else Ok (N.of_nat ndim, var_metadata c).

Definition var_expected (c : VarCfg) : Json :=
  JObj (match v_perm c with Some p => [(q "permutation", JArr (map (fun i => JNum (N.of_nat i)) p))] | None => [] end
        ++ match v_names c with Some ns => [(q "dim_names", JArr (map JStr ns))] | None => [] end
        ++ match v_uniform c with
           | Some u => [(q "uniform_shape", JArr (map (fun o => match o with Some n => JNum n | None => JNull end) u))]
           | None => [] end).
