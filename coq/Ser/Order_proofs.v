(* C11: the order in which the fields of a record arrive does not matter, and a tuple in schema
   order is the struct with the schema's names - as equalities of builder states (hence of the
   emitted arrays, byte for byte), for every builder of the core and every pushing function. *)
From Verif Require Import Builder Builder_proofs Decode_proofs Refine_proofs.
Require Import Permutation.
Require Import ZifyBool ZifyN ZifyNat.
Local Open Scope nat_scope.

Section Order.
  Variable pushf : Value -> Builder -> Outcome Builder.

  Definition step (st : RecState) (nv : bytes * Value) : Outcome RecState :=
    match index_of (fst nv) (fst st) with
    | None => Ok st
    | Some idx => struct_element pushf st idx (snd nv)
    end.

  Lemma struct_loop_cons nv r st : struct_loop pushf (nv :: r) st = do st' <- step st nv ;; struct_loop pushf r st'.
  Proof. destruct nv as [name x]. cbn [struct_loop]. unfold step. cbn [fst snd]. destruct (index_of name (fst st)); reflexivity. Qed.

  Lemma struct_element_ok st idx x st' : struct_element pushf st idx x = Ok st' ->
    exists m cb cb', nth idx (snd st) false = false /\ nth_error (fst st) idx = Some (m, cb) /\ pushf x cb = Ok cb' /\
                     st' = (update_nth (fst st) idx (m, cb'), update_nth (snd st) idx true).
  Proof.
    unfold struct_element. destruct (nth idx (snd st) false) eqn:E; [discriminate|].
    destruct (nth_error (fst st) idx) as [[m cb]|] eqn:En; [|discriminate]. intros H. apply bind_ok in H as (cb' & Hp & H). injection H as <-.
    exists m, cb, cb'. repeat split; assumption.
  Qed.

  Lemma update_nth_comm {A} : forall (l : list A) i j x y, i <> j -> update_nth (update_nth l i x) j y = update_nth (update_nth l j y) i x.
  Proof.
    induction l as [|a r IH]; intros [|i] [|j] x y H; cbn [update_nth]; try reflexivity; try lia. f_equal. apply IH. lia.
  Qed.

  Lemma step_meta st nv st' : step st nv = Ok st' -> map fst (fst st') = map fst (fst st).
  Proof.
    unfold step. destruct (index_of (fst nv) (fst st)) as [idx|]; [|intros H; injection H as <-; reflexivity].
    intros H. destruct (struct_element_ok _ _ _ _ H) as (m & cb & cb' & _ & Hn & _ & ->). cbn [fst]. apply (map_fst_update _ _ _ _ _ Hn).
  Qed.

  Lemma step_size st nv st' : step st nv = Ok st' -> length (snd st) = length (fst st) -> length (snd st') = length (fst st').
  Proof.
    unfold step. destruct (index_of (fst nv) (fst st)) as [idx|]; [|intros H; injection H as <-; exact (fun E => E)].
    intros H E. destruct (struct_element_ok _ _ _ _ H) as (m & cb & cb' & _ & _ & _ & ->). cbn [fst snd]. rewrite !update_nth_length. exact E.
  Qed.

  (* two successful steps commute *)
  Lemma step_comm st a c s1 s2 : length (snd st) = length (fst st) ->
    step st a = Ok s1 -> step s1 c = Ok s2 -> exists s1', step st c = Ok s1' /\ step s1' a = Ok s2.
  Proof.
    intros Hsz H1 H2. pose proof (step_meta _ _ _ H1) as M1.
    unfold step in H2. rewrite (index_of_map (fst c) (fst s1) (fst st) M1) in H2.
    unfold step in H1. unfold step.
    destruct (index_of (fst a) (fst st)) as [i|] eqn:Ea.
    - destruct (struct_element_ok _ _ _ _ H1) as (m1 & cb1 & cb1' & Hs1 & Hn1 & Hp1 & ->). cbn [fst snd] in *.
      destruct (index_of (fst c) (fst st)) as [j|] eqn:Ec.
      + destruct (struct_element_ok _ _ _ _ H2) as (m2 & cb2 & cb2' & Hs2 & Hn2 & Hp2 & ->). cbn [fst snd] in *.
        rewrite nth_update_nth in Hs2. rewrite nth_error_update_nth in Hn2.
        destruct (Nat.eqb_spec i j) as [<-|Hne].
        * (* the same field twice: the second step cannot have succeeded *)
          exfalso. assert (i < length (fst st)) by (apply nth_error_Some; congruence).
          destruct (Nat.ltb_spec i (length (snd st))); [discriminate Hs2|lia].
        * exists (update_nth (fst st) j (m2, cb2'), update_nth (snd st) j true). cbn [fst snd]. split.
          -- unfold struct_element. rewrite Hs2, Hn2, Hp2. reflexivity.
          -- rewrite (index_of_map (fst a) _ (fst st) (map_fst_update _ _ _ _ _ Hn2)), Ea.
             unfold struct_element. cbn [fst snd]. rewrite nth_update_nth, nth_error_update_nth.
             destruct (Nat.eqb_spec j i); [congruence|]. rewrite Hs1, Hn1, Hp1. cbn [bind].
             rewrite (update_nth_comm (fst st) i j) by exact Hne. rewrite (update_nth_comm (snd st) i j) by exact Hne. reflexivity.
      + injection H2 as <-. exists st. split; [reflexivity|]. rewrite Ea. exact H1.
    - injection H1 as <-. destruct (index_of (fst c) (fst st)) as [j|] eqn:Ec.
      + exists s2. split; [exact H2|]. rewrite (index_of_map (fst a) (fst s2) (fst st)), Ea; [reflexivity|].
        destruct (struct_element_ok _ _ _ _ H2) as (m2 & cb2 & cb2' & _ & Hn2 & _ & ->). cbn [fst]. apply (map_fst_update _ _ _ _ _ Hn2).
      + injection H2 as <-. exists st. split; [reflexivity|]. rewrite Ea. reflexivity.
  Qed.

  (* any permutation of the presented fields *)
  Theorem struct_loop_perm : forall l l', Permutation l l' -> forall st st',
    length (snd st) = length (fst st) -> struct_loop pushf l st = Ok st' -> struct_loop pushf l' st = Ok st'.
  Proof.
    induction 1 as [|x l l' _ IH|x y l|l l' l'' _ IH1 _ IH2]; intros st st' Hsz H.
    - exact H.
    - rewrite struct_loop_cons in *. apply bind_ok in H as (s1 & Hs & H). rewrite Hs. cbn [bind]. apply IH; [apply (step_size _ _ _ Hs Hsz)|exact H].
    - rewrite !struct_loop_cons in *. apply bind_ok in H as (s1 & Hs1 & H). rewrite struct_loop_cons in H. apply bind_ok in H as (s2 & Hs2 & H).
      destruct (step_comm st y x s1 s2 Hsz Hs1 Hs2) as (s1' & Ha & Hb). rewrite Ha. cbn [bind]. rewrite struct_loop_cons, Hb. exact H.
    - apply IH2; [exact Hsz|]. apply IH1; assumption.
  Qed.

  (* a tuple in schema order is the struct with the schema's names *)
  Definition names_of (cs : list (Meta * Builder)) : list bytes := map (fun mb : Meta * Builder => m_name (fst mb)) cs.

  Lemma index_of_nodup : forall (cs : list (Meta * Builder)) idx m c, NoDup (names_of cs) -> nth_error cs idx = Some (m, c) -> index_of (m_name m) cs = Some idx.
  Proof.
    induction cs as [|[m0 c0] r IH]; intros idx m c Hnd Hn; [destruct idx; discriminate|]. cbn [index_of].
    destruct idx as [|idx]; cbn [nth_error] in Hn.
    - injection Hn as <- <-. rewrite bytes_eqb_refl. reflexivity.
    - cbn [names_of map fst] in Hnd. inversion Hnd as [|? ? Hnin Hnd']; subst.
      destruct (bytes_eqb (m_name m0) (m_name m)) eqn:E.
      + apply bytes_eqb_eq in E. exfalso. apply Hnin. rewrite E. change (m_name m) with ((fun mb : Meta * Builder => m_name (fst mb)) (m, c)). apply in_map. eapply nth_error_In. exact Hn.
      + rewrite (IH idx m c Hnd' Hn). reflexivity.
  Qed.

  Lemma names_of_meta cs cs' : map fst cs = map fst cs' -> names_of cs = names_of cs'.
  Proof. unfold names_of. intros H. rewrite <- (map_map fst m_name cs), <- (map_map fst m_name cs'), H. reflexivity. Qed.

  Lemma tuple_is_struct : forall l idx st, NoDup (names_of (fst st)) ->
    tuple_loop pushf l idx st = struct_loop pushf (combine (skipn idx (names_of (fst st))) l) st.
  Proof.
    induction l as [|x r IH]; intros idx st Hnd; cbn [tuple_loop].
    - destruct (skipn idx (names_of (fst st))); reflexivity.
    - destruct (Nat.ltb_spec idx (length (fst st))) as [Hlt|Hge].
      + destruct (nth_error (fst st) idx) as [[m c]|] eqn:En; [|apply nth_error_None in En; lia].
        assert (Hname : nth_error (names_of (fst st)) idx = Some (m_name m)) by (unfold names_of; rewrite nth_error_map, En; reflexivity).
        rewrite (skipn_nth_cons _ _ _ Hname). cbn [combine struct_loop]. rewrite (index_of_nodup _ _ _ _ Hnd En).
        destruct (struct_element pushf st idx x) as [st1| |p] eqn:Es; cbn [bind]; try reflexivity.
        destruct (struct_element_ok _ _ _ _ Es) as (m' & cb & cb' & _ & Hn' & _ & ->). cbn [fst snd] in *.
        pose proof (names_of_meta _ _ (map_fst_update _ _ _ _ cb' Hn')) as En'.
        rewrite (IH (S idx) _); cbn [fst]; rewrite En'; [reflexivity|exact Hnd].
      + rewrite skipn_all2 by (unfold names_of; rewrite map_length; lia). reflexivity.
  Qed.
End Order.

Theorem push_struct_perm fields fields' b b' : Permutation fields fields' ->
  push (VStruct fields) b = Ok b' -> push (VStruct fields') b = Ok b'.
Proof.
  intros Hp H. destruct b as [v vals len|k v vals|k v offs data|k v offs m e|len v cs]; cbn [push] in *; try discriminate H;
    try (rewrite prim_value_nonscalar in H by exact I; discriminate H).
  all: try (exfalso; match type of H with context [is_utf8_kind ?kk] => destruct (is_utf8_kind kk); [discriminate H|] end; cbn [binary_of_value bind] in H; discriminate H).
  apply bind_ok in H as (v' & Hv & H). apply bind_ok in H as (st & Hl & H). rewrite Hv. cbn [bind].
  rewrite (struct_loop_perm push fields fields' Hp _ st); [exact H| |exact Hl]. cbn [fst snd]. apply repeat_length.
Qed.

Corollary push_struct_perm_iff fields fields' b b' : Permutation fields fields' ->
  (push (VStruct fields) b = Ok b' <-> push (VStruct fields') b = Ok b').
Proof. intros Hp. split; apply push_struct_perm; [exact Hp|apply Permutation_sym; exact Hp]. Qed.

Theorem push_tuple_is_struct l len v cs : NoDup (names_of cs) ->
  push (VTuple l) (BdStruct len v cs) = push (VStruct (combine (names_of cs) l)) (BdStruct len v cs).
Proof. intros Hnd. cbn [push]. rewrite (tuple_is_struct push l 0 (cs, repeat false (length cs)) Hnd). reflexivity. Qed.

