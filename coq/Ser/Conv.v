(* C05: scalar conversions. Writing: IntBuilder (I::try_from on every integer width, bool, char),
   null into non-nullable, end-of-record checks - these are the builder model's prim_value /
   set_validity / finish_record (Ser/Builder.v). Reading: IntegerDeserializer / BoolDeserializer
   (integer_impls.rs: try_into on every narrowing; bool = != 0; char through u32 and
   char::from_u32). *)
From Verif Require Export Builder.
Local Open Scope Z_scope.

Inductive Req := RInt (k : IntKind) | RBool | RChar | RF32 | RF64 | RStr.
Inductive DVal := VdInt (z : Z) | VdBool (v : bool) | VdChar (c : Z).

Definition valid_char (c : Z) : bool := ((0 <=? c) && (c <? 55296)) || ((57344 <=? c) && (c <? 1114112)).

(* reading the stored integer z of an integer column as the requested Rust type *)
Definition conv_de_int (req : Req) (z : Z) : Outcome DVal :=
  match req with
  | RInt k => if in_int k z then Ok (VdInt z) else Err
  | RBool => Ok (VdBool (negb (z =? 0)))
  | RChar => if in_int U32 z && valid_char z then Ok (VdChar z) else Err
  | RF32 | RF64 | RStr => Err                      (* not implemented by the integer reader *)
  end.
(* reading a Boolean column *)
Definition conv_de_bool (req : Req) (v : bool) : Outcome DVal :=
  match req with
  | RInt _ => Ok (VdInt (if v then 1 else 0))
  | RBool => Ok (VdBool v)
  | _ => Err
  end.

(* reading a Float32 / Float64 column (col32 = the column is Float32) as f32 / f64 (req32 = an f32 is requested): the same width is
   handed out bit for bit, the other width through the cast of FloatOfInt.v (`as f64` is exact, `as f32` rounds to nearest, ties to even) *)
Definition conv_de_float (col32 req32 : bool) (bits : Z) : Z :=
  match col32, req32 with
  | true, true | false, false => bits
  | true, false => f64_of_f32 bits
  | false, true => f32_of_f64 bits
  end.

Definition dval_eqb (a c : DVal) : bool :=
  match a, c with
  | VdInt x, VdInt y | VdChar x, VdChar y => x =? y
  | VdBool x, VdBool y => Bool.eqb x y
  | _, _ => false
  end.

(* the exact value a DVal denotes *)
Definition denote (d : DVal) : Z := match d with VdInt z | VdChar z => z | VdBool v => if v then 1 else 0 end.
