(* C01: the builder model refines the documented mapping.  A successful push of a serde value
   appends exactly the logical value `interp` assigns to it - to the logical content (decode) of
   the arrays the builder would produce - and changes no earlier row.  Core kinds (Boolean,
   integers, Utf8/LargeUtf8, List/LargeList, Struct; nullable or not; any nesting). *)
From Verif Require Import Builder Builder_proofs Bits_proofs Reader_proofs Decode_proofs.
Require Import ZifyBool ZifyN ZifyNat.
Local Open Scope nat_scope.

Definition content (b : Builder) : option (list LVal) := decode (into_array b).

(* ---------------- appending one row to each kind of buffer ---------------- *)
Lemma apply_validity_snoc v (vals lvs : list LVal) valid x v' :
  ValOk v (length vals) -> apply_validity (some_bitmap v) vals = Some lvs ->
  set_validity v (length vals) valid = Ok v' ->
  apply_validity (some_bitmap v') (vals ++ [x]) = Some (lvs ++ [if valid then x else LNull]).
Proof.
  intros Hv Hd Hs. destruct v as [buf|]; cbn [ValOk set_validity some_bitmap] in *.
  - destruct Hv as (bits & Hl & ->). injection Hs as <-. cbn [some_bitmap].
    rewrite apply_validity_pack in Hd by exact Hl. injection Hd as <-.
    rewrite <- Hl, set_bit_pack.
    rewrite apply_validity_pack by (rewrite !app_length; cbn; lia).
    rewrite combine_snoc by exact Hl. rewrite map_app. reflexivity.
  - destruct valid; [|discriminate]. injection Hs as <-. cbn [some_bitmap apply_validity] in *.
    injection Hd as <-. reflexivity.
Qed.

(* serialize_default: the validity bit is cleared when there is a bitmap; otherwise the placeholder is visible *)
Lemma apply_validity_snoc_default v (vals lvs : list LVal) x :
  ValOk v (length vals) -> apply_validity (some_bitmap v) vals = Some lvs ->
  apply_validity (some_bitmap (set_validity_default v (length vals))) (vals ++ [x])
  = Some (lvs ++ [match v with Some _ => LNull | None => x end]).
Proof.
  intros Hv Hd. destruct v as [buf|]; cbn [set_validity_default].
  - apply (apply_validity_snoc (Some buf) vals lvs false x _ Hv Hd). reflexivity.
  - cbn [some_bitmap apply_validity] in *. injection Hd as <-. reflexivity.
Qed.

Lemma sub_list_app {A} (l ext : list A) s n x : sub_list l s n = Some x -> sub_list (l ++ ext) s n = Some x.
Proof.
  unfold sub_list. destruct (Nat.leb_spec (s + n) (length l)) as [H|]; [|discriminate]. intros E. injection E as <-.
  rewrite app_length. destruct (Nat.leb_spec (s + n) (length l + length ext)); [|lia].
  f_equal. rewrite skipn_app. rewrite firstn_app. rewrite skipn_length.
  replace (n - (length l - s)) with 0 by lia. rewrite firstn_O, app_nil_r. reflexivity.
Qed.

Lemma ranges_go_snoc {A} (l ext : list A) : forall rest o0 rs,
  ranges_go l o0 rest = Some rs -> last (o0 :: rest) 0%Z = Z.of_nat (length l) ->
  ranges_go (l ++ ext) o0 (rest ++ [Z.of_nat (length l + length ext)]) = Some (rs ++ [ext]).
Proof.
  induction rest as [|o1 rest IH]; intros o0 rs H Hl.
  - cbn [ranges_go] in H. injection H as <-. cbn [last] in Hl. subst o0. cbn [app ranges_go].
    destruct (Z.leb_spec 0 (Z.of_nat (length l))); [|lia].
    destruct (Z.leb_spec (Z.of_nat (length l)) (Z.of_nat (length l + length ext))); [|lia]. cbn [andb].
    unfold sub_list. rewrite Nat2Z.id. replace (Z.to_nat (Z.of_nat (length l + length ext) - Z.of_nat (length l))) with (length ext) by lia.
    rewrite app_length. rewrite Nat.leb_refl. rewrite skipn_app, skipn_all, Nat.sub_diag. cbn [app skipn]. rewrite firstn_all. reflexivity.
  - cbn [ranges_go app] in *. destruct ((0 <=? o0)%Z && (o0 <=? o1)%Z); [|discriminate].
    destruct (sub_list l (Z.to_nat o0) (Z.to_nat (o1 - o0))) as [x|] eqn:Ex; [|discriminate].
    destruct (ranges_go l o1 rest) as [r|] eqn:Er; [|discriminate]. injection H as <-.
    rewrite (sub_list_app _ ext _ _ _ Ex).
    rewrite (IH o1 r Er) by (destruct rest; exact Hl). reflexivity.
Qed.

Lemma ranges_snoc {A} (l ext : list A) offs rs :
  ranges l offs = Some rs -> last offs 0%Z = Z.of_nat (length l) ->
  ranges (l ++ ext) (offs ++ [Z.of_nat (length l + length ext)]) = Some (rs ++ [ext]).
Proof.
  destruct offs as [|o0 rest]; [rewrite ranges_nil; discriminate|]. rewrite ranges_eq. intros H Hl.
  cbn [app]. rewrite ranges_eq. apply ranges_go_snoc; assumption.
Qed.

(* a struct's rows: one more value in every column is one more row *)
Lemma struct_rows_snoc : forall n cols rows (news : list LVal),
  struct_rows n cols = Some rows -> Forall (fun c : bytes * list LVal => length (snd c) = n) cols -> length news = length cols ->
  struct_rows (S n) (map (fun cx : (bytes * list LVal) * LVal => (fst (fst cx), snd (fst cx) ++ [snd cx])) (combine cols news))
  = Some (rows ++ [map (fun cx : (bytes * list LVal) * LVal => (fst (fst cx), snd cx)) (combine cols news)]).
Proof.
  induction n as [|n IH]; intros cols rows news H Hlen Hn.
  - cbn [struct_rows] in H. injection H as <-. cbn [struct_rows app].
    assert (E : mapM_opt (fun c : bytes * list LVal => match snd c with v :: _ => Some (fst c, v) | [] => None end)
                  (map (fun cx : (bytes * list LVal) * LVal => (fst (fst cx), snd (fst cx) ++ [snd cx])) (combine cols news))
                = Some (map (fun cx : (bytes * list LVal) * LVal => (fst (fst cx), snd cx)) (combine cols news))).
    { revert news Hn. induction Hlen as [|[k l] r Hk _ IHr]; intros [|x news] Hn; cbn in Hn; try discriminate; [reflexivity|].
      cbn [combine map mapM_opt fst snd] in *. destruct l; [|discriminate Hk]. cbn [app]. rewrite IHr by lia. reflexivity. }
    rewrite E. reflexivity.
  - cbn [struct_rows] in H.
    match type of H with match ?g with _ => _ end = _ => destruct g as [r0|] eqn:E0; [|discriminate] end.
    destruct (struct_rows n _) as [rest|] eqn:Er; [|discriminate]. injection H as <-.
    change (struct_rows (S (S n)) ?c) with
      (match mapM_opt (fun c0 : bytes * list LVal => match snd c0 with v :: _ => Some (fst c0, v) | [] => None end) c,
             struct_rows (S n) (map (fun c0 : bytes * list LVal => (fst c0, tl (snd c0))) c) with
       | Some row, Some rest => Some (row :: rest) | _, _ => None end).
    assert (E1 : mapM_opt (fun c0 : bytes * list LVal => match snd c0 with v :: _ => Some (fst c0, v) | [] => None end)
                   (map (fun cx : (bytes * list LVal) * LVal => (fst (fst cx), snd (fst cx) ++ [snd cx])) (combine cols news)) = Some r0).
    { rewrite <- E0. clear - Hlen Hn. revert news Hn. induction Hlen as [|[k l] r Hk _ IHr]; intros [|x news] Hn; cbn in Hn; try discriminate; [reflexivity|].
      cbn [combine map mapM_opt fst snd] in *. destruct l as [|y l]; [discriminate Hk|]. cbn [app]. rewrite IHr by lia. reflexivity. }
    rewrite E1.
    assert (E2 : map (fun c0 : bytes * list LVal => (fst c0, tl (snd c0)))
                   (map (fun cx : (bytes * list LVal) * LVal => (fst (fst cx), snd (fst cx) ++ [snd cx])) (combine cols news))
                 = map (fun cx : (bytes * list LVal) * LVal => (fst (fst cx), snd (fst cx) ++ [snd cx]))
                       (combine (map (fun c0 : bytes * list LVal => (fst c0, tl (snd c0))) cols) news)).
    { clear - Hlen Hn. revert news Hn. induction Hlen as [|[k l] r Hk _ IHr]; intros [|x news] Hn; cbn in Hn; try discriminate; [reflexivity|].
      cbn [combine map fst snd] in *. destruct l as [|y l]; [discriminate Hk|]. cbn [app tl]. rewrite IHr by lia. reflexivity. }
    rewrite E2. rewrite (IH _ rest news Er).
    + cbn [app]. f_equal. f_equal. f_equal. f_equal.
      clear - Hn. revert news Hn. induction cols as [|[k l] r IHr]; intros [|x news] Hn; cbn in Hn; try discriminate; [reflexivity|].
      cbn [combine map fst snd]. rewrite IHr by lia. reflexivity.
    + apply Forall_map. eapply Forall_impl; [|exact Hlen]. intros [k l] Hk. cbn [snd] in *. destruct l; [discriminate|]. cbn in *. lia.
    + rewrite map_length. exact Hn.
Qed.

(* ---------------- one more row, per kind of builder ---------------- *)
(* the effect of a validity update on the logical content, whatever the values are *)
Definition VStep (v : option (list N)) (n : nat) (v' : option (list N)) (valid : bool) : Prop :=
  forall (vals lvs : list LVal) x, length vals = n -> apply_validity (some_bitmap v) vals = Some lvs ->
    apply_validity (some_bitmap v') (vals ++ [x]) = Some (lvs ++ [if valid then x else LNull]).

Lemma VStep_set v n valid v' : ValOk v n -> set_validity v n valid = Ok v' -> VStep v n v' valid.
Proof. intros Hv Hs vals lvs x Hl Hd. subst n. eapply apply_validity_snoc; eassumption. Qed.

Lemma VStep_default v n : ValOk v n ->
  VStep v n (set_validity_default v n) (match v with Some _ => false | None => true end).
Proof.
  intros Hv vals lvs x Hl Hd. subst n. rewrite (apply_validity_snoc_default v vals lvs x Hv Hd). destruct v; reflexivity.
Qed.

Lemma ext_bool v vals len lvs v' valid x :
  WfB (BdBool v vals len) -> content (BdBool v vals len) = Some lvs -> VStep v len v' valid ->
  content (BdBool v' (set_bit vals len x) (S len)) = Some (lvs ++ [if valid then LBool x else LNull]).
Proof.
  intros [Hv (bits & Hl & ->)] Hc Hs. unfold content in *. cbn [into_array decode] in *.
  rewrite <- Hl in Hc at 1. rewrite bits_of_pack in Hc.
  rewrite <- Hl at 1. rewrite set_bit_pack. replace (S len) with (length (bits ++ [x])) by (rewrite app_length; cbn; lia).
  rewrite bits_of_pack, map_app. cbn [map].
  apply (Hs (map LBool bits) lvs (LBool x)); [rewrite map_length; exact Hl|exact Hc].
Qed.

Lemma ext_prim k v vals lvs v' valid z :
  content (BdPrim k v vals) = Some lvs -> VStep v (length vals) v' valid ->
  content (BdPrim k v' (vals ++ [z])) = Some (lvs ++ [if valid then LInt z else LNull]).
Proof.
  intros Hc Hs. unfold content in *. cbn [into_array decode] in *. rewrite map_app. cbn [map].
  apply (Hs (map LInt vals) lvs (LInt z)); [apply map_length|exact Hc].
Qed.

Lemma ext_utf8 k v offs data lvs v' valid s :
  OffsOk offs (length data) -> content (BdUtf8 k v offs data) = Some lvs -> VStep v (length offs - 1) v' valid ->
  content (BdUtf8 k v' (offs ++ [Z.of_nat (length data + length s)]) (data ++ s)) = Some (lvs ++ [if valid then LBytes s else LNull]).
Proof.
  intros [Hne Hl] Hc Hs. unfold content in *. cbn [into_array decode] in *.
  destruct (ranges data offs) as [rs|] eqn:Er; [|discriminate].
  rewrite (ranges_snoc data s offs rs Er Hl). rewrite map_app. cbn [map].
  apply (Hs (map LBytes rs) lvs (LBytes s)); [rewrite map_length; apply (ranges_length _ _ _ Er)|exact Hc].
Qed.

Lemma ext_list k v offs m e lvs v' valid e' es new :
  last offs 0%Z = Z.of_nat (length es) -> content (BdList k v offs m e) = Some lvs ->
  content e = Some es -> content e' = Some (es ++ new) -> VStep v (length offs - 1) v' valid ->
  content (BdList k v' (offs ++ [Z.of_nat (length es + length new)]) m e') = Some (lvs ++ [if valid then LList new else LNull]).
Proof.
  intros Hl Hc He He' Hs. unfold content in *. cbn [into_array decode] in *. rewrite He in Hc. rewrite He'.
  destruct (ranges es offs) as [rs|] eqn:Er; [|discriminate].
  rewrite (ranges_snoc es new offs rs Er Hl). rewrite map_app. cbn [map].
  apply (Hs (map LList rs) lvs (LList new)); [rewrite map_length; apply (ranges_length _ _ _ Er)|exact Hc].
Qed.

(* structs *)
Definition Ext (c c' : Builder) (x : LVal) : Prop := exists col, content c = Some col /\ content c' = Some (col ++ [x]).

Lemma decode_cols_into (cs : list (Meta * Builder)) :
  decode_cols (map (fun mb => (fst mb, into_array (snd mb))) cs) =
  (fix go (cs : list (Meta * Builder)) : option (list (bytes * list LVal)) :=
     match cs with
     | [] => Some []
     | (m, c) :: r => match content c, go r with Some vs, Some rest => Some ((m_name m, vs) :: rest) | _, _ => None end
     end) cs.
Proof. induction cs as [|[m c] r IH]; [reflexivity|]. cbn [map decode_cols fst snd]. rewrite IH. reflexivity. Qed.

Lemma ext_cols : forall cs news cs' cols,
  length news = length cs ->
  Forall2 (fun (cx : (Meta * Builder) * LVal) (mc' : Meta * Builder) => fst mc' = fst (fst cx) /\ Ext (snd (fst cx)) (snd mc') (snd cx)) (combine cs news) cs' ->
  decode_cols (map (fun mb => (fst mb, into_array (snd mb))) cs) = Some cols ->
  decode_cols (map (fun mb => (fst mb, into_array (snd mb))) cs') =
    Some (map (fun cx : (bytes * list LVal) * LVal => (fst (fst cx), snd (fst cx) ++ [snd cx])) (combine cols news))
  /\ map fst cols = map (fun mb : Meta * Builder => m_name (fst mb)) cs.
Proof.
  induction cs as [|[m c] r IH]; intros news cs' cols Hn HF Hd; destruct news as [|x news]; cbn in Hn; try discriminate.
  - cbn in HF. inversion HF; subst. cbn in Hd. injection Hd as <-. split; reflexivity.
  - cbn [combine] in HF. inversion HF as [|cx mc' l l' [Hm (col & Hc & Hc')] HF']; subst. destruct mc' as [m' c']. cbn [fst snd] in *. subst m'.
    cbn [map decode_cols fst snd] in *. fold (content c) in Hd. fold (content c'). rewrite Hc in Hd. rewrite Hc'.
    destruct (decode_cols (map (fun mb => (fst mb, into_array (snd mb))) r)) as [rest|] eqn:Er; [|discriminate]. injection Hd as <-.
    destruct (IH news l' rest ltac:(lia) HF' eq_refl) as [E1 E2]. rewrite E1. cbn [combine map fst snd]. rewrite E2. split; reflexivity.
Qed.

Lemma cols_lengths : forall cs cols len, ChildrenOk len cs ->
  decode_cols (map (fun mb => (fst mb, into_array (snd mb))) cs) = Some cols ->
  Forall (fun c : bytes * list LVal => length (snd c) = len) cols /\ length cols = length cs.
Proof.
  induction cs as [|[m c] r IH]; intros cols len Hc Hd.
  - cbn in Hd. injection Hd as <-. split; [constructor|reflexivity].
  - cbn [map decode_cols fst snd] in Hd. destruct (decode (into_array c)) as [vs|] eqn:Ev; [|discriminate].
    destruct (decode_cols _) as [rest|] eqn:Er; [|discriminate]. injection Hd as <-.
    inversion Hc as [|x l [Hw Hr] Hc']; subst. cbn [snd] in *. destruct (IH rest (rows c) Hc' eq_refl) as [E1 E2].
    split; [constructor; [cbn [snd]; rewrite (decode_length _ _ Ev), arr_len_into_array; reflexivity|exact E1]|cbn; lia].
Qed.

Lemma ext_struct len v cs lvs v' valid news cs' :
  ChildrenOk len cs -> content (BdStruct len v cs) = Some lvs -> VStep v len v' valid ->
  length news = length cs ->
  Forall2 (fun (cx : (Meta * Builder) * LVal) (mc' : Meta * Builder) => fst mc' = fst (fst cx) /\ Ext (snd (fst cx)) (snd mc') (snd cx)) (combine cs news) cs' ->
  content (BdStruct (S len) v' cs') =
    Some (lvs ++ [if valid then LStruct (combine (map (fun mb : Meta * Builder => m_name (fst mb)) cs) news) else LNull]).
Proof.
  intros Hc Hd Hs Hn HF. unfold content in *. cbn [into_array] in *. rewrite decode_struct in *.
  destruct (decode_cols _) as [cols|] eqn:Ec; [|discriminate].
  destruct (struct_rows len cols) as [rows|] eqn:Er; [|discriminate].
  destruct (ext_cols cs news cs' cols Hn HF Ec) as [E1 E2]. rewrite E1.
  destruct (cols_lengths cs cols len Hc Ec) as [Hl Hlc].
  rewrite (struct_rows_snoc len cols rows news Er Hl) by lia. rewrite map_app. cbn [map].
  replace (map (fun cx : (bytes * list LVal) * LVal => (fst (fst cx), snd cx)) (combine cols news))
    with (combine (map (fun mb : Meta * Builder => m_name (fst mb)) cs) news).
  - apply (Hs (map LStruct rows) lvs); [rewrite map_length; apply (struct_rows_length _ _ _ Er)|exact Hd].
  - rewrite <- E2. clear. revert news. induction cols as [|[k l] r IH]; intros [|x news]; try reflexivity. cbn. rewrite IH. reflexivity.
Qed.

(* ---------------- placeholder rows and nulls ---------------- *)
Lemma dup_last_eq offs n : last offs 0%Z = Z.of_nat n -> duplicate_last offs = offs ++ [Z.of_nat (n + 0)].
Proof. intros H. unfold duplicate_last. rewrite H, Nat.add_0_r. reflexivity. Qed.

Lemma content_list_inv k v offs m e lvs : content (BdList k v offs m e) = Some lvs -> exists es, content e = Some es.
Proof. unfold content. cbn [into_array decode]. destruct (decode (into_array e)) as [es|]; [eauto|discriminate]. Qed.

Lemma rows_content b lvs : content b = Some lvs -> length lvs = rows b.
Proof. intros H. rewrite <- arr_len_into_array. apply decode_length. exact H. Qed.

Lemma children_news (g : Builder -> Builder) : forall cs cols,
  Forall (fun mb : Meta * Builder => forall lvs, content (snd mb) = Some lvs -> exists d, content (g (snd mb)) = Some (lvs ++ [d])) cs ->
  decode_cols (map (fun mb => (fst mb, into_array (snd mb))) cs) = Some cols ->
  exists news, length news = length cs /\
    Forall2 (fun (cx : (Meta * Builder) * LVal) (mc' : Meta * Builder) => fst mc' = fst (fst cx) /\ Ext (snd (fst cx)) (snd mc') (snd cx))
            (combine cs news) (map (fun mb => (fst mb, g (snd mb))) cs).
Proof.
  induction cs as [|[m c] r IH]; intros cols HF Hd.
  - exists []. split; [reflexivity|constructor].
  - cbn [map decode_cols fst snd] in Hd. destruct (decode (into_array c)) as [vs|] eqn:Ev; [|discriminate].
    destruct (decode_cols _) as [rest|] eqn:Er; [|discriminate].
    inversion HF as [|x l Hx HF']; subst. cbn [snd] in Hx. destruct (Hx vs Ev) as [d Hd'].
    destruct (IH rest HF' eq_refl) as (news & Hn & H2). exists (d :: news). split; [cbn; lia|].
    cbn [combine map]. constructor; [|exact H2]. cbn [fst snd]. split; [reflexivity|]. exists vs. split; [exact Ev|exact Hd'].
Qed.

Lemma content_struct_cols len v cs lvs : content (BdStruct len v cs) = Some lvs ->
  exists cols, decode_cols (map (fun mb => (fst mb, into_array (snd mb))) cs) = Some cols.
Proof.
  unfold content. cbn [into_array]. rewrite decode_struct. destruct (decode_cols _) as [cols|]; [eauto|discriminate].
Qed.

Theorem push_default_ext : forall b, WfB b -> forall lvs, content b = Some lvs ->
  exists d, content (push_default b) = Some (lvs ++ [d]).
Proof.
  intros b. induction b as [v vals len|k v vals|k v offs data|k v offs m e IHe|len v fs IH] using Builder_ind'; intros Hw lvs Hc; cbn [push_default].
  - eexists. exact (ext_bool v vals len lvs _ _ false Hw Hc (VStep_default v len (proj1 Hw))).
  - eexists. exact (ext_prim k v vals lvs _ _ 0%Z Hc (VStep_default v _ Hw)).
  - destruct Hw as [Hv Ho]. rewrite (dup_last_eq offs (length data) (proj2 Ho)).
    pose proof (ext_utf8 k v offs data lvs _ _ [] Ho Hc (VStep_default v _ Hv)) as E. rewrite app_nil_r in E. eexists. exact E.
  - destruct Hw as (Hv & Ho & He). destruct (content_list_inv _ _ _ _ _ _ Hc) as [es Hes].
    pose proof (rows_content _ _ Hes) as Hr. rewrite <- Hr in Ho.
    rewrite (dup_last_eq offs (length es) (proj2 Ho)). eexists.
    assert (Hes' : content e = Some (es ++ [])) by (rewrite app_nil_r; exact Hes).
    exact (ext_list k v offs m e lvs _ _ e es [] (proj2 Ho) Hc Hes Hes' (VStep_default v _ Hv)).
  - apply WfB_struct in Hw as [Hv Hch]. destruct (content_struct_cols _ _ _ _ Hc) as [cols Hcols].
    assert (HF : Forall (fun mb : Meta * Builder => forall lvs, content (snd mb) = Some lvs -> exists d, content (push_default (snd mb)) = Some (lvs ++ [d])) fs).
    { pose proof Hch as Hch'. unfold ChildrenOk in Hch'. rewrite Forall_forall in *. intros mb Hin. apply (IH mb Hin). apply (Hch' mb Hin). }
    destruct (children_news push_default fs cols HF Hcols) as (news & Hn & H2). eexists.
    exact (ext_struct len v fs lvs _ _ news _ Hch Hc (VStep_default v len Hv) Hn H2).
Qed.

(* serialize_none / serialize_unit: accepted exactly by nullable builders, appends a null *)
Theorem push_none_ext b b' lvs : WfB b -> content b = Some lvs -> push_none b = Ok b' ->
  content b' = Some (lvs ++ [LNull]) /\
  match b with BdBool v _ _ | BdPrim _ v _ | BdUtf8 _ v _ _ | BdList _ v _ _ _ | BdStruct _ v _ => v <> None end.
Proof.
  destruct b as [v vals len|k v vals|k v offs data|k v offs m e|len v fs]; cbn [push_none]; intros Hw Hc H;
    apply bind_ok in H as (v' & Hs & H); injection H as <-;
    (split; [|destruct v; [discriminate|cbn in Hs; discriminate]]).
  - exact (ext_bool v vals len lvs v' false false Hw Hc (VStep_set _ _ _ _ (proj1 Hw) Hs)).
  - exact (ext_prim k v vals lvs v' false 0%Z Hc (VStep_set _ _ _ _ Hw Hs)).
  - destruct Hw as [Hv Ho]. rewrite (dup_last_eq offs (length data) (proj2 Ho)).
    pose proof (ext_utf8 k v offs data lvs v' false [] Ho Hc (VStep_set _ _ _ _ Hv Hs)) as E. rewrite app_nil_r in E. exact E.
  - destruct Hw as (Hv & Ho & He). destruct (content_list_inv _ _ _ _ _ _ Hc) as [es Hes].
    pose proof (rows_content _ _ Hes) as Hr. rewrite <- Hr in Ho. rewrite (dup_last_eq offs (length es) (proj2 Ho)).
    assert (Hes' : content e = Some (es ++ [])) by (rewrite app_nil_r; exact Hes).
    exact (ext_list k v offs m e lvs v' false e es [] (proj2 Ho) Hc Hes Hes' (VStep_set _ _ _ _ Hv Hs)).
  - apply WfB_struct in Hw as [Hv Hch]. destruct (content_struct_cols _ _ _ _ Hc) as [cols Hcols].
    assert (HF : Forall (fun mb : Meta * Builder => forall lvs, content (snd mb) = Some lvs -> exists d, content (push_default (snd mb)) = Some (lvs ++ [d])) fs).
    { pose proof Hch as Hch'. unfold ChildrenOk in Hch'. rewrite Forall_forall in *. intros mb Hin. apply push_default_ext. apply (Hch' mb Hin). }
    destruct (children_news push_default fs cols HF Hcols) as (news & Hn & H2).
    exact (ext_struct len v fs lvs v' false news _ Hch Hc (VStep_set v len false v' Hv Hs) Hn H2).
Qed.

(* ---------------- the builder of a field ---------------- *)
Definition vnull (f : Field) (v : option (list N)) : Prop :=
  fnullable' f = match v with Some _ => true | None => false end.

Fixpoint shape (f : Field) (b : Builder) {struct b} : Prop :=
  match b with
  | BdBool v _ _ => fdt' f = DBool /\ vnull f v
  | BdPrim k v _ => fdt' f = DPrim k /\ vnull f v
  | BdUtf8 k v _ _ => fdt' f = DBytes k /\ vnull f v
  | BdList k v _ m e => exists cf, fdt' f = DList k cf /\ m = meta_of cf /\ vnull f v /\ shape cf e
  | BdStruct _ v cs =>
    exists fs, fdt' f = DStruct fs /\ vnull f v /\ NoDup (map fname' fs) /\
      (fix go (fs : list Field) (cs : list (Meta * Builder)) {struct cs} : Prop :=
         match fs, cs with
         | [], [] => True
         | cf :: fs', (m, c) :: cs' => m = meta_of cf /\ shape cf c /\ go fs' cs'
         | _, _ => False
         end) fs cs
  end.

Definition ShapeCh (fs : list Field) (cs : list (Meta * Builder)) : Prop :=
  Forall2 (fun cf (mc : Meta * Builder) => fst mc = meta_of cf /\ shape cf (snd mc)) fs cs.

Lemma shape_struct f len v cs :
  shape f (BdStruct len v cs) <-> exists fs, fdt' f = DStruct fs /\ vnull f v /\ NoDup (map fname' fs) /\ ShapeCh fs cs.
Proof.
  cbn [shape]. split; intros (fs & Hd & Hv & Hn & Hg); exists fs; repeat split; try assumption.
  - clear Hd Hn. revert fs Hg. induction cs as [|[m c] r IH]; intros [|cf fs'] Hg; try contradiction; [constructor|].
    destruct Hg as (Hm & Hs & Hg). constructor; [split; assumption|apply IH; exact Hg].
  - clear Hd Hn. induction Hg as [|cf [m c] fs' r [Hm Hs] _ IH]; [exact I|]. cbn [fst snd] in *. repeat split; assumption.
Qed.

(* a push that succeeds appends exactly the documented logical value *)
Definition Sound (pushf : Value -> Builder -> Outcome Builder) (x : Value) : Prop :=
  forall f b b' lvs, shape f b -> WfB b -> content b = Some lvs -> pushf x b = Ok b' ->
    exists lv, interp f x = IOk lv /\ content b' = Some (lvs ++ [lv]) /\ shape f b'.

Lemma vnull_set f v n valid v' : vnull f v -> set_validity v n valid = Ok v' -> vnull f v'.
Proof. unfold vnull. destruct v; cbn; intros H E; [injection E as <-; exact H|destruct valid; [injection E as <-; exact H|discriminate]]. Qed.

(* leaves *)
Lemma leaf_bool f v vals len lvs x b' :
  shape f (BdBool v vals len) -> WfB (BdBool v vals len) -> content (BdBool v vals len) = Some lvs ->
  (do val' <- set_validity v len true ;; Ok (BdBool val' (set_bit vals len x) (S len))) = Ok b' ->
  content b' = Some (lvs ++ [LBool x]) /\ shape f b'.
Proof.
  intros [Hd Hv] Hw Hc H. apply bind_ok in H as (v' & Hs & H). injection H as <-. split.
  - exact (ext_bool v vals len lvs v' true x Hw Hc (VStep_set _ _ _ _ (proj1 Hw) Hs)).
  - split; [exact Hd|eapply vnull_set; eassumption].
Qed.

Lemma leaf_prim f k v vals lvs z b' :
  shape f (BdPrim k v vals) -> WfB (BdPrim k v vals) -> content (BdPrim k v vals) = Some lvs ->
  (do val' <- set_validity v (length vals) true ;; Ok (BdPrim k val' (vals ++ [z]))) = Ok b' ->
  content b' = Some (lvs ++ [LInt z]) /\ shape f b'.
Proof.
  intros [Hd Hv] Hw Hc H. apply bind_ok in H as (v' & Hs & H). injection H as <-. split.
  - exact (ext_prim k v vals lvs v' true z Hc (VStep_set _ _ _ _ Hw Hs)).
  - split; [exact Hd|eapply vnull_set; eassumption].
Qed.

Lemma increment_dup wide offs n offs' total : OffsOk offs total ->
  increment_last wide (duplicate_last offs) n = Ok offs' -> offs' = offs ++ [Z.of_nat (total + n)].
Proof.
  intros [Hne Hl]. unfold increment_last, duplicate_last. destruct (negb _); [discriminate|].
  rewrite last_last, removelast_last. destruct (in_int _ _); [|discriminate]. intros H. injection H as <-.
  f_equal. f_equal. lia.
Qed.

Lemma leaf_utf8 f k v offs data lvs s b' :
  shape f (BdUtf8 k v offs data) -> WfB (BdUtf8 k v offs data) -> content (BdUtf8 k v offs data) = Some lvs ->
  (do val' <- set_validity v (length offs - 1) true ;;
   do offs' <- increment_last (is_wide k) (duplicate_last offs) (length s) ;;
   Ok (BdUtf8 k val' offs' (data ++ s))) = Ok b' ->
  content b' = Some (lvs ++ [LBytes s]) /\ shape f b'.
Proof.
  intros (Hd & Hv) [Hwv Ho] Hc H. apply bind_ok in H as (v' & Hs & H). apply bind_ok in H as (offs' & Hi & H). injection H as <-.
  rewrite (increment_dup _ _ _ _ _ Ho Hi). split.
  - exact (ext_utf8 k v offs data lvs v' true s Ho Hc (VStep_set _ _ _ _ Hwv Hs)).
  - repeat split; try assumption. eapply vnull_set; eassumption.
Qed.

Lemma prim_value_scalar k x z : prim_value k x = Ok z -> prim_scalar k x = IOk (LInt z).
Proof.
  destruct k as [i| | | | | |u|u|u tz|u|p sc]; destruct x; cbn [prim_value prim_scalar]; try discriminate;
    try (match goal with k0 : IntKind |- _ => destruct k0; try discriminate end);
    try (match goal with |- (if ?c then _ else _) = _ -> _ => destruct c; [|discriminate] end);
    intros H; injection H as <-; reflexivity.
Qed.

(* ---------------- lists ---------------- *)
Lemma increment_last_removelast wide offs n offs' : offs <> [] -> increment_last wide offs n = Ok offs' ->
  removelast offs' = removelast offs /\ offs' <> [].
Proof.
  intros Hne. unfold increment_last. destruct (negb _); [discriminate|]. destruct (in_int _ _); [|discriminate].
  intros H. injection H as <-. rewrite removelast_last. split; [reflexivity|]. destruct (removelast offs); discriminate.
Qed.

Lemma list_loop_prefix pushf wide : forall l offs e offs' e', offs <> [] ->
  list_loop pushf wide l offs e = Ok (offs', e') -> removelast offs' = removelast offs.
Proof.
  induction l as [|x r IH]; intros offs e offs' e' Hne H; cbn [list_loop] in H.
  - injection H as <- <-. reflexivity.
  - apply bind_ok in H as (offs1 & Hi & H). apply bind_ok in H as (e1 & Hp & H).
    destruct (increment_last_removelast _ _ _ _ Hne Hi) as [E1 Hne1]. rewrite (IH _ _ _ _ Hne1 H). exact E1.
Qed.

Lemma iall_cons_ok r rest v vs : r = IOk v -> iall rest = Some (Some vs) -> iall (r :: rest) = Some (Some (v :: vs)).
Proof. intros -> H. cbn [iall]. rewrite H. reflexivity. Qed.

Lemma iall_length : forall l vs, iall l = Some (Some vs) -> length vs = length l.
Proof.
  induction l as [|r rest IH]; intros vs H; cbn [iall] in H; [injection H as <-; reflexivity|].
  destruct r; try discriminate; destruct (iall rest) as [[vs'|]|]; try discriminate. injection H as <-. cbn. f_equal. apply IH. reflexivity.
Qed.

Lemma list_loop_sound pushf cf wide : forall l, Forall (Sound pushf) l -> Forall (PushOk pushf) l ->
  forall offs e offs' e' es, shape cf e -> WfB e -> content e = Some es ->
    list_loop pushf wide l offs e = Ok (offs', e') ->
    exists news, iall (map (interp cf) l) = Some (Some news) /\ content e' = Some (es ++ news) /\ shape cf e' /\ WfB e'.
Proof.
  induction l as [|x r IH]; intros HS HP offs e offs' e' es Hs Hw Hc H; cbn [list_loop] in H.
  - injection H as <- <-. exists []. rewrite app_nil_r. repeat split; assumption.
  - apply bind_ok in H as (offs1 & Hi & H). apply bind_ok in H as (e1 & Hp & H).
    inversion HS as [|? ? Sx Sr]; subst. inversion HP as [|? ? Px Pr]; subst.
    destruct (Sx cf e e1 es Hs Hw Hc Hp) as (lv & Hi1 & Hc1 & Hs1). destruct (Px e e1 Hw Hp) as [Hw1 _].
    destruct (IH Sr Pr _ _ _ _ _ Hs1 Hw1 Hc1 H) as (news & Ha & Hc' & Hs' & Hw').
    exists (lv :: news). cbn [map]. split; [apply iall_cons_ok; assumption|]. rewrite <- app_assoc in Hc'. repeat split; assumption.
Qed.

Lemma push_list_sound pushf f k v offs m e l lvs b' :
  Forall (Sound pushf) l -> Forall (PushOk pushf) l ->
  shape f (BdList k v offs m e) -> WfB (BdList k v offs m e) -> content (BdList k v offs m e) = Some lvs ->
  (do val' <- set_validity v (length offs - 1) true ;;
   do oe <- list_loop pushf (list_wide k) l (duplicate_last offs) e ;;
   Ok (BdList k val' (fst oe) m (snd oe))) = Ok b' ->
  exists cf news, fdt' f = DList k cf /\ iall (map (interp cf) l) = Some (Some news) /\
                  content b' = Some (lvs ++ [LList news]) /\ shape f b'.
Proof.
  intros HS HP (cf & Hd & Hm & Hv & Hse) (Hwv & Ho & Hwe) Hc H.
  apply bind_ok in H as (v' & Hs & H). apply bind_ok in H as ([offs' e'] & Hl & H). injection H as <-. cbn [fst snd].
  destruct (content_list_inv _ _ _ _ _ _ Hc) as [es Hes].
  destruct (list_loop_sound pushf cf _ l HS HP _ _ _ _ es Hse Hwe Hes Hl) as (news & Ha & Hc' & Hs' & Hw').
  destruct (duplicate_last_ok offs _ Ho) as [Ho2 Hlen2].
  destruct (list_loop_wf pushf _ l HP _ _ _ _ Ho2 Hwe Hl) as (Ho' & _ & Hlen').
  assert (Hne2 : duplicate_last offs <> []) by (unfold duplicate_last; destruct offs; discriminate).
  pose proof (list_loop_prefix pushf _ l _ _ _ _ Hne2 Hl) as Hpre. unfold duplicate_last in Hpre. rewrite removelast_last in Hpre.
  assert (Eo : offs' = offs ++ [Z.of_nat (length es + length news)]).
  { destruct Ho' as [Hne' Hl']. rewrite (app_removelast_last 0%Z Hne'). rewrite Hpre, Hl'. f_equal. f_equal. f_equal.
    rewrite <- (rows_content _ _ Hc'), app_length. reflexivity. }
  exists cf, news. split; [exact Hd|]. split; [exact Ha|]. split.
  - rewrite Eo. pose proof (rows_content _ _ Hes) as Hr. rewrite <- Hr in Ho.
    exact (ext_list k v offs m e lvs v' true e' es news (proj2 Ho) Hc Hes Hc' (VStep_set _ _ _ _ Hwv Hs)).
  - exists cf. repeat split; try assumption. eapply vnull_set; eassumption.
Qed.

(* ---------------- records ---------------- *)
Lemma nth_error_update_nth {A} (l : list A) i x j :
  nth_error (update_nth l i x) j = if Nat.eqb i j then (if Nat.ltb j (length l) then Some x else None) else nth_error l j.
Proof.
  revert i j; induction l as [|y r IH]; intros i j; cbn [update_nth].
  - destruct (Nat.eqb i j); destruct j; reflexivity.
  - destruct i as [|i], j as [|j]; cbn [nth_error Nat.eqb]; try reflexivity.
    rewrite IH. destruct (Nat.eqb i j); [|reflexivity]. cbn [length]. destruct (Nat.ltb_spec j (length r)), (Nat.ltb_spec (S j) (S (length r))); try lia; reflexivity.
Qed.

Lemma nth_update_nth (l : list bool) i x j :
  nth j (update_nth l i x) false = if Nat.eqb i j then (if Nat.ltb j (length l) then x else false) else nth j l false.
Proof.
  revert i j; induction l as [|y r IH]; intros i j; cbn [update_nth].
  - destruct (Nat.eqb i j); destruct j; reflexivity.
  - destruct i as [|i], j as [|j]; cbn [nth Nat.eqb]; try reflexivity.
    rewrite IH. destruct (Nat.eqb i j); [|reflexivity]. cbn [length]. destruct (Nat.ltb_spec j (length r)), (Nat.ltb_spec (S j) (S (length r))); try lia; reflexivity.
Qed.

Lemma update_nth_length {A} (l : list A) i x : length (update_nth l i x) = length l.
Proof. revert i; induction l as [|y r IH]; intros [|i]; cbn; try reflexivity. f_equal. apply IH. Qed.

Lemma map_fst_update {A B} (l : list (A * B)) i a c c' : nth_error l i = Some (a, c) -> map fst (update_nth l i (a, c')) = map fst l.
Proof.
  revert i; induction l as [|[a0 c0] r IH]; intros [|i] H; cbn in *; try discriminate.
  - injection H as -> ->. reflexivity.
  - f_equal. apply IH. exact H.
Qed.

Lemma index_of_map name : forall (cs cs' : list (Meta * Builder)), map fst cs = map fst cs' -> index_of name cs = index_of name cs'.
Proof.
  induction cs as [|[m c] r IH]; intros [|[m' c'] r'] H; cbn in H; try discriminate; [reflexivity|].
  injection H as -> H. cbn [index_of]. rewrite (IH r' H). reflexivity.
Qed.

Lemma index_of_some name : forall (cs : list (Meta * Builder)) idx, index_of name cs = Some idx ->
  exists m c, nth_error cs idx = Some (m, c) /\ m_name m = name.
Proof.
  induction cs as [|[m c] r IH]; intros idx H; cbn [index_of] in H; [discriminate|].
  destruct (bytes_eqb (m_name m) name) eqn:E.
  - injection H as <-. apply bytes_eqb_eq in E. exists m, c. split; [reflexivity|exact E].
  - destruct (index_of name r) as [j|] eqn:Ej; [|discriminate]. injection H as <-. destruct (IH j eq_refl) as (m' & c' & Hn & Hm). exists m', c'. split; assumption.
Qed.

Lemma index_of_none name : forall (cs : list (Meta * Builder)) i m c, index_of name cs = None -> nth_error cs i = Some (m, c) -> m_name m <> name.
Proof.
  induction cs as [|[m0 c0] r IH]; intros i m c H Hn; [destruct i; discriminate|]. cbn [index_of] in H.
  destruct (bytes_eqb (m_name m0) name) eqn:E; [discriminate|]. destruct (index_of name r) eqn:Er; [discriminate|].
  destruct i as [|i]; cbn in Hn.
  - injection Hn as <- <-. intros Heq. apply bytes_eqb_eq in Heq. congruence.
  - eapply IH; [reflexivity|exact Hn].
Qed.

Definition by_name (name : bytes) (p : bytes * Value) : bool := bytes_eqb (fst p) name.

Definition HasContent (cs : list (Meta * Builder)) : Prop := Forall (fun mc => exists col, content (snd mc) = Some col) cs.

Definition SInv (fs : list Field) (cs0 : list (Meta * Builder)) (done : list (bytes * Value)) (st : RecState) : Prop :=
  map fst (fst st) = map fst cs0 /\ length (snd st) = length cs0 /\
  forall i cf m c0, nth_error fs i = Some cf -> nth_error cs0 i = Some (m, c0) ->
    exists c, nth_error (fst st) i = Some (m, c) /\ shape cf c /\ WfB c /\
      (if nth i (snd st) false
       then exists n x lv, filter (by_name (fname' cf)) done = [(n, x)] /\ interp cf x = IOk lv /\ Ext c0 c lv
       else filter (by_name (fname' cf)) done = [] /\ c = c0).

Lemma shapech_nth fs cs0 i cf m c0 : ShapeCh fs cs0 -> nth_error fs i = Some cf -> nth_error cs0 i = Some (m, c0) -> m = meta_of cf /\ shape cf c0.
Proof.
  intros H. revert i. induction H as [|cf' [m' c'] fs' cs' [Hm Hs] _ IH]; intros [|i] Hf Hc; cbn in *; try discriminate.
  - injection Hf as <-. injection Hc as <- <-. split; assumption.
  - apply (IH i Hf Hc).
Qed.

Lemma shapech_len fs cs0 : ShapeCh fs cs0 -> length fs = length cs0.
Proof. intros H. induction H; cbn; congruence. Qed.

Lemma nodup_names fs i j cf cf' : NoDup (map fname' fs) -> nth_error fs i = Some cf -> nth_error fs j = Some cf' -> fname' cf = fname' cf' -> i = j.
Proof.
  intros Hn Hi Hj He. apply (proj1 (NoDup_nth_error (map fname' fs)) Hn i j).
  - rewrite map_length. apply nth_error_Some. congruence.
  - rewrite !nth_error_map, Hi, Hj. cbn. congruence.
Qed.

Lemma filter_snoc {A} (p : A -> bool) l x : filter p (l ++ [x]) = filter p l ++ (if p x then [x] else []).
Proof. rewrite filter_app. reflexivity. Qed.

Lemma sinv_skip fs cs0 done st name x : ShapeCh fs cs0 -> SInv fs cs0 done st -> index_of name cs0 = None ->
  SInv fs cs0 (done ++ [(name, x)]) st.
Proof.
  intros Hsh (Hm & Hl & Hall) Hnone. split; [exact Hm|]. split; [exact Hl|]. intros i cf m c0 Hf Hc.
  destruct (Hall i cf m c0 Hf Hc) as (c & Hn & Hs & Hw & Hrest). exists c. repeat split; try assumption.
  assert (Hne : by_name (fname' cf) (name, x) = false).
  { unfold by_name. cbn [fst]. destruct (bytes_eqb name (fname' cf)) eqn:E; [|reflexivity]. apply bytes_eqb_eq in E.
    destruct (shapech_nth _ _ _ _ _ _ Hsh Hf Hc) as [-> _]. exfalso. apply (index_of_none _ _ _ _ _ Hnone Hc). cbn. congruence. }
  rewrite filter_snoc, Hne, app_nil_r. exact Hrest.
Qed.

Lemma sinv_step pushf fs cs0 done st name idx x st' :
  ShapeCh fs cs0 -> NoDup (map fname' fs) -> HasContent cs0 -> SInv fs cs0 done st -> index_of name cs0 = Some idx ->
  Sound pushf x -> PushOk pushf x -> struct_element pushf st idx x = Ok st' ->
  SInv fs cs0 (done ++ [(name, x)]) st'.
Proof.
  intros Hsh Hnd Hcont (Hm & Hl & Hall) Hidx HS HP H. unfold struct_element in H.
  destruct (nth idx (snd st) false) eqn:Eseen; [discriminate|].
  destruct (nth_error (fst st) idx) as [[m cb]|] eqn:Ecb; [|discriminate].
  apply bind_ok in H as (cb' & Hp & H). injection H as <-. cbn [fst snd].
  destruct (index_of_some _ _ _ Hidx) as (m0 & c0 & Hc0 & Hname).
  assert (Hlt : idx < length fs) by (rewrite (shapech_len _ _ Hsh); apply nth_error_Some; congruence).
  destruct (nth_error fs idx) as [cf|] eqn:Ecf; [|apply nth_error_None in Ecf; lia].
  destruct (Hall idx cf m0 c0 Ecf Hc0) as (c & Hn & Hs & Hw & Hrest). rewrite Ecb in Hn. injection Hn as -> ->.
  rewrite Eseen in Hrest. destruct Hrest as [Hfil ->].
  destruct (shapech_nth _ _ _ _ _ _ Hsh Ecf Hc0) as [Hmeta _].
  assert (Hcol : exists col, content c0 = Some col).
  { unfold HasContent in Hcont. rewrite Forall_forall in Hcont. apply (Hcont (m0, c0)). eapply nth_error_In. exact Hc0. }
  destruct Hcol as [col Hcol]. destruct (HS cf c0 cb' col Hs Hw Hcol Hp) as (lv & Hi & Hc' & Hs'). destruct (HP c0 cb' Hw Hp) as [Hw' _].
  assert (Hlen : length (fst st) = length cs0) by (rewrite <- (map_length fst), Hm, map_length; reflexivity).
  unfold SInv. cbn [fst snd].
  split; [rewrite (map_fst_update _ _ _ _ _ Ecb); exact Hm|]. split; [rewrite update_nth_length; exact Hl|].
  intros i cf' m' c0' Hf Hc. rewrite nth_error_update_nth, nth_update_nth.
  destruct (Nat.eqb_spec idx i) as [<-|Hne].
  - rewrite Ecf in Hf. injection Hf as <-. rewrite Hc0 in Hc. injection Hc as <- <-.
    assert (idx < length (fst st)) by (apply nth_error_Some; congruence).
    destruct (Nat.ltb_spec idx (length (fst st))); [|lia]. destruct (Nat.ltb_spec idx (length (snd st))); [|lia].
    exists cb'. repeat split; try assumption. exists name, x, lv. repeat split; try assumption; [|exists col; split; assumption].
    rewrite filter_snoc, Hfil. unfold by_name at 1. cbn [fst]. rewrite Hmeta in Hname. cbn in Hname. rewrite <- Hname, bytes_eqb_refl. reflexivity.
  - destruct (Hall i cf' m' c0' Hf Hc) as (c & Hn & Hs2 & Hw2 & Hrest). exists c. repeat split; try assumption.
    assert (Hnn : by_name (fname' cf') (name, x) = false).
    { unfold by_name. cbn [fst]. destruct (bytes_eqb name (fname' cf')) eqn:E; [|reflexivity]. apply bytes_eqb_eq in E. exfalso. apply Hne.
      apply (nodup_names fs idx i cf cf' Hnd Ecf Hf). rewrite Hmeta in Hname. cbn in Hname. congruence. }
    rewrite filter_snoc, Hnn, app_nil_r. exact Hrest.
Qed.

Section RecordLoops.
  Variable pushf : Value -> Builder -> Outcome Builder.
  Variable fs : list Field.
  Variable cs0 : list (Meta * Builder).
  Hypothesis Hsh : ShapeCh fs cs0.
  Hypothesis Hnd : NoDup (map fname' fs).
  Hypothesis Hcont : HasContent cs0.

  Lemma struct_loop_sinv : forall l done st st',
    Forall (fun nv : bytes * Value => Sound pushf (snd nv)) l -> Forall (fun nv : bytes * Value => PushOk pushf (snd nv)) l ->
    SInv fs cs0 done st -> struct_loop pushf l st = Ok st' -> SInv fs cs0 (done ++ l) st'.
  Proof.
    induction l as [|[name x] r IH]; intros done st st' HS HP Hinv H; cbn [struct_loop] in H.
    - injection H as <-. rewrite app_nil_r. exact Hinv.
    - inversion HS as [|? ? Sx Sr]; subst. inversion HP as [|? ? Px Pr]; subst. cbn [snd] in *.
      rewrite (index_of_map name (fst st) cs0 (proj1 Hinv)) in H.
      replace (done ++ (name, x) :: r) with ((done ++ [(name, x)]) ++ r) by (rewrite <- app_assoc; reflexivity).
      destruct (index_of name cs0) as [idx|] eqn:Ei.
      + apply bind_ok in H as (st1 & He & H). apply (IH _ st1 st' Sr Pr); [|exact H].
        eapply sinv_step; eassumption.
      + apply (IH _ st st' Sr Pr); [|exact H]. apply sinv_skip; assumption.
  Qed.

  Lemma map_loop_sinv : forall l done st st',
    Forall (fun kv : Value * Value => Sound pushf (snd kv)) l -> Forall (fun kv : Value * Value => PushOk pushf (snd kv)) l ->
    SInv fs cs0 done st -> map_loop pushf l st = Ok st' ->
    exists names, Forall2 (fun (kv : Value * Value) n => key_name (fst kv) = Some n) l names /\
                  SInv fs cs0 (done ++ combine names (map snd l)) st'.
  Proof.
    induction l as [|[k x] r IH]; intros done st st' HS HP Hinv H; cbn [map_loop] in H.
    - injection H as <-. exists []. split; [constructor|]. cbn. rewrite app_nil_r. exact Hinv.
    - inversion HS as [|? ? Sx Sr]; subst. inversion HP as [|? ? Px Pr]; subst. cbn [snd] in *.
      destruct (key_name k) as [name|] eqn:Ek; [|discriminate].
      rewrite (index_of_map name (fst st) cs0 (proj1 Hinv)) in H.
      destruct (index_of name cs0) as [idx|] eqn:Ei.
      + apply bind_ok in H as (st1 & He & H).
        destruct (IH (done ++ [(name, x)]) st1 st' Sr Pr) as (names & Hn & Hinv'); [eapply sinv_step; eassumption|exact H|].
        exists (name :: names). split; [constructor; [exact Ek|exact Hn]|]. cbn [map combine snd]. rewrite <- app_assoc in Hinv'. exact Hinv'.
      + destruct (IH (done ++ [(name, x)]) st st' Sr Pr) as (names & Hn & Hinv'); [apply sinv_skip; assumption|exact H|].
        exists (name :: names). split; [constructor; [exact Ek|exact Hn]|]. cbn [map combine snd]. rewrite <- app_assoc in Hinv'. exact Hinv'.
  Qed.

  Lemma index_of_exists : forall (cs : list (Meta * Builder)) i m c, nth_error cs i = Some (m, c) -> exists j, index_of (m_name m) cs = Some j.
  Proof.
    induction cs as [|[m0 c0] r IH]; intros i m c H; [destruct i; discriminate|]. cbn [index_of].
    destruct (bytes_eqb (m_name m0) (m_name m)) eqn:E; [eauto|]. destruct i as [|i]; cbn in H.
    - injection H as <- <-. rewrite bytes_eqb_refl in E. discriminate.
    - destruct (IH i m c H) as [j Hj]. rewrite Hj. cbn [option_map]. eauto.
  Qed.

  Lemma index_of_position idx cf m c : nth_error fs idx = Some cf -> nth_error cs0 idx = Some (m, c) -> index_of (fname' cf) cs0 = Some idx.
  Proof.
    intros Hf Hc. destruct (shapech_nth _ _ _ _ _ _ Hsh Hf Hc) as [Hm _].
    destruct (index_of_exists cs0 idx m c Hc) as [j Hj]. rewrite Hm in Hj. cbn [meta_of m_name] in Hj. rewrite Hj. f_equal.
    destruct (index_of_some _ _ _ Hj) as (m' & c' & Hn' & Hname).
    assert (Hlt : j < length fs) by (rewrite (shapech_len _ _ Hsh); apply nth_error_Some; congruence).
    destruct (nth_error fs j) as [cf'|] eqn:Ecf'; [|apply nth_error_None in Ecf'; lia].
    destruct (shapech_nth _ _ _ _ _ _ Hsh Ecf' Hn') as [Hm' _]. rewrite Hm' in Hname. cbn in Hname.
    apply (nodup_names fs j idx cf' cf Hnd Ecf' Hf Hname).
  Qed.

  Lemma skipn_nth_cons' {A} (l : list A) s x : nth_error l s = Some x -> skipn s l = x :: skipn (S s) l.
  Proof. apply skipn_nth_cons. Qed.

  Lemma tuple_loop_sinv : forall l idx done st st',
    Forall (Sound pushf) l -> Forall (PushOk pushf) l ->
    SInv fs cs0 done st -> tuple_loop pushf l idx st = Ok st' ->
    SInv fs cs0 (done ++ combine (map fname' (skipn idx fs)) l) st'.
  Proof.
    induction l as [|x r IH]; intros idx done st st' HS HP Hinv H; cbn [tuple_loop] in H.
    - injection H as <-. destruct (map fname' (skipn idx fs)); cbn [combine]; rewrite app_nil_r; exact Hinv.
    - inversion HS as [|? ? Sx Sr]; subst. inversion HP as [|? ? Px Pr]; subst.
      assert (Hlen : length (fst st) = length fs).
      { rewrite <- (map_length fst), (proj1 Hinv), map_length. symmetry. apply shapech_len. exact Hsh. }
      rewrite Hlen in H. destruct (Nat.ltb_spec idx (length fs)) as [Hlt|Hge].
      + apply bind_ok in H as (st1 & He & H).
        destruct (nth_error fs idx) as [cf|] eqn:Ecf; [|apply nth_error_None in Ecf; lia].
        assert (Hlt' : idx < length cs0) by (rewrite <- (shapech_len _ _ Hsh); exact Hlt).
        destruct (nth_error cs0 idx) as [[m c]|] eqn:Ec; [|apply nth_error_None in Ec; lia].
        rewrite (skipn_nth_cons _ _ _ Ecf). cbn [map combine].
        replace (done ++ (fname' cf, x) :: combine (map fname' (skipn (S idx) fs)) r)
          with ((done ++ [(fname' cf, x)]) ++ combine (map fname' (skipn (S idx) fs)) r) by (rewrite <- app_assoc; reflexivity).
        apply (IH (S idx) _ st1 st' Sr Pr); [|exact H].
        eapply sinv_step; try eassumption. apply (index_of_position idx cf m c Ecf Ec).
      + injection H as <-. rewrite skipn_all2 by lia. cbn [map combine]. rewrite app_nil_r. exact Hinv.
  Qed.
End RecordLoops.

(* shapes are stable under placeholder rows and nulls *)
Lemma vnull_default f v n : vnull f v -> vnull f (set_validity_default v n).
Proof. unfold vnull. destruct v; exact (fun H => H). Qed.

Lemma push_default_shape : forall b f, shape f b -> shape f (push_default b).
Proof.
  intros b. induction b as [v vals len|k v vals|k v offs data|k v offs m e IHe|len v cs IH] using Builder_ind'; intros f Hs; cbn [push_default].
  - destruct Hs as [Hd Hv]. split; [exact Hd|apply vnull_default, Hv].
  - destruct Hs as [Hd Hv]. split; [exact Hd|apply vnull_default, Hv].
  - destruct Hs as (Hd & Hv). repeat split; try assumption. apply vnull_default, Hv.
  - destruct Hs as (cf & Hd & Hm & Hv & He). exists cf. repeat split; try assumption. apply vnull_default, Hv.
  - apply shape_struct in Hs as (fs & Hd & Hv & Hn & Hch). apply shape_struct. exists fs. repeat split; try assumption; [apply vnull_default, Hv|].
    unfold ShapeCh in *. clear Hd Hn. induction Hch as [|cf [m c] fs' cs' [Hm Hs] _ IHch]; [constructor|].
    inversion IH as [|? ? Hx Hr]; subst. cbn [map]. constructor; [cbn [fst snd] in *; split; [exact Hm|apply Hx; exact Hs]|apply IHch; exact Hr].
Qed.

Lemma push_none_shape b b' f : shape f b -> push_none b = Ok b' -> shape f b'.
Proof.
  destruct b as [v vals len|k v vals|k v offs data|k v offs m e|len v cs]; cbn [push_none]; intros Hs H;
    apply bind_ok in H as (v' & Hv' & H); injection H as <-.
  - destruct Hs as [Hd Hv]. split; [exact Hd|eapply vnull_set; eassumption].
  - destruct Hs as [Hd Hv]. split; [exact Hd|eapply vnull_set; eassumption].
  - destruct Hs as (Hd & Hv). repeat split; try assumption. eapply vnull_set; eassumption.
  - destruct Hs as (cf & Hd & Hm & Hv & He). exists cf. repeat split; try assumption. eapply vnull_set; eassumption.
  - apply shape_struct in Hs as (fs & Hd & Hv & Hn & Hch). apply shape_struct. exists fs. repeat split; try assumption; [eapply vnull_set; eassumption|].
    unfold ShapeCh in *. clear Hd Hn. induction Hch as [|cf [m c] fs' cs' [Hm Hs] _ IHch]; [constructor|].
    cbn [map]. constructor; [cbn [fst snd] in *; split; [exact Hm|apply push_default_shape; exact Hs]|exact IHch].
Qed.

Lemma finish_record_nth : forall cs seen cs', finish_record cs seen = Ok cs' -> length seen = length cs ->
  length cs' = length cs /\
  forall i m c, nth_error cs i = Some (m, c) ->
    exists c', nth_error cs' i = Some (m, c') /\ (if nth i seen false then c' = c else m_nullable m = true /\ push_none c = Ok c').
Proof.
  induction cs as [|[m0 c0] r IH]; intros seen cs' H Hl.
  - cbn in H. injection H as <-. split; [reflexivity|]. intros i m c Hn. destruct i; discriminate.
  - destruct seen as [|s seen']; [discriminate Hl|]. cbn [finish_record] in H.
    apply bind_ok in H as (cb' & Hcb & H). apply bind_ok in H as (rest & Hr & H). injection H as <-.
    cbn [length] in Hl. destruct (IH seen' rest Hr ltac:(lia)) as [Hlen Hall]. split; [cbn; lia|].
    intros [|i] m c Hn; cbn [nth_error nth] in *.
    + injection Hn as <- <-. exists cb'. split; [reflexivity|]. destruct s; [injection Hcb as <-; reflexivity|].
      destruct (m_nullable m0); [split; [reflexivity|exact Hcb]|discriminate].
    + apply (Hall i m c Hn).
Qed.

Lemma finite_choice {A} (P : nat -> A -> Prop) n : (forall i, i < n -> exists x, P i x) ->
  exists l, length l = n /\ forall i x, nth_error l i = Some x -> P i x.
Proof.
  induction n as [|n IH]; intros H.
  - exists []. split; [reflexivity|]. intros i x Hn. destruct i; discriminate.
  - destruct IH as (l & Hl & Hall); [intros i Hi; apply H; lia|]. destruct (H n ltac:(lia)) as [x Hx].
    exists (l ++ [x]). split; [rewrite app_length; cbn; lia|]. intros i y Hn.
    destruct (Nat.lt_ge_cases i n) as [Hlt|Hge].
    + rewrite nth_error_app1 in Hn by lia. apply Hall. exact Hn.
    + rewrite nth_error_app2 in Hn by lia. rewrite Hl in Hn. destruct (i - n) as [|k] eqn:Ek; cbn in Hn; [|destruct k; discriminate].
      injection Hn as <-. replace i with n by lia. exact Hx.
Qed.

Lemma Forall2_of_nth {A B} (R : A -> B -> Prop) : forall l1 l2, length l1 = length l2 ->
  (forall i a c, nth_error l1 i = Some a -> nth_error l2 i = Some c -> R a c) -> Forall2 R l1 l2.
Proof.
  induction l1 as [|a r IH]; intros [|c r2] Hl H; cbn in Hl; try discriminate; constructor.
  - apply (H 0 a c); reflexivity.
  - apply IH; [lia|]. intros i a' c' Ha Hc. apply (H (S i) a' c'); assumption.
Qed.

Lemma list_eq_nth {A} : forall (l1 l2 : list A), length l1 = length l2 -> (forall i, nth_error l1 i = nth_error l2 i) -> l1 = l2.
Proof.
  induction l1 as [|a r IH]; intros [|c r2] Hl H; cbn in Hl; try discriminate; [reflexivity|].
  pose proof (H 0) as H0. cbn in H0. injection H0 as <-. f_equal. apply IH; [lia|]. intros i. apply (H (S i)).
Qed.

Lemma nth_error_combine_some {A B} : forall (l : list A) (r : list B) i a c, nth_error l i = Some a -> nth_error r i = Some c -> nth_error (combine l r) i = Some (a, c).
Proof.
  induction l as [|x l IH]; intros [|y r] [|i] a c Ha Hc; cbn in *; try discriminate.
  - injection Ha as <-. injection Hc as <-. reflexivity.
  - apply IH; assumption.
Qed.

Lemma find_field_nodup fs i cf : NoDup (map fname' fs) -> nth_error fs i = Some cf -> find_field fs (fname' cf) = Some cf.
Proof.
  unfold find_field. revert i. induction fs as [|f0 r IH]; intros i Hn Hf; [destruct i; discriminate|].
  cbn [find]. destruct (bytes_eqb (fname' f0) (fname' cf)) eqn:E.
  - apply bytes_eqb_eq in E. f_equal. destruct i as [|i]; cbn in Hf; [congruence|].
    exfalso. cbn [map] in Hn. inversion Hn as [|? ? Hnin _]; subst. apply Hnin. rewrite E. apply in_map. eapply nth_error_In. exact Hf.
  - destruct i as [|i]; cbn in Hf; [injection Hf as ->; rewrite bytes_eqb_refl in E; discriminate|].
    cbn [map] in Hn. inversion Hn; subst. eapply IH; eassumption.
Qed.

(* the per-field result of `assemble`, in terms of the presented (name, value) pairs *)
Definition field_res (fs : list Field) (done : list (bytes * Value)) (sf : Field) : IRes :=
  match filter (by_name (fname' sf)) done with
  | [] => if field_null_ok sf then IOk LNull else IReject
  | [(n, x)] => match find_field fs n with Some sf' => interp sf' x | None => IOk LNull end
  | _ => IReject
  end.

Lemma finish_sound fs cs0 done st cs' :
  ShapeCh fs cs0 -> NoDup (map fname' fs) -> HasContent cs0 -> SInv fs cs0 done st ->
  finish_record (fst st) (snd st) = Ok cs' ->
  exists news, length news = length cs0 /\
    Forall2 (fun (cx : (Meta * Builder) * LVal) (mc' : Meta * Builder) => fst mc' = fst (fst cx) /\ Ext (snd (fst cx)) (snd mc') (snd cx)) (combine cs0 news) cs' /\
    ShapeCh fs cs' /\ map (field_res fs done) fs = map IOk news.
Proof.
  intros Hsh Hnd Hcont (Hm & Hl & Hall) Hfin.
  assert (Hlen : length (fst st) = length cs0) by (rewrite <- (map_length fst), Hm, map_length; reflexivity).
  destruct (finish_record_nth _ _ _ Hfin ltac:(lia)) as [Hlen' Hfn].
  pose proof (shapech_len _ _ Hsh) as Hfl.
  set (P := fun (i : nat) (lv : LVal) => forall cf m c0, nth_error fs i = Some cf -> nth_error cs0 i = Some (m, c0) ->
              exists c', nth_error cs' i = Some (m, c') /\ Ext c0 c' lv /\ shape cf c' /\ field_res fs done cf = IOk lv).
  destruct (finite_choice P (length cs0)) as (news & Hnl & Hnews).
  { intros i Hi. destruct (nth_error cs0 i) as [[m c0]|] eqn:Ec; [|apply nth_error_None in Ec; lia].
    destruct (nth_error fs i) as [cf|] eqn:Ecf; [|apply nth_error_None in Ecf; lia].
    destruct (Hall i cf m c0 Ecf Ec) as (c & Hn & Hs & Hw & Hrest). destruct (Hfn i m c Hn) as (c' & Hn' & Hfin').
    destruct (nth i (snd st) false).
    - subst c'. destruct Hrest as (n & x & lv & Hfil & Hi' & Hext). exists lv. intros cf2 m2 c02 E1 E2. rewrite Ecf in E1. rewrite Ec in E2. injection E1 as <-. injection E2 as <- <-.
      exists c. repeat split; try assumption. unfold field_res. rewrite Hfil.
      assert (Hnm : n = fname' cf).
      { assert (Hin : In (n, x) (filter (by_name (fname' cf)) done)) by (rewrite Hfil; left; reflexivity).
        apply filter_In in Hin as [_ Hb]. unfold by_name in Hb. cbn in Hb. apply bytes_eqb_eq in Hb. exact Hb. }
      rewrite Hnm, (find_field_nodup fs i cf Hnd Ecf). exact Hi'.
    - destruct Hrest as [Hfil ->]. destruct Hfin' as [Hnull Hpn]. exists LNull. intros cf2 m2 c02 E1 E2. rewrite Ecf in E1. rewrite Ec in E2. injection E1 as <-. injection E2 as <- <-.
      assert (Hcol : exists col, content c0 = Some col).
      { unfold HasContent in Hcont. rewrite Forall_forall in Hcont. apply (Hcont (m, c0)). eapply nth_error_In. exact Ec. }
      destruct Hcol as [col Hcol]. destruct (push_none_ext c0 c' col Hw Hcol Hpn) as [Hc' _].
      exists c'. split; [exact Hn'|]. split; [exists col; split; assumption|]. split; [eapply push_none_shape; eassumption|].
      unfold field_res. rewrite Hfil. destruct (shapech_nth _ _ _ _ _ _ Hsh Ecf Ec) as [Hmeta _]. rewrite Hmeta in Hnull. cbn in Hnull.
      unfold field_null_ok. rewrite Hnull. reflexivity. }
  exists news. split; [exact Hnl|]. split; [|split].
  - apply Forall2_of_nth; [rewrite combine_length; lia|]. intros i [[m c0] lv] [m' c'] Hc Hc'.
    destruct (nth_error_combine _ _ _ _ Hc) as [E1 E2]. cbn [fst snd] in *.
    assert (Hi : i < length fs) by (rewrite Hfl; apply nth_error_Some; congruence).
    destruct (nth_error fs i) as [cf|] eqn:Ecf; [|apply nth_error_None in Ecf; lia].
    destruct (Hnews i lv E2 cf m c0 Ecf E1) as (c2 & Hn2 & Hext & _). rewrite Hc' in Hn2. injection Hn2 as -> ->. split; [reflexivity|exact Hext].
  - apply Forall2_of_nth; [lia|]. intros i cf [m' c'] Hf Hc'.
    assert (Hi : i < length cs0) by (rewrite <- Hfl; apply nth_error_Some; congruence).
    destruct (nth_error cs0 i) as [[m c0]|] eqn:Ec; [|apply nth_error_None in Ec; lia].
    destruct (nth_error news i) as [lv|] eqn:El; [|apply nth_error_None in El; lia].
    destruct (Hnews i lv El cf m c0 Hf Ec) as (c2 & Hn2 & _ & Hs2 & _). rewrite Hc' in Hn2. injection Hn2 as -> ->.
    cbn [fst snd]. split; [apply (shapech_nth _ _ _ _ _ _ Hsh Hf Ec)|exact Hs2].
  - apply list_eq_nth; [rewrite !map_length; lia|]. intros i. rewrite !nth_error_map.
    destruct (nth_error fs i) as [cf|] eqn:Ecf.
    + assert (Hi : i < length cs0) by (rewrite <- Hfl; apply nth_error_Some; congruence).
      destruct (nth_error cs0 i) as [[m c0]|] eqn:Ec; [|apply nth_error_None in Ec; lia].
      destruct (nth_error news i) as [lv|] eqn:El; [|apply nth_error_None in El; lia].
      destruct (Hnews i lv El cf m c0 Ecf Ec) as (c2 & _ & _ & _ & Hres). cbn. rewrite Hres. reflexivity.
    + apply nth_error_None in Ecf. assert (nth_error news i = None) as -> by (apply nth_error_None; lia). reflexivity.
Qed.

(* `assemble` over presented pairs = per-field results *)
Definition present_pair (fs : list Field) (nv : bytes * Value) : bytes * IRes :=
  (fst nv, match find_field fs (fst nv) with Some sf => interp sf (snd nv) | None => IOk LNull end).

Lemma filter_map_fst {X Y} (g : X -> Y) (p : Y -> bool) (q : X -> bool) : (forall x, p (g x) = q x) ->
  forall l, filter p (map g l) = map g (filter q l).
Proof. intros H. induction l as [|x r IH]; [reflexivity|]. cbn [map filter]. rewrite H, IH. destruct (q x); reflexivity. Qed.

Lemma assemble_field_res fs (done : list (bytes * Value)) :
  assemble fs (map (present_pair fs) done)
  = iall_then (map (field_res fs done) fs) (fun vs => IOk (LStruct (combine (map fname' fs) vs))).
Proof.
  unfold assemble. f_equal. apply map_ext. intros sf. unfold field_res.
  rewrite (filter_map_fst (present_pair fs) _ (by_name (fname' sf))) by (intros [n x]; reflexivity).
  destruct (filter (by_name (fname' sf)) done) as [|[n x] [|p r]]; reflexivity.
Qed.

Lemma iall_map_ok news : iall (map IOk news) = Some (Some news).
Proof. induction news as [|x r IH]; [reflexivity|]. cbn [map iall]. rewrite IH. reflexivity. Qed.

Lemma shapech_names fs cs : ShapeCh fs cs -> map (fun mb : Meta * Builder => m_name (fst mb)) cs = map fname' fs.
Proof. intros H. induction H as [|cf [m c] fs' cs' [Hm _] _ IH]; [reflexivity|]. cbn [map fst] in *. rewrite IH, Hm. reflexivity. Qed.

Lemma has_content_of len v cs lvs : content (BdStruct len v cs) = Some lvs -> HasContent cs.
Proof.
  intros H. destruct (content_struct_cols _ _ _ _ H) as [cols Hc]. clear H. unfold HasContent.
  revert cols Hc. induction cs as [|[m c] r IH]; intros cols Hc; [constructor|].
  cbn [map decode_cols fst snd] in Hc. destruct (decode (into_array c)) as [vs|] eqn:Ev; [|discriminate].
  destruct (decode_cols _) as [rest|] eqn:Er; [|discriminate]. constructor; [exists vs; exact Ev|apply (IH rest eq_refl)].
Qed.

Lemma sinv_start fs cs0 len : ShapeCh fs cs0 -> ChildrenOk len cs0 -> SInv fs cs0 [] (cs0, repeat false (length cs0)).
Proof.
  intros Hsh Hch. split; [reflexivity|]. split; [apply repeat_length|]. intros i cf m c0 Hf Hc. cbn [fst snd]. exists c0.
  split; [exact Hc|]. split; [apply (shapech_nth _ _ _ _ _ _ Hsh Hf Hc)|].
  split; [unfold ChildrenOk in Hch; rewrite Forall_forall in Hch; apply (Hch (m, c0)); eapply nth_error_In; exact Hc|].
  assert (E : nth i (repeat false (length cs0)) false = false).
  { destruct (nth_in_or_default i (repeat false (length cs0)) false) as [Hin|E]; [apply repeat_spec in Hin; exact Hin|exact E]. }
  rewrite E. split; reflexivity.
Qed.

Lemma push_record_sound f len v cs0 lvs fs done st val' b' :
  fdt' f = DStruct fs -> vnull f v -> NoDup (map fname' fs) -> ShapeCh fs cs0 ->
  WfB (BdStruct len v cs0) -> content (BdStruct len v cs0) = Some lvs ->
  set_validity v len true = Ok val' -> SInv fs cs0 done st ->
  (do fs' <- finish_record (fst st) (snd st) ;; Ok (BdStruct (S len) val' fs')) = Ok b' ->
  exists news, iall (map (field_res fs done) fs) = Some (Some news) /\
               content b' = Some (lvs ++ [LStruct (combine (map fname' fs) news)]) /\ shape f b'.
Proof.
  intros Hd Hv Hnd Hsh Hw Hc Hs Hinv H. apply bind_ok in H as (cs' & Hfin & H). injection H as <-.
  apply WfB_struct in Hw as [Hwv Hch].
  destruct (finish_sound fs cs0 done st cs' Hsh Hnd (has_content_of _ _ _ _ Hc) Hinv Hfin) as (news & Hnl & HF & Hsh' & Hres).
  exists news. split; [rewrite Hres; apply iall_map_ok|]. split.
  - rewrite <- (shapech_names _ _ Hsh).
    exact (ext_struct len v cs0 lvs val' true news cs' Hch Hc (VStep_set _ _ _ _ Hwv Hs) Hnl HF).
  - apply shape_struct. exists fs. repeat split; try assumption. eapply vnull_set; eassumption.
Qed.

(* maps presented for a struct: the keys that resolve *)
Lemma map_pairs_present fs : forall kvs names, Forall2 (fun (kv : Value * Value) n => key_name (fst kv) = Some n) kvs names ->
  forallb (fun kv : Value * Value => match key_name (fst kv) with Some _ => true | None => false end) kvs = true /\
  map (fun kv : Value * Value => match key_name (fst kv) with
                                 | Some n => (n, match find_field fs n with Some sf => interp sf (snd kv) | None => IOk LNull end)
                                 | None => ([], IReject) end) kvs
  = map (present_pair fs) (combine names (map snd kvs)).
Proof.
  intros kvs names H. induction H as [|[k x] n kvs' names' Hk _ [IH1 IH2]]; [split; reflexivity|].
  cbn [fst snd] in Hk. cbn [forallb map combine fst snd]. rewrite Hk, IH1, IH2. split; reflexivity.
Qed.

(* tuples presented for a struct: positions in schema order *)
Lemma tuple_pairs_present fs : (forall sf, In sf fs -> find_field fs (fname' sf) = Some sf) ->
  forall fs' l, (forall sf, In sf fs' -> In sf fs) ->
  combine (map fname' fs')
          ((fix go (fs : list Field) (l : list Value) {struct l} : list IRes :=
              match l, fs with x :: l', sf :: fs' => interp sf x :: go fs' l' | _, _ => [] end) fs' l)
  = map (present_pair fs) (combine (map fname' fs') l).
Proof.
  intros Hfind fs' l. revert fs'. induction l as [|x r IH]; intros fs' Hin; [destruct fs'; reflexivity|].
  destruct fs' as [|sf fs'']; [reflexivity|]. cbn [map combine]. unfold present_pair at 1. cbn [fst snd].
  rewrite (Hfind sf (Hin sf (or_introl eq_refl))). f_equal. apply IH. intros sf' H'. apply Hin. right. exact H'.
Qed.

Lemma find_all_nodup fs : NoDup (map fname' fs) -> forall sf, In sf fs -> find_field fs (fname' sf) = Some sf.
Proof. intros Hnd sf Hin. destruct (In_nth_error _ _ Hin) as [i Hi]. eapply find_field_nodup; eassumption. Qed.

(* ---------------- the refinement theorem ---------------- *)
Definition scalar_like (v : Value) : bool :=
  match v with
  | VBool _ | VInt _ _ | VF32 _ | VF64 _ | VChar _ | VStr _
  | VUnitVariant _ _ | VNewtypeVariant _ _ _ | VTupleVariant _ _ _ | VStructVariant _ _ _ => true
  | _ => false
  end.

Ltac leaf_bool_case Hs Hw Hc Hp :=
  let Hc' := fresh "Hc'" in let Hs' := fresh "Hs'" in
  destruct (leaf_bool _ _ _ _ _ _ _ Hs Hw Hc Hp) as [Hc' Hs'];
  eexists; split; [|split; [exact Hc'|exact Hs']];
  match goal with f : Field |- _ => destruct f as [? dt ?]; destruct Hs as [Hd _]; cbn [fdt'] in Hd; subst dt; reflexivity end.

Lemma sound_scalar v : scalar_like v = true -> Sound push v.
Proof.
  intros Hsc f b b' lvs Hs Hw Hc Hp.
  destruct b as [val vals len|k val vals|k val offs data|k val offs m e|len val cs].
  - (* Boolean column *)
    destruct v; try discriminate Hsc; cbn [push] in Hp; try discriminate Hp.
    destruct (leaf_bool _ _ _ _ _ _ _ Hs Hw Hc Hp) as [Hc' Hs'].
    exists (LBool v). split; [|split; assumption].
    destruct f as [nm dt nl]. destruct Hs as [Hd _]. cbn [fdt'] in Hd. subst dt. reflexivity.
  - (* integer column *)
    assert (Hp' : (do z <- prim_value k v ;; do val' <- set_validity val (length vals) true ;; Ok (BdPrim k val' (vals ++ [z]))) = Ok b')
      by (destruct v; try discriminate Hsc; exact Hp).
    apply bind_ok in Hp' as (z & Hz & Hp'). destruct (leaf_prim _ _ _ _ _ _ _ Hs Hw Hc Hp') as [Hc' Hs'].
    exists (LInt z). split; [|split; assumption].
    destruct f as [nm dt nl]. destruct Hs as [Hd _]. cbn [fdt'] in Hd. subst dt.
    rewrite <- (prim_value_scalar _ _ _ Hz). destruct v; try discriminate Hsc; reflexivity.
  - (* string column; a binary column takes no scalar *)
    destruct (is_utf8_kind k) eqn:Hu.
    2:{ exfalso. destruct v; try discriminate Hsc; cbn [push] in Hp; rewrite Hu in Hp; discriminate Hp. }
    assert (Hp' : match text_of_scalar v with
                  | IOk (LBytes s) => do val' <- set_validity val (length offs - 1) true ;;
                                      do offs' <- increment_last (is_wide k) (duplicate_last offs) (length s) ;;
                                      Ok (BdUtf8 k val' offs' (data ++ s))
                  | _ => Err end = Ok b') by (destruct v; try discriminate Hsc; cbn [push] in Hp; rewrite Hu in Hp; exact Hp).
    destruct (text_of_scalar v) as [[| | |s| | | |]| |] eqn:Et; try discriminate Hp'.
    destruct (leaf_utf8 _ _ _ _ _ _ _ _ Hs Hw Hc Hp') as [Hc' Hs'].
    exists (LBytes s). split; [|split; assumption].
    destruct f as [nm dt nl]. destruct Hs as (Hd & _). cbn [fdt'] in Hd. subst dt. rewrite <- Et.
    destruct k; try discriminate Hu; destruct v; try discriminate Hsc; reflexivity.
  - destruct v; try discriminate Hsc; discriminate Hp.
  - destruct v; try discriminate Hsc; discriminate Hp.
Qed.

Lemma push_scalar_int k z b : push_scalar (VInt k z) b = push (VInt k z) b.
Proof. destruct b; reflexivity. Qed.

Lemma interp_u8_eq cf e z : shape cf e -> interp cf (VInt U8 z) = interp_u8_leaf cf z.
Proof.
  destruct cf as [nm dt nl]. destruct e as [val vals len|k val vals|k val offs data|k val offs m e|len val cs]; cbn [shape fdt'].
  - intros [-> _]. reflexivity.
  - intros [-> _]. reflexivity.
  - intros (-> & _). destruct k; reflexivity.
  - intros (cf' & -> & _). reflexivity.
  - intros (fs & -> & _). reflexivity.
Qed.

Lemma shape_null_ok f b : shape f b ->
  forall v, (v = VNone \/ v = VUnit \/ v = VUnitStruct) -> interp f v = if fnullable' f then IOk LNull else IReject.
Proof.
  intros Hs v Hv. destruct f as [nm dt nl].
  assert (Hcore : match dt with DUnion _ | DNull => False | _ => True end).
  { destruct b as [val vals len|k val vals|k val offs data|k val offs m e|len val cs]; cbn [shape fdt'] in Hs.
    - destruct Hs as [-> _]. exact I.
    - destruct Hs as [-> _]. exact I.
    - destruct Hs as (-> & _). exact I.
    - destruct Hs as (cf & -> & _). exact I.
    - destruct Hs as (fs & -> & _). exact I. }
  destruct Hv as [-> | [-> | ->]]; cbn [interp fdt' fnullable']; destruct dt; try contradiction; rewrite Bool.orb_false_r; reflexivity.
Qed.

Lemma shape_validity f b : shape f b ->
  vnull f (match b with BdBool v _ _ | BdPrim _ v _ | BdUtf8 _ v _ _ | BdList _ v _ _ _ | BdStruct _ v _ => v end).
Proof.
  destruct b; cbn [shape]; intros H.
  - apply H. - apply H. - apply H. - destruct H as (cf & _ & _ & Hv & _). exact Hv. - destruct H as (fs & _ & Hv & _). exact Hv.
Qed.

(* a binary column: bytes, or a sequence / tuple of u8 *)
Lemma binary_sound v f k val offs data b' lvs : is_utf8_kind k = false ->
  shape f (BdUtf8 k val offs data) -> WfB (BdUtf8 k val offs data) -> content (BdUtf8 k val offs data) = Some lvs ->
  (do s <- binary_of_value v ;;
   do val' <- set_validity val (length offs - 1) true ;;
   do offs' <- increment_last (is_wide k) (duplicate_last offs) (length s) ;;
   Ok (BdUtf8 k val' offs' (data ++ s))) = Ok b' ->
  match v with VBytes _ | VSeq _ | VTuple _ | VTupleStruct _ => True | _ => False end ->
  exists lv, interp f v = IOk lv /\ content b' = Some (lvs ++ [lv]) /\ shape f b'.
Proof.
  intros Hu Hs Hw Hc Hp Hv. apply bind_ok in Hp as (s & Hb & Hp). destruct (leaf_utf8 _ _ _ _ _ _ _ _ Hs Hw Hc Hp) as [Hc' Hs'].
  exists (LBytes s). split; [|split; assumption].
  destruct f as [nm dt nl]. destruct Hs as (Hd & _). cbn [fdt'] in Hd. subst dt.
  destruct k; try discriminate Hu; destruct v; try contradiction; cbn [interp fdt' binary_of_value] in *;
    try (injection Hb as ->; reflexivity);
    match type of Hb with match ?e with _ => _ end = _ => destruct e as [[| | |?| | | |]| |]; try discriminate Hb; injection Hb as ->; reflexivity end.
Qed.

Theorem push_sound : forall v, Sound push v.
Proof.
  intros v. induction v as [x|k z|x|x|c|s|s| |x IHx| | |x IHx|l IHl|l IHl|l IHl|kvs IHk|fields IHf|i n|i n x IHx|i n l IHl|i n fields IHf] using Value_ind';
    try (apply sound_scalar; reflexivity).
  - (* bytes: only list columns take them, byte by byte *)
    intros f b b' lvs Hs Hw Hc Hp.
    destruct b as [val vals len|k val vals|k val offs data|k val offs m e|len val cs]; cbn [push] in Hp; try discriminate Hp; try (rewrite prim_value_nonscalar in Hp by exact I; discriminate Hp).
    all: try (match type of Hp with context [is_utf8_kind ?kk] => destruct (is_utf8_kind kk) eqn:Hu; [discriminate Hp|] end; exact (binary_sound _ f _ _ _ _ b' lvs Hu Hs Hw Hc Hp I)).
    assert (HS : Forall (Sound push_scalar) (map (fun c : N => VInt U8 (Z.of_N c)) s)).
    { apply Forall_map. apply Forall_forall. intros c _ f0 b0 b0' lvs0 H1 H2 H3 H4. rewrite push_scalar_int in H4.
      exact (sound_scalar (VInt U8 (Z.of_N c)) eq_refl f0 b0 b0' lvs0 H1 H2 H3 H4). }
    assert (HP : Forall (PushOk push_scalar) (map (fun c : N => VInt U8 (Z.of_N c)) s)) by (apply Forall_forall; intros x _; apply push_scalar_ok).
    destruct (push_list_sound push_scalar f k val offs m e _ lvs b' HS HP Hs Hw Hc Hp) as (cf & news & Hd & Ha & Hc' & Hs').
    exists (LList news). split; [|split; assumption].
    destruct f as [nm dt nl]. cbn [fdt'] in Hd. subst dt. cbn [interp fdt']. unfold iall_then.
    destruct Hs as (cf' & Hd' & _ & _ & Hse). cbn [fdt'] in Hd'. injection Hd' as <-.
    rewrite map_map in Ha. erewrite map_ext; [rewrite Ha; reflexivity|]. intros c. cbn beta. symmetry. apply (interp_u8_eq cf e _ Hse).
  - (* none *)
    intros f b b' lvs Hs Hw Hc Hp. cbn [push] in Hp. destruct (push_none_ext b b' lvs Hw Hc Hp) as [Hc' Hv].
    exists LNull. split; [|split; [exact Hc'|eapply push_none_shape; eassumption]].
    rewrite (shape_null_ok f b Hs VNone (or_introl eq_refl)). pose proof (shape_validity f b Hs) as Hn. unfold vnull in Hn.
    destruct b; cbn in Hv, Hn; (destruct validity; [rewrite Hn; reflexivity|contradiction]).
  - (* some *) intros f b b' lvs Hs Hw Hc Hp. cbn [push] in Hp. destruct (IHx f b b' lvs Hs Hw Hc Hp) as (lv & Hi & R). exists lv. split; [exact Hi|exact R].
  - (* unit *)
    intros f b b' lvs Hs Hw Hc Hp. cbn [push] in Hp. destruct (push_none_ext b b' lvs Hw Hc Hp) as [Hc' Hv].
    exists LNull. split; [|split; [exact Hc'|eapply push_none_shape; eassumption]].
    rewrite (shape_null_ok f b Hs VUnit (or_intror (or_introl eq_refl))). pose proof (shape_validity f b Hs) as Hn. unfold vnull in Hn.
    destruct b; cbn in Hv, Hn; (destruct validity; [rewrite Hn; reflexivity|contradiction]).
  - (* unit struct: written like a unit *)
    intros f b b' lvs Hs Hw Hc Hp. cbn [push] in Hp. destruct (push_none_ext b b' lvs Hw Hc Hp) as [Hc' Hv].
    exists LNull. split; [|split; [exact Hc'|eapply push_none_shape; eassumption]].
    rewrite (shape_null_ok f b Hs VUnitStruct (or_intror (or_intror eq_refl))). pose proof (shape_validity f b Hs) as Hn. unfold vnull in Hn.
    destruct b; cbn in Hv, Hn; (destruct validity; [rewrite Hn; reflexivity|contradiction]).
  - (* newtype struct *) intros f b b' lvs Hs Hw Hc Hp. cbn [push] in Hp. destruct (IHx f b b' lvs Hs Hw Hc Hp) as (lv & Hi & R). exists lv. split; [exact Hi|exact R].
  - (* seq *)
    intros f b b' lvs Hs Hw Hc Hp.
    destruct b as [val vals len|k val vals|k val offs data|k val offs m e|len val cs]; cbn [push] in Hp; try discriminate Hp; try (rewrite prim_value_nonscalar in Hp by exact I; discriminate Hp).
    all: try (match type of Hp with context [is_utf8_kind ?kk] => destruct (is_utf8_kind kk) eqn:Hu; [discriminate Hp|] end; exact (binary_sound _ f _ _ _ _ b' lvs Hu Hs Hw Hc Hp I)).
    assert (HP : Forall (PushOk push) l) by (apply Forall_forall; intros x _; apply push_wf).
    destruct (push_list_sound push f k val offs m e l lvs b' IHl HP Hs Hw Hc Hp) as (cf & news & Hd & Ha & Hc' & Hs').
    exists (LList news). split; [|split; assumption].
    destruct f as [nm dt nl]. cbn [fdt'] in Hd. subst dt. cbn [interp fdt']. unfold iall_then. rewrite Ha. reflexivity.
  - (* tuple *)
    intros f b b' lvs Hs Hw Hc Hp.
    assert (HP : Forall (PushOk push) l) by (apply Forall_forall; intros x _; apply push_wf).
    destruct b as [val vals len|k val vals|k val offs data|k val offs m e|len val cs]; cbn [push] in Hp; try discriminate Hp; try (rewrite prim_value_nonscalar in Hp by exact I; discriminate Hp).
    all: try (match type of Hp with context [is_utf8_kind ?kk] => destruct (is_utf8_kind kk) eqn:Hu; [discriminate Hp|] end; exact (binary_sound _ f _ _ _ _ b' lvs Hu Hs Hw Hc Hp I)).
    + destruct (push_list_sound push f k val offs m e l lvs b' IHl HP Hs Hw Hc Hp) as (cf & news & Hd & Ha & Hc' & Hs').
      exists (LList news). split; [|split; assumption].
      destruct f as [nm dt nl]. cbn [fdt'] in Hd. subst dt. cbn [interp fdt']. unfold iall_then. rewrite Ha. reflexivity.
    + apply bind_ok in Hp as (val' & Hv' & Hp). apply bind_ok in Hp as (st & Hloop & Hp).
      pose proof Hs as Hs0. apply shape_struct in Hs0 as (fs & Hd & Hvn & Hnd & Hsh). pose proof Hw as Hw0. apply WfB_struct in Hw0 as [_ Hch].
      pose proof (tuple_loop_sinv push fs cs Hsh Hnd (has_content_of _ _ _ _ Hc) l 0 [] _ st IHl HP (sinv_start fs cs len Hsh Hch) Hloop) as Hinv.
      cbn [app skipn] in Hinv.
      destruct (push_record_sound f len val cs lvs fs _ st val' b' Hd Hvn Hnd Hsh Hw Hc Hv' Hinv Hp) as (news & Ha & Hc' & Hs').
      exists (LStruct (combine (map fname' fs) news)). split; [|split; assumption].
      destruct f as [nm dt nl]. cbn [fdt'] in Hd. subst dt. cbn [interp fdt']. unfold positional.
      rewrite (tuple_pairs_present fs (find_all_nodup fs Hnd) fs l (fun sf H => H)).
      rewrite assemble_field_res. unfold iall_then. rewrite Ha. reflexivity.
  - (* tuple struct *)
    intros f b b' lvs Hs Hw Hc Hp.
    assert (HP : Forall (PushOk push) l) by (apply Forall_forall; intros x _; apply push_wf).
    destruct b as [val vals len|k val vals|k val offs data|k val offs m e|len val cs]; cbn [push] in Hp; try discriminate Hp; try (rewrite prim_value_nonscalar in Hp by exact I; discriminate Hp).
    all: try (match type of Hp with context [is_utf8_kind ?kk] => destruct (is_utf8_kind kk) eqn:Hu; [discriminate Hp|] end; exact (binary_sound _ f _ _ _ _ b' lvs Hu Hs Hw Hc Hp I)).
    + destruct (push_list_sound push f k val offs m e l lvs b' IHl HP Hs Hw Hc Hp) as (cf & news & Hd & Ha & Hc' & Hs').
      exists (LList news). split; [|split; assumption].
      destruct f as [nm dt nl]. cbn [fdt'] in Hd. subst dt. cbn [interp fdt']. unfold iall_then. rewrite Ha. reflexivity.
    + apply bind_ok in Hp as (val' & Hv' & Hp). apply bind_ok in Hp as (st & Hloop & Hp).
      pose proof Hs as Hs0. apply shape_struct in Hs0 as (fs & Hd & Hvn & Hnd & Hsh). pose proof Hw as Hw0. apply WfB_struct in Hw0 as [_ Hch].
      pose proof (tuple_loop_sinv push fs cs Hsh Hnd (has_content_of _ _ _ _ Hc) l 0 [] _ st IHl HP (sinv_start fs cs len Hsh Hch) Hloop) as Hinv.
      cbn [app skipn] in Hinv.
      destruct (push_record_sound f len val cs lvs fs _ st val' b' Hd Hvn Hnd Hsh Hw Hc Hv' Hinv Hp) as (news & Ha & Hc' & Hs').
      exists (LStruct (combine (map fname' fs) news)). split; [|split; assumption].
      destruct f as [nm dt nl]. cbn [fdt'] in Hd. subst dt. cbn [interp fdt']. unfold positional.
      rewrite (tuple_pairs_present fs (find_all_nodup fs Hnd) fs l (fun sf H => H)).
      rewrite assemble_field_res. unfold iall_then. rewrite Ha. reflexivity.
  - (* map presented for a struct *)
    intros f b b' lvs Hs Hw Hc Hp.
    destruct b as [val vals len|k val vals|k val offs data|k val offs m e|len val cs]; cbn [push] in Hp; try discriminate Hp; try (rewrite prim_value_nonscalar in Hp by exact I; discriminate Hp).
    all: try (match type of Hp with context [is_utf8_kind ?kk] => destruct (is_utf8_kind kk) eqn:Hu; [discriminate Hp|] end; cbn [binary_of_value bind] in Hp; discriminate Hp).
    apply bind_ok in Hp as (val' & Hv' & Hp). apply bind_ok in Hp as (st & Hloop & Hp).
    pose proof Hs as Hs0. apply shape_struct in Hs0 as (fs & Hd & Hvn & Hnd & Hsh). pose proof Hw as Hw0. apply WfB_struct in Hw0 as [_ Hch].
    assert (HP : Forall (fun kv : Value * Value => PushOk push (snd kv)) kvs) by (apply Forall_forall; intros x _; apply push_wf).
    destruct (map_loop_sinv push fs cs Hsh Hnd (has_content_of _ _ _ _ Hc) kvs [] _ st IHk HP (sinv_start fs cs len Hsh Hch) Hloop) as (names & Hnames & Hinv).
    cbn [app] in Hinv.
    destruct (push_record_sound f len val cs lvs fs _ st val' b' Hd Hvn Hnd Hsh Hw Hc Hv' Hinv Hp) as (news & Ha & Hc' & Hs').
    exists (LStruct (combine (map fname' fs) news)). split; [|split; assumption].
    destruct f as [nm dt nl]. cbn [fdt'] in Hd. subst dt. cbn [interp fdt'].
    destruct (map_pairs_present fs kvs names Hnames) as [E1 E2]. rewrite E1, E2.
    rewrite assemble_field_res. unfold iall_then. rewrite Ha. reflexivity.
  - (* struct *)
    intros f b b' lvs Hs Hw Hc Hp.
    destruct b as [val vals len|k val vals|k val offs data|k val offs m e|len val cs]; cbn [push] in Hp; try discriminate Hp; try (rewrite prim_value_nonscalar in Hp by exact I; discriminate Hp).
    all: try (match type of Hp with context [is_utf8_kind ?kk] => destruct (is_utf8_kind kk) eqn:Hu; [discriminate Hp|] end; cbn [binary_of_value bind] in Hp; discriminate Hp).
    apply bind_ok in Hp as (val' & Hv' & Hp). apply bind_ok in Hp as (st & Hloop & Hp).
    pose proof Hs as Hs0. apply shape_struct in Hs0 as (fs & Hd & Hvn & Hnd & Hsh). pose proof Hw as Hw0. apply WfB_struct in Hw0 as [_ Hch].
    assert (HP : Forall (fun nv : bytes * Value => PushOk push (snd nv)) fields) by (apply Forall_forall; intros x _; apply push_wf).
    pose proof (struct_loop_sinv push fs cs Hsh Hnd (has_content_of _ _ _ _ Hc) fields [] _ st IHf HP (sinv_start fs cs len Hsh Hch) Hloop) as Hinv.
    cbn [app] in Hinv.
    destruct (push_record_sound f len val cs lvs fs _ st val' b' Hd Hvn Hnd Hsh Hw Hc Hv' Hinv Hp) as (news & Ha & Hc' & Hs').
    exists (LStruct (combine (map fname' fs) news)). split; [|split; assumption].
    destruct f as [nm dt nl]. cbn [fdt'] in Hd. subst dt. cbn [interp fdt'].
    change (map (fun nv : bytes * Value => (fst nv, match find_field fs (fst nv) with Some sf => interp sf (snd nv) | None => IOk LNull end)) fields)
      with (map (present_pair fs) fields).
    rewrite assemble_field_res. unfold iall_then. rewrite Ha. reflexivity.
Qed.

(* ---------------- from an empty builder to the arrays of to_marrow ---------------- *)
(* field names are unique within every struct of the schema (the lookup by name is then unambiguous) *)
Fixpoint names_ok (f : Field) : Prop :=
  match f with
  | mkField _ dt _ =>
    match dt with
    | DList _ cf => names_ok cf
    | DStruct fs => NoDup (map fname' fs) /\ (fix go (fs : list Field) : Prop := match fs with [] => True | cf :: r => names_ok cf /\ go r end) fs
    | _ => True
    end
  end.

Lemma vnull_new nm dt nl : vnull (mkField nm dt nl) (new_validity nl).
Proof. unfold vnull. destruct nl; reflexivity. Qed.

Lemma apply_validity_new nullable : apply_validity (some_bitmap (new_validity nullable)) [] = Some [].
Proof. destruct nullable; reflexivity. Qed.

Lemma decode_cols_empty : forall cs, Forall (fun mb : Meta * Builder => content (snd mb) = Some []) cs ->
  exists cols, decode_cols (map (fun mb => (fst mb, into_array (snd mb))) cs) = Some cols.
Proof.
  induction cs as [|[m c] r IH]; intros H; [exists []; reflexivity|]. inversion H as [|? ? Hc Hr]; subst. cbn [snd] in Hc.
  destruct (IH Hr) as [cols Hcols]. cbn [map decode_cols fst snd]. fold (content c). rewrite Hc, Hcols. eauto.
Qed.

Lemma build_shape : forall f b, build f = Some b -> names_ok f -> shape f b /\ content b = Some [].
Proof.
  intros f. induction f as [name dt nullable IH] using Field_ind'. intros b.
  destruct dt as [| |k|k|k|n|k cf|n cf|fs|en kf vf|key val|ufs]; try (cbn [build]; discriminate).
  - cbn [build]. intros H _; injection H as <-. split; [split; [reflexivity|apply vnull_new]|].
    unfold content. cbn [into_array decode]. destruct nullable; reflexivity.
  - cbn [build]. destruct (prim_built k); [|discriminate]. intros H _; injection H as <-. split; [split; [reflexivity|apply vnull_new]|].
    unfold content. cbn [into_array decode map]. apply apply_validity_new.
  - cbn [build]. destruct k; try discriminate; intros H _; injection H as <-;
      (split; [repeat split; apply vnull_new|unfold content; cbn [into_array decode]; destruct nullable; reflexivity]).
  - cbn [build]. cbn [FieldIH] in IH. destruct (build cf) as [cb|] eqn:Ec; [|discriminate]. intros H Hn; injection H as <-.
    cbn [names_ok] in Hn. destruct (IH cb eq_refl Hn) as [Hs Hc]. split.
    + exists cf. repeat split; [apply vnull_new|exact Hs].
    + unfold content in *. cbn [into_array decode]. rewrite Hc. destruct nullable; reflexivity.
  - rewrite build_struct. cbn [FieldIH] in IH. destruct (build_fields fs) as [cs|] eqn:Eg; [|discriminate].
    intros H Hn; injection H as <-. cbn [names_ok] in Hn. destruct Hn as [Hnd Hgo].
    assert (Hch : ShapeCh fs cs /\ Forall (fun mb : Meta * Builder => content (snd mb) = Some []) cs).
    { clear Hnd. revert cs Eg Hgo. induction IH as [|cf r Hcf _ IHr]; intros cs Eg Hgo; cbn [build_fields] in Eg.
      - injection Eg as <-. split; constructor.
      - destruct (build cf) as [cb|] eqn:Ec; [|discriminate]. fold build_fields in Eg.
        destruct (build_fields r) as [rest|] eqn:Er; [|discriminate]. injection Eg as <-. destruct Hgo as [Hn1 Hn2].
        destruct (Hcf cb eq_refl Hn1) as [Hs1 Hc1]. destruct (IHr rest eq_refl Hn2) as [Hs2 Hc2].
        split; constructor; try assumption. split; [reflexivity|exact Hs1]. }
    destruct Hch as [Hsh Hcs]. split.
    + apply shape_struct. exists fs. repeat split; try assumption. apply vnull_new.
    + unfold content. cbn [into_array]. rewrite decode_struct. destruct (decode_cols_empty cs Hcs) as [cols Hcols]. rewrite Hcols.
      cbn [struct_rows map]. apply apply_validity_new.
Qed.

Lemma fold_push_sound top : forall recs (acc : Outcome Builder) b,
  fold_left (fun acc r => do b <- acc ;; push r b) recs acc = Ok b ->
  exists b0, acc = Ok b0 /\
    forall lvs0, shape top b0 -> WfB b0 -> content b0 = Some lvs0 ->
      exists lvs, Forall2 (fun r lv => interp top r = IOk lv) recs lvs /\ content b = Some (lvs0 ++ lvs) /\ shape top b /\ WfB b.
Proof.
  induction recs as [|r rest IH]; intros acc b H; cbn [fold_left] in H.
  - exists b. split; [exact H|]. intros lvs0 Hs Hw Hc. exists []. rewrite app_nil_r. repeat split; try assumption. constructor.
  - destruct (IH _ _ H) as (b1 & Hb1 & Hrest). apply bind_ok in Hb1 as (b0 & Hacc & Hp). exists b0. split; [exact Hacc|].
    intros lvs0 Hs Hw Hc. destruct (push_sound r top b0 b1 lvs0 Hs Hw Hc Hp) as (lv & Hi & Hc1 & Hs1).
    destruct (push_wf r b0 b1 Hw Hp) as [Hw1 _]. destruct (Hrest (lvs0 ++ [lv]) Hs1 Hw1 Hc1) as (lvs & HF & Hcb & Hsb & Hwb).
    exists (lv :: lvs). rewrite <- app_assoc in Hcb. repeat split; try assumption. constructor; assumption.
Qed.

(* a column of the transposed rows *)
Definition column_of (j : nat) (rows : list (list (bytes * LVal))) : list LVal :=
  map (fun row => match nth_error row j with Some (_, v) => v | None => LNull end) rows.

Lemma struct_rows_column : forall n cols rows, struct_rows n cols = Some rows ->
  Forall (fun c : bytes * list LVal => length (snd c) = n) cols ->
  forall j col, nth_error cols j = Some col -> snd col = column_of j rows.
Proof.
  induction n as [|n IH]; intros cols rows H Hl j col Hj; cbn [struct_rows] in H.
  - injection H as <-. rewrite Forall_forall in Hl. pose proof (Hl col (nth_error_In _ _ Hj)) as E. destruct (snd col); [reflexivity|discriminate].
  - match type of H with match ?g with _ => _ end = _ => destruct g as [r0|] eqn:E0; [|discriminate] end.
    destruct (struct_rows n _) as [rest|] eqn:Er; [|discriminate]. injection H as <-.
    unfold column_of. cbn [map].
    assert (Htl : Forall (fun c : bytes * list LVal => length (snd c) = n) (map (fun c : bytes * list LVal => (fst c, tl (snd c))) cols)).
    { apply Forall_map. eapply Forall_impl; [|exact Hl]. intros [k l] Hk. cbn [snd] in *. destruct l; [discriminate|]. cbn in *. lia. }
    assert (Hj' : nth_error (map (fun c : bytes * list LVal => (fst c, tl (snd c))) cols) j = Some (fst col, tl (snd col))) by (rewrite nth_error_map, Hj; reflexivity).
    pose proof (IH _ rest Er Htl j _ Hj') as Etl. cbn [snd] in Etl. fold (column_of j rest). rewrite <- Etl.
    clear - E0 Hj. revert r0 j E0 Hj. induction cols as [|[k l] r IHc]; intros r0 j E0 Hj; [destruct j; discriminate|].
    cbn [mapM_opt snd fst] in E0. destruct l as [|x xs]; [discriminate|]. destruct (mapM_opt _ r) as [ys|] eqn:Ey; [|discriminate]. injection E0 as <-.
    destruct j as [|j]; cbn [nth_error] in *.
    + injection Hj as <-. reflexivity.
    + apply (IHc ys j eq_refl Hj).
Qed.

Theorem to_marrow_sound fields recs arrs :
  names_ok (mkField [] (DStruct fields) false) -> to_marrow fields recs = Some (Ok arrs) ->
  exists rows, Forall2 (fun r lv => interp (mkField [] (DStruct fields) false) r = IOk lv) recs (map LStruct rows) /\
               forall j a, nth_error arrs j = Some a -> decode a = Some (column_of j rows).
Proof.
  intros Hn. unfold to_marrow. destruct (build (mkField [] (DStruct fields) false)) as [b0|] eqn:Eb; [|discriminate].
  intros H. injection H as H. apply bind_ok in H as (b & Hfold & H).
  destruct (build_wf _ _ Eb) as [Hw0 _]. destruct (build_shape _ _ Eb Hn) as [Hs0 Hc0].
  destruct (fold_push_sound (mkField [] (DStruct fields) false) _ _ _ Hfold) as (b0' & E & Hrest). injection E as <-.
  destruct (Hrest [] Hs0 Hw0 Hc0) as (lvs & HF & Hcb & Hsb & Hwb). cbn [app] in Hcb.
  destruct b as [| | | |len v cs]; try discriminate. injection H as <-.
  apply shape_struct in Hsb as (fs & Hd & Hv & _ & _). unfold vnull in Hv. cbn [fnullable'] in Hv. destruct v as [buf|]; [discriminate|].
  apply WfB_struct in Hwb as [_ Hch]. unfold content in Hcb. cbn [into_array] in Hcb. rewrite decode_struct in Hcb.
  destruct (decode_cols _) as [cols|] eqn:Ec; [|discriminate]. destruct (struct_rows len cols) as [rows|] eqn:Er; [|discriminate].
  cbn [some_bitmap apply_validity] in Hcb. injection Hcb as <-. exists rows. split; [exact HF|].
  intros j a Ha. rewrite nth_error_map in Ha. destruct (nth_error cs j) as [[m c]|] eqn:Ej; [|discriminate]. cbn in Ha. injection Ha as <-.
  destruct (cols_lengths cs cols len Hch Ec) as [Hl _].
  (* column j of the decoded columns is the content of child j *)
  assert (Hcol : exists col, nth_error cols j = Some col /\ decode (into_array c) = Some (snd col)).
  { clear - Ec Ej. revert cols j Ec Ej. induction cs as [|[m0 c0] r IH]; intros cols j Ec Ej; [destruct j; discriminate|].
    cbn [map decode_cols fst snd] in Ec. destruct (decode (into_array c0)) as [vs|] eqn:Ev; [|discriminate].
    destruct (decode_cols _) as [rest|] eqn:Er; [|discriminate]. injection Ec as <-. destruct j as [|j]; cbn [nth_error] in *.
    - injection Ej as <- <-. exists (m_name m0, vs). split; [reflexivity|exact Ev].
    - apply (IH rest j eq_refl Ej). }
  destruct Hcol as (col & Hcj & Hdec). rewrite Hdec. f_equal. apply (struct_rows_column len cols rows Er Hl j col Hcj).
Qed.
