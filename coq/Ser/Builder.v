(* Model of the array builders (serde_arrow/src/internal/serialization/*_builder.rs and
   utils/array_ext.rs) for the core kinds: Boolean, the eight integer types, Float32 / Float64 (same width), the integer
   presentation of the temporal kinds, Utf8/LargeUtf8,
   List/LargeList and Struct, each nullable or not, nested to any depth.  One transition per
   serde value; the transient per-record state of the struct builder (seen flags) is threaded
   through the fold over the presented fields. *)
From Verif Require Export Bits Value.
Local Open Scope nat_scope.

Inductive Builder :=
| BdBool (validity : option (list N)) (values : list N) (len : nat)
| BdPrim (k : PrimKind) (validity : option (list N)) (values : list Z)
| BdUtf8 (k : BytesKind) (validity : option (list N)) (offsets : list Z) (data : list N)
| BdList (k : ListKind) (validity : option (list N)) (offsets : list Z) (meta : Meta) (elems : Builder)
| BdStruct (len : nat) (validity : option (list N)) (fields : list (Meta * Builder)).

(* primitive columns inside the model: integers, Float32 / Float64 (bit patterns), and the integer
   presentation of Date32 / Date64 / Time32 / Time64 / Timestamp / Duration (text is C14's) *)
Definition prim_built (p : PrimKind) : bool :=
  match p with
  | PInt _ | PF32 | PF64 | PDate32 | PDate64 | PDuration _ => true
  | PTime32 (Second | Millisecond) | PTime64 (Microsecond | Nanosecond) => true
  | PTimestamp _ None => true
  | PTimestamp _ (Some tz) => bytes_eqb tz (b "UTC")
  | _ => false
  end.

Definition new_validity (nullable : bool) : option (list N) := if nullable then Some [] else None.
Definition meta_of (f : Field) : Meta := {| m_name := fname' f; m_nullable := fnullable' f |}.

(* build_builder; None = a data type outside the modelled core *)
Fixpoint build (f : Field) : option Builder :=
  match f with
  | mkField _ dt nullable =>
    match dt with
    | DBool => Some (BdBool (new_validity nullable) [] 0)
    | DPrim p => if prim_built p then Some (BdPrim p (new_validity nullable) []) else None
    | DBytes BUtf8 => Some (BdUtf8 BUtf8 (new_validity nullable) [0%Z] [])
    | DBytes BLargeUtf8 => Some (BdUtf8 BLargeUtf8 (new_validity nullable) [0%Z] [])
    | DBytes BBinary => Some (BdUtf8 BBinary (new_validity nullable) [0%Z] [])
    | DBytes BLargeBinary => Some (BdUtf8 BLargeBinary (new_validity nullable) [0%Z] [])
    | DList k cf =>
      match build cf with
      | Some cb => Some (BdList k (new_validity nullable) [0%Z] (meta_of cf) cb)
      | None => None end
    | DStruct fs =>
      match (fix go (fs : list Field) : option (list (Meta * Builder)) :=
               match fs with
               | [] => Some []
               | cf :: r => match build cf, go r with
                            | Some cb, Some rest => Some ((meta_of cf, cb) :: rest) | _, _ => None end
               end) fs with
      | Some cs => Some (BdStruct 0 (new_validity nullable) cs)
      | None => None end
    | _ => None
    end
  end.

(* set_validity: a null for a non-nullable array is refused *)
Definition set_validity (v : option (list N)) (idx : nat) (value : bool) : Outcome (option (list N)) :=
  match v with
  | Some buf => Ok (Some (set_bit buf idx value))
  | None => if value then Ok None else Err
  end.
Definition set_validity_default (v : option (list N)) (idx : nat) : option (list N) :=
  match v with Some buf => Some (set_bit buf idx false) | None => None end.

Definition duplicate_last (offs : list Z) : list Z := offs ++ [last offs 0%Z].
(* increment_last: `*last = *last + O::try_form_usize(inc)?`; the addition is unchecked in the
   Rust code, so leaving the offset type's range is a panic in an overflow-checked build *)
Definition increment_last (wide : bool) (offs : list Z) (inc : nat) : Outcome (list Z) :=
  let k := if wide then I64 else I32 in
  if negb (in_int k (Z.of_nat inc)) then Err
  else let nl := (last offs 0 + Z.of_nat inc)%Z in
       if in_int k nl then Ok (removelast offs ++ [nl]) else Panic POverflow.

Definition list_wide (k : ListKind) : bool := match k with KLargeList => true | KList => false end.

(* serialize_default: a placeholder row (below a null parent) *)
Fixpoint push_default (b : Builder) : Builder :=
  match b with
  | BdBool v vals len => BdBool (set_validity_default v len) (set_bit vals len false) (S len)
  | BdPrim k v vals => BdPrim k (set_validity_default v (length vals)) (vals ++ [0%Z])
  | BdUtf8 k v offs data => BdUtf8 k (set_validity_default v (length offs - 1)) (duplicate_last offs) data
  | BdList k v offs m e => BdList k (set_validity_default v (length offs - 1)) (duplicate_last offs) m e
  | BdStruct len v fs =>
    BdStruct (S len) (set_validity_default v len) (map (fun mb => (fst mb, push_default (snd mb))) fs)
  end.

(* serialize_none *)
Definition push_none (b : Builder) : Outcome Builder :=
  match b with
  | BdBool v vals len => do v' <- set_validity v len false ;; Ok (BdBool v' (set_bit vals len false) (S len))
  | BdPrim k v vals => do v' <- set_validity v (length vals) false ;; Ok (BdPrim k v' (vals ++ [0%Z]))
  | BdUtf8 k v offs data => do v' <- set_validity v (length offs - 1) false ;; Ok (BdUtf8 k v' (duplicate_last offs) data)
  | BdList k v offs m e => do v' <- set_validity v (length offs - 1) false ;; Ok (BdList k v' (duplicate_last offs) m e)
  | BdStruct len v fs =>
    do v' <- set_validity v len false ;;
    Ok (BdStruct (S len) v' (map (fun mb => (fst mb, push_default (snd mb))) fs))
  end.

Fixpoint index_of (name : bytes) (fs : list (Meta * Builder)) : option nat :=
  match fs with
  | [] => None
  | (m, _) :: r => if bytes_eqb (m_name m) name then Some 0 else option_map S (index_of name r)
  end.

Fixpoint update_nth {A} (l : list A) (i : nat) (x : A) : list A :=
  match l, i with
  | [], _ => []
  | _ :: r, O => x :: r
  | y :: r, S j => y :: update_nth r j x
  end.

(* end of a record: unseen nullable -> null, unseen required -> error *)
Fixpoint finish_record (fs : list (Meta * Builder)) (seen : list bool) : Outcome (list (Meta * Builder)) :=
  match fs, seen with
  | (m, cb) :: r, s :: seen' =>
    do cb' <- (if s then Ok cb else if m_nullable m then push_none cb else Err) ;;
    do rest <- finish_record r seen' ;;
    Ok ((m, cb') :: rest)
  | [], _ => Ok []
  | _ :: _, [] => Panic PIndex
  end.

Definition prim_value (p : PrimKind) (v : Value) : Outcome Z :=
  match p with
  | PInt k =>
    match v with
    | VInt _ z => if in_int k z then Ok z else Err
    | VBool x => Ok (if x then 1 else 0)%Z
    | VChar c => if in_int k c then Ok c else Err
    | _ => Err
    end
  (* FloatBuilder: the same width is stored bit for bit; integers, chars and the other float width are cast to the nearest float (FloatOfInt.v) *)
  | PF32 => match v with VF32 x => if in_int U32 x then Ok x else Err | VF64 x => if in_int U32 (f32_of_f64 x) then Ok (f32_of_f64 x) else Err | VInt _ z | VChar z => if in_int U32 (f32_of_int z) then Ok (f32_of_int z) else Err | _ => Err end
  | PF64 => match v with VF64 x => if in_int U64 x then Ok x else Err | VF32 x => if in_int U64 (f64_of_f32 x) then Ok (f64_of_f32 x) else Err | VInt _ z | VChar z => if in_int U64 (f64_of_int z) then Ok (f64_of_int z) else Err | _ => Err end
  (* DateBuilder / TimeBuilder: serialize_i32 / serialize_i64 through try_from *)
  | PDate32 | PTime32 _ => match v with VInt (I32 | I64) z => if in_int I32 z then Ok z else Err | _ => Err end
  | PDate64 | PTime64 _ => match v with VInt (I32 | I64) z => if in_int I64 z then Ok z else Err | _ => Err end
  (* TimestampBuilder: serialize_i64 *)
  | PTimestamp _ _ => match v with VInt I64 z => if in_int I64 z then Ok z else Err | _ => Err end
  (* DurationBuilder: every integer width through try_from *)
  | PDuration _ => match v with VInt _ z => if in_int I64 z then Ok z else Err | _ => Err end
  | _ => Err
  end.

(* KeyLookupSerializer: key_name (Value.v) *)

(* the loops of the container builders, over the function that pushes one value into a child *)
Section Loops.
  Variable pushf : Value -> Builder -> Outcome Builder.

  (* ListBuilder: element() = push_seq_elements(1) then serialize the element into the child *)
  Fixpoint list_loop (wide : bool) (l : list Value) (offs : list Z) (e : Builder) {struct l}
    : Outcome (list Z * Builder) :=
    match l with
    | [] => Ok (offs, e)
    | x :: r =>
      do offs' <- increment_last wide offs 1 ;;
      do e' <- pushf x e ;;
      list_loop wide r offs' e'
    end.

  Definition RecState := (list (Meta * Builder) * list bool)%type.

  (* StructBuilder::element(idx, value) *)
  Definition struct_element (st : RecState) (idx : nat) (x : Value) : Outcome RecState :=
    if nth idx (snd st) false then Err                         (* duplicate field *)
    else match nth_error (fst st) idx with
         | Some (m, cb) =>
           do cb' <- pushf x cb ;;
           Ok (update_nth (fst st) idx (m, cb'), update_nth (snd st) idx true)
         | None => Panic PIndex
         end.

  (* serialize_struct_field: unknown names are ignored *)
  Fixpoint struct_loop (l : list (bytes * Value)) (st : RecState) {struct l} : Outcome RecState :=
    match l with
    | [] => Ok st
    | (name, x) :: r =>
      match index_of name (fst st) with
      | None => struct_loop r st
      | Some idx => do st' <- struct_element st idx x ;; struct_loop r st'
      end
    end.

  (* serialize_map_key / serialize_map_value *)
  Fixpoint map_loop (l : list (Value * Value)) (st : RecState) {struct l} : Outcome RecState :=
    match l with
    | [] => Ok st
    | (k, x) :: r =>
      match key_name k with
      | None => Err
      | Some name =>
        match index_of name (fst st) with
        | None => map_loop r st
        | Some idx => do st' <- struct_element st idx x ;; map_loop r st'
        end
      end
    end.

  (* serialize_tuple_element / serialize_tuple_struct_field: positions in order, extras ignored *)
  Fixpoint tuple_loop (l : list Value) (idx : nat) (st : RecState) {struct l} : Outcome RecState :=
    match l with
    | [] => Ok st
    | x :: r =>
      if Nat.ltb idx (length (fst st))
      then do st' <- struct_element st idx x ;; tuple_loop r (S idx) st'
      else Ok st
    end.
End Loops.

(* BinaryBuilder: serialize_bytes, or a sequence / tuple of u8 collected element by element (a str is refused) *)
Definition binary_of_value (v : Value) : Outcome (list N) :=
  match v with
  | VBytes s => Ok s
  | VSeq l | VTuple l | VTupleStruct l =>
    match iall_then (map byte_of_value l) (fun vs => IOk (LBytes (bytes_of_lvals vs))) with IOk (LBytes s) => Ok s | _ => Err end
  | _ => Err
  end.

(* a scalar pushed into a leaf builder (what `push` does for scalars); used for the bytes of a
   `serialize_bytes` call on a list column, which are pushed one by one as u8 into the child *)
Definition push_scalar (v : Value) (b : Builder) : Outcome Builder :=
  match b with
  | BdBool val vals len =>
    match v with
    | VBool x => do val' <- set_validity val len true ;; Ok (BdBool val' (set_bit vals len x) (S len))
    | _ => Err
    end
  | BdPrim k val vals =>
    do z <- prim_value k v ;;
    do val' <- set_validity val (length vals) true ;; Ok (BdPrim k val' (vals ++ [z]))
  | BdUtf8 k val offs data =>
    if is_utf8_kind k then
    match text_of_scalar v with
    | IOk (LBytes s) =>
      do val' <- set_validity val (length offs - 1) true ;;
      do offs' <- increment_last (is_wide k) (duplicate_last offs) (length s) ;;
      Ok (BdUtf8 k val' offs' (data ++ s))
    | _ => Err
    end
    else Err      (* a u8 presented to a binary child of a list column: refused *)
  | _ => Err
  end.

Fixpoint push (v : Value) (b : Builder) {struct v} : Outcome Builder :=
  match v with
  | VNone | VUnit | VUnitStruct => push_none b
  | VSome x | VNewtypeStruct x => push x b
  | _ =>
    match b with
    | BdBool val vals len =>
      match v with
      | VBool x => do val' <- set_validity val len true ;; Ok (BdBool val' (set_bit vals len x) (S len))
      | _ => Err
      end
    | BdPrim k val vals =>
      do z <- prim_value k v ;;
      do val' <- set_validity val (length vals) true ;; Ok (BdPrim k val' (vals ++ [z]))
    | BdUtf8 k val offs data =>
      (* str, and char / bool / integers / unit variants through to_string (floats: not modelled) *)
      if is_utf8_kind k then
      match text_of_scalar v with
      | IOk (LBytes s) =>
        do val' <- set_validity val (length offs - 1) true ;;
        do offs' <- increment_last (is_wide k) (duplicate_last offs) (length s) ;;
        Ok (BdUtf8 k val' offs' (data ++ s))
      | _ => Err
      end
      else
      do s <- binary_of_value v ;;
      do val' <- set_validity val (length offs - 1) true ;;
      do offs' <- increment_last (is_wide k) (duplicate_last offs) (length s) ;;
      Ok (BdUtf8 k val' offs' (data ++ s))
    | BdList k val offs m e =>
      match v with
      | VSeq l | VTuple l | VTupleStruct l =>
        do val' <- set_validity val (length offs - 1) true ;;
        do oe <- list_loop push (list_wide k) l (duplicate_last offs) e ;;
        Ok (BdList k val' (fst oe) m (snd oe))
      | VBytes s =>
        do val' <- set_validity val (length offs - 1) true ;;
        do oe <- list_loop push_scalar (list_wide k) (map (fun c => VInt U8 (Z.of_N c)) s) (duplicate_last offs) e ;;
        Ok (BdList k val' (fst oe) m (snd oe))
      | _ => Err
      end
    | BdStruct len val fs =>
      let start : RecState := (fs, repeat false (length fs)) in
      let finish (val' : option (list N)) (st : RecState) : Outcome Builder :=
          do fs' <- finish_record (fst st) (snd st) ;; Ok (BdStruct (S len) val' fs') in
      match v with
      | VStruct fields =>
        do val' <- set_validity val len true ;; do st <- struct_loop push fields start ;; finish val' st
      | VMap kvs =>
        do val' <- set_validity val len true ;; do st <- map_loop push kvs start ;; finish val' st
      | VTuple l | VTupleStruct l =>
        do val' <- set_validity val len true ;; do st <- tuple_loop push l 0 start ;; finish val' st
      | _ => Err
      end
    end
  end.

Definition some_bitmap (v : option (list N)) : option Bitmap :=
  match v with Some d => Some {| bm_off := 0; bm_data := d |} | None => None end.

Fixpoint into_array (b : Builder) : Arr :=
  match b with
  | BdBool v vals len => ABool len (some_bitmap v) {| bm_off := 0; bm_data := vals |}
  | BdPrim k v vals => APrim k (some_bitmap v) vals
  | BdUtf8 k v offs data => ABytes k (some_bitmap v) offs data
  | BdList k v offs m e => AList k (some_bitmap v) offs m (into_array e)
  | BdStruct len v fs => AStruct len (some_bitmap v) (map (fun mb => (fst mb, into_array (snd mb))) fs)
  end.

(* to_marrow: the top level is a non-nullable struct over the schema fields; every row is pushed
   into it and its children are the returned arrays *)
Definition to_marrow (fields : list Field) (rows : list Value) : option (Outcome (list Arr)) :=
  match build (mkField [] (DStruct fields) false) with
  | Some b0 =>
    Some (do b <- fold_left (fun acc r => do b <- acc ;; push r b) rows (Ok b0) ;;
          match b with
          | BdStruct _ _ fs => Ok (map (fun mb => into_array (snd mb)) fs)
          | _ => Err
          end)
  | None => None
  end.

(* number of rows a builder holds *)
Definition rows (b : Builder) : nat :=
  match b with
  | BdBool _ _ len => len
  | BdPrim _ _ vals => length vals
  | BdUtf8 _ _ offs _ => length offs - 1
  | BdList _ _ offs _ _ => length offs - 1
  | BdStruct len _ _ => len
  end.
