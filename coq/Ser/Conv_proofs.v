From Verif Require Import Conv Builder_proofs.
Require Import ZifyBool.
Local Open Scope Z_scope.

(* ---- writing ---- *)
Theorem ser_int_exact k w z val vals b' :
  push (VInt w z) (BdPrim (PInt k) val vals) = Ok b' ->
  in_int k z = true /\ exists val', b' = BdPrim (PInt k) val' (vals ++ [z]).
Proof.
  cbn [push prim_value]. destruct (in_int k z) eqn:E; cbn [bind]; [|discriminate].
  destruct (set_validity val (length vals) true) as [val'| |p]; cbn [bind]; try discriminate.
  intros H; inversion H; subst. split; [reflexivity|]. eexists; reflexivity.
Qed.

Theorem ser_int_out_of_range k w z val vals : in_int k z = false -> push (VInt w z) (BdPrim (PInt k) val vals) = Err.
Proof. intros E. cbn [push prim_value]. rewrite E. reflexivity. Qed.

Theorem ser_int_total k w z val vals : in_int k z = true ->
  exists val', push (VInt w z) (BdPrim (PInt k) val vals) = Ok (BdPrim (PInt k) val' (vals ++ [z])).
Proof.
  intros E. cbn [push prim_value]. rewrite E. cbn [bind]. unfold set_validity. destruct val as [v|]; cbn [bind]; eexists; reflexivity.
Qed.

Theorem ser_char_exact k c val vals b' :
  push (VChar c) (BdPrim (PInt k) val vals) = Ok b' -> in_int k c = true /\ exists val', b' = BdPrim (PInt k) val' (vals ++ [c]).
Proof.
  cbn [push prim_value]. destruct (in_int k c) eqn:E; cbn [bind]; [|discriminate].
  destruct (set_validity val (length vals) true) as [val'| |p]; cbn [bind]; try discriminate.
  intros H; inversion H; subst. split; [reflexivity|]. eexists; reflexivity.
Qed.

(* null for a non-nullable column (no validity buffer) is refused, for every builder kind *)
Theorem ser_null_non_nullable_prim k vals : push VNone (BdPrim k None vals) = Err.
Proof. reflexivity. Qed.
Theorem ser_null_non_nullable_bool vals len : push VNone (BdBool None vals len) = Err.
Proof. reflexivity. Qed.
Theorem ser_null_non_nullable_utf8 k offs data : push VNone (BdUtf8 k None offs data) = Err.
Proof. reflexivity. Qed.
Theorem ser_null_non_nullable_list k offs m e : push VNone (BdList k None offs m e) = Err.
Proof. reflexivity. Qed.
Theorem ser_null_non_nullable_struct len fs : push VNone (BdStruct len None fs) = Err.
Proof. reflexivity. Qed.

(* a wrong kind of value is refused, never coerced *)
Theorem ser_wrong_kind_prim k val vals v :
  match v with VInt _ _ | VBool _ | VChar _ | VNone | VUnit | VUnitStruct | VSome _ | VNewtypeStruct _ => False | _ => True end ->
  push v (BdPrim (PInt k) val vals) = Err.
Proof. destruct v; cbn; intros H; try contradiction; reflexivity. Qed.

(* end of a record: an unseen required field is an error, an unseen nullable field becomes null *)
Theorem missing_required_field m cb r seen : m_nullable m = false -> finish_record ((m, cb) :: r) (false :: seen) = Err.
Proof. intros E. cbn [finish_record]. rewrite E. reflexivity. Qed.

Theorem missing_nullable_field m cb r seen fs' : m_nullable m = true ->
  finish_record ((m, cb) :: r) (false :: seen) = Ok fs' ->
  exists cb' rest, fs' = (m, cb') :: rest /\ push_none cb = Ok cb'.
Proof.
  intros E. cbn [finish_record]. rewrite E. destruct (push_none cb) as [cb'| |p]; cbn [bind]; try discriminate.
  destruct (finish_record r seen) as [rest| |p]; cbn [bind]; try discriminate.
  intros H; inversion H; subst. eexists; eexists; split; reflexivity.
Qed.

(* a field given twice is an error *)
Theorem duplicate_field pushf fs seen idx x : nth idx seen false = true -> struct_element pushf (fs, seen) idx x = Err.
Proof. intros H. unfold struct_element. cbn [fst snd]. rewrite H. reflexivity. Qed.

(* offsets never exceed their index type silently *)
Theorem offsets_checked wide offs inc offs' : increment_last wide offs inc = Ok offs' ->
  in_int (if wide then I64 else I32) (last offs' 0) = true.
Proof.
  unfold increment_last. destruct (negb (in_int (if wide then I64 else I32) (Z.of_nat inc))); [discriminate|].
  destruct (in_int (if wide then I64 else I32) (last offs 0 + Z.of_nat inc)) eqn:Er; [|discriminate].
  intros H; inversion H; subst. rewrite last_last. exact Er.
Qed.

(* ---- reading ---- *)
Theorem de_int_exact req z d : conv_de_int req z = Ok d -> denote d = z \/ (req = RBool /\ d = VdBool (negb (z =? 0))).
Proof.
  destruct req as [k| | | | |]; cbn [conv_de_int]; try discriminate.
  - destruct (in_int k z); [|discriminate]. intros H; inversion H; subst. left; reflexivity.
  - intros H; inversion H; subst. right. split; reflexivity.
  - destruct (in_int U32 z && valid_char z); [|discriminate]. intros H; inversion H; subst. left; reflexivity.
Qed.

Theorem de_int_total k z : in_int k z = true <-> conv_de_int (RInt k) z = Ok (VdInt z).
Proof. cbn [conv_de_int]. destruct (in_int k z); split; intros H; try reflexivity; try discriminate. Qed.

Theorem de_int_out_of_range k z : in_int k z = false -> conv_de_int (RInt k) z = Err.
Proof. intros E. cbn [conv_de_int]. rewrite E. reflexivity. Qed.

Theorem de_char_valid z d : conv_de_int RChar z = Ok d -> d = VdChar z /\ valid_char z = true.
Proof. cbn [conv_de_int]. destruct (in_int U32 z) eqn:E1, (valid_char z) eqn:E2; cbn; try discriminate. intros H; inversion H; split; reflexivity. Qed.
