(* C03 for the builder core: the arrays a builder emits are well formed for the field it was built
   for (wf_arr, strict and non-strict), in every reachable state.  Besides the lock-step invariant
   WfB (Builder_proofs.v) this needs: stored integers in the range of their type, offsets starting
   at 0, monotone and inside their index type, and valid UTF-8 in every slot of a string column
   (for inputs whose text is valid UTF-8, which Rust's str / char guarantee by type). *)
From Verif Require Import Builder Builder_proofs Bits_proofs Reader_proofs Decode_proofs Refine_proofs Decimal_proofs Take Take_proofs.
Require Import ZifyBool ZifyN ZifyNat.
Local Open Scope nat_scope.

(* ---------------- text ---------------- *)
Lemma utf8_ascii s : Forall (fun c => (c < 128)%N) s -> utf8_valid s = true.
Proof. induction 1 as [|c r Hc _ IH]; [reflexivity|]. cbn [utf8_valid]. destruct (N.ltb_spec c 128); [exact IH|lia]. Qed.

Lemma print_N_ascii n : Forall (fun c => (c < 128)%N) (print_N n).
Proof.
  unfold print_N. apply Forall_map. apply Forall_rev. eapply Forall_impl; [|apply le_digits_range]. intros d Hd. cbn beta in *. lia.
Qed.

Lemma print_Z_utf8 z : utf8_valid (print_Z z) = true.
Proof.
  apply utf8_ascii. unfold print_Z. destruct (z <? 0)%Z; [constructor; [lia|]|]; apply print_N_ascii.
Qed.

Definition leaf_text_ok (v : Value) : Prop :=
  match text_of_scalar v with IOk (LBytes s) => utf8_valid s = true | _ => True end.

(* every string-like leaf of the value renders to valid UTF-8 *)
Fixpoint text_ok (v : Value) : Prop :=
  match v with
  | VSome x | VNewtypeStruct x => text_ok x
  | VSeq l | VTuple l | VTupleStruct l => (fix go (l : list Value) : Prop := match l with [] => True | x :: r => text_ok x /\ go r end) l
  | VMap kvs => (fix go (l : list (Value * Value)) : Prop := match l with [] => True | (_, x) :: r => text_ok x /\ go r end) kvs
  | VStruct fs => (fix go (l : list (bytes * Value)) : Prop := match l with [] => True | (_, x) :: r => text_ok x /\ go r end) fs
  | _ => leaf_text_ok v
  end.

Lemma text_ok_seq l : (fix go (l : list Value) : Prop := match l with [] => True | x :: r => text_ok x /\ go r end) l <-> Forall text_ok l.
Proof. induction l as [|x r IH]; [split; constructor|]. split; [intros [H1 H2]; constructor; [exact H1|apply IH, H2]|intros H; inversion H; subst; split; [assumption|apply IH; assumption]]. Qed.
Lemma text_ok_map l : (fix go (l : list (Value * Value)) : Prop := match l with [] => True | (_, x) :: r => text_ok x /\ go r end) l <-> Forall (fun kv => text_ok (snd kv)) l.
Proof. induction l as [|[k x] r IH]; [split; constructor|]. split; [intros [H1 H2]; constructor; [exact H1|apply IH, H2]|intros H; inversion H; subst; split; [assumption|apply IH; assumption]]. Qed.
Lemma text_ok_struct l : (fix go (l : list (bytes * Value)) : Prop := match l with [] => True | (_, x) :: r => text_ok x /\ go r end) l <-> Forall (fun nv => text_ok (snd nv)) l.
Proof. induction l as [|[k x] r IH]; [split; constructor|]. split; [intros [H1 H2]; constructor; [exact H1|apply IH, H2]|intros H; inversion H; subst; split; [assumption|apply IH; assumption]]. Qed.

(* ---------------- offsets ---------------- *)
Definition OffsX (wide : bool) (offs : list Z) : Prop :=
  hd 1%Z offs = 0%Z /\ monotone (hd 0%Z offs) (tl offs) = true /\ in_int (if wide then I64 else I32) (last offs 0%Z) = true.

Lemma monotone_snoc : forall r o0 x, monotone o0 r = true -> (last (o0 :: r) 0 <= x)%Z -> monotone o0 (r ++ [x]) = true.
Proof.
  induction r as [|o1 r IH]; intros o0 x Hm Hl; cbn [app monotone] in *.
  - cbn [last] in Hl. destruct (Z.leb_spec o0 x); [reflexivity|lia].
  - apply andb_true_iff in Hm as [H1 H2]. rewrite H1. cbn [andb]. apply IH; [exact H2|]. destruct r; exact Hl.
Qed.

Lemma monotone_last : forall r o0, monotone o0 r = true -> (o0 <= last (o0 :: r) 0)%Z.
Proof.
  induction r as [|o1 r IH]; intros o0 Hm; [cbn; lia|]. cbn [monotone] in Hm. apply andb_true_iff in Hm as [H1 H2].
  apply Z.leb_le in H1. specialize (IH o1 H2). change (last (o0 :: o1 :: r) 0%Z) with (last (o1 :: r) 0%Z). lia.
Qed.

Lemma monotone_removelast : forall r o0, monotone o0 r = true -> monotone o0 (removelast r) = true.
Proof.
  induction r as [|o1 r IH]; intros o0 Hm; [reflexivity|]. cbn [monotone] in Hm. apply andb_true_iff in Hm as [H1 H2].
  destruct r as [|o2 r']; [reflexivity|]. change (removelast (o1 :: o2 :: r')) with (o1 :: removelast (o2 :: r')). cbn [monotone]. rewrite H1. apply IH. exact H2.
Qed.

Lemma OffsX_snoc wide offs x : offs <> [] -> OffsX wide offs -> (last offs 0 <= x)%Z -> in_int (if wide then I64 else I32) x = true -> OffsX wide (offs ++ [x]).
Proof.
  intros Hne (Hh & Hm & _) Hl Hi. destruct offs as [|o0 r]; [congruence|]. unfold OffsX. cbn [hd tl app] in *. repeat split.
  - exact Hh.
  - apply monotone_snoc; assumption.
  - change (o0 :: r ++ [x]) with ((o0 :: r) ++ [x]). rewrite last_last. exact Hi.
Qed.

Lemma OffsX_dup wide offs : offs <> [] -> OffsX wide offs -> OffsX wide (duplicate_last offs).
Proof. intros Hne H. unfold duplicate_last. apply OffsX_snoc; try assumption; [lia|apply H]. Qed.

Lemma OffsX_removelast_snoc wide offs x : length offs >= 2 -> OffsX wide offs -> (last offs 0 <= x)%Z -> in_int (if wide then I64 else I32) x = true ->
  OffsX wide (removelast offs ++ [x]).
Proof.
  intros Hlen (Hh & Hm & _) Hl Hi. destruct offs as [|o0 [|o1 r]]; cbn [length] in Hlen; try lia.
  change (removelast (o0 :: o1 :: r)) with (o0 :: removelast (o1 :: r)). unfold OffsX. cbn [hd tl app] in *. repeat split.
  - exact Hh.
  - apply monotone_snoc; [apply monotone_removelast; exact Hm|].
    pose proof (monotone_last _ _ (monotone_removelast _ _ Hm)) as H1.
    assert (H2 : (last (o0 :: removelast (o1 :: r)) 0 <= last (o0 :: o1 :: r) 0)%Z).
    { clear - Hm. revert o0 o1 Hm. induction r as [|o2 r IH]; intros o0 o1 Hm.
      - cbn in *. apply andb_true_iff in Hm as [H _]. lia.
      - cbn [monotone] in Hm. apply andb_true_iff in Hm as [H1 H2]. specialize (IH o1 o2 H2).
        change (removelast (o1 :: o2 :: r)) with (o1 :: removelast (o2 :: r)).
        change (last (o0 :: o1 :: removelast (o2 :: r)) 0%Z) with (last (o1 :: removelast (o2 :: r)) 0%Z).
        change (last (o0 :: o1 :: o2 :: r) 0%Z) with (last (o1 :: o2 :: r) 0%Z). exact IH. }
    lia.
  - change (o0 :: removelast (o1 :: r) ++ [x]) with ((o0 :: removelast (o1 :: r)) ++ [x]). rewrite last_last. exact Hi.
Qed.

Lemma increment_last_offsx wide offs n offs' : length offs >= 2 -> OffsX wide offs -> increment_last wide offs n = Ok offs' ->
  OffsX wide offs' /\ length offs' = length offs.
Proof.
  intros Hlen Hx. unfold increment_last. destruct (in_int _ (Z.of_nat n)) eqn:E1; cbn [negb]; [|discriminate].
  destruct (in_int _ (last offs 0 + Z.of_nat n)%Z) eqn:E2; [|discriminate]. intros H. injection H as <-. split.
  - apply OffsX_removelast_snoc; try assumption; try lia; destruct wide; exact E2.
  - rewrite app_length, removelast_len. cbn. lia.
Qed.

(* ---------------- the value-level invariant ---------------- *)
Definition U8Inv (offs : list Z) (data : list N) : Prop :=
  exists rs, ranges data offs = Some rs /\ Forall (fun s => utf8_valid s = true) rs.

Fixpoint Inv2 (b : Builder) : Prop :=
  match b with
  | BdBool _ _ _ => True
  | BdPrim k _ vals => Forall (fun z => prim_range k z = true) vals
  | BdUtf8 k _ offs data => OffsX (is_wide k) offs /\ (is_utf8_kind k = true -> U8Inv offs data)
  | BdList k _ offs _ e => OffsX (list_wide k) offs /\ Inv2 e
  | BdStruct _ _ cs => (fix go (cs : list (Meta * Builder)) : Prop := match cs with [] => True | (_, c) :: r => Inv2 c /\ go r end) cs
  end.

Lemma Inv2_struct len v cs : Inv2 (BdStruct len v cs) <-> Forall (fun mb => Inv2 (snd mb)) cs.
Proof.
  cbn [Inv2]. induction cs as [|[m c] r IH]; [split; constructor|].
  split; [intros [H1 H2]; constructor; [exact H1|apply IH, H2]|intros H; inversion H; subst; split; [assumption|apply IH; assumption]].
Qed.

Definition Good (b : Builder) : Prop := WfB b /\ Inv2 b.

(* ---------------- preservation ---------------- *)
Lemma in_int_0 k : in_int k 0 = true.
Proof. destruct k; reflexivity. Qed.
Lemma primkind_eqb_refl k : primkind_eqb k k = true.
Proof.
  destruct k as [i| | | | | |u|u|u tz|u|p sc]; cbn [primkind_eqb]; try reflexivity; try (destruct i; reflexivity); try (destruct u; reflexivity).
  - destruct u; (destruct tz as [t|]; cbn; [apply bytes_eqb_refl|reflexivity]).
  - rewrite N.eqb_refl, Z.eqb_refl. reflexivity.
Qed.
Lemma prim_range_0 k : prim_range k 0 = true.
Proof. destruct k as [i| | | | | |u|u|u tz|u|p sc]; try reflexivity. destruct i; reflexivity. Qed.

Lemma offs_len2 offs : offs <> [] -> length (duplicate_last offs) >= 2.
Proof. intros H. unfold duplicate_last. rewrite app_length. destruct offs; [congruence|cbn; lia]. Qed.

Lemma U8Inv_snoc offs data s : OffsOk offs (length data) -> U8Inv offs data -> utf8_valid s = true ->
  U8Inv (offs ++ [Z.of_nat (length data + length s)]) (data ++ s).
Proof.
  intros [_ Hl] (rs & Hr & Hv) Hs. exists (rs ++ [s]). split; [apply ranges_snoc; assumption|].
  apply Forall_app. split; [exact Hv|constructor; [exact Hs|constructor]].
Qed.

Lemma U8Inv_dup offs data : OffsOk offs (length data) -> U8Inv offs data -> U8Inv (duplicate_last offs) data.
Proof.
  intros Ho Hu. rewrite (dup_last_eq offs (length data) (proj2 Ho)). pose proof (U8Inv_snoc offs data [] Ho Hu eq_refl) as H.
  rewrite app_nil_r in H. exact H.
Qed.

Lemma push_default_inv2 : forall b, WfB b -> Inv2 b -> Inv2 (push_default b).
Proof.
  intros b. induction b as [v vals len|k v vals|k v offs data|k v offs m e IHe|len v cs IH] using Builder_ind'; intros Hw Hi; cbn [push_default].
  - exact I.
  - cbn [Inv2] in *. apply Forall_app. split; [exact Hi|constructor; [apply prim_range_0|constructor]].
  - destruct Hw as [_ Ho]. destruct Hi as [Hx Hu]. split; [apply OffsX_dup; [apply Ho|exact Hx]|intros Hk; apply U8Inv_dup; [assumption|apply Hu, Hk]].
  - destruct Hw as (_ & Ho & He). destruct Hi as [Hx Hie]. split; [apply OffsX_dup; [apply Ho|exact Hx]|exact Hie].
  - apply WfB_struct in Hw as [_ Hch]. apply Inv2_struct in Hi. apply Inv2_struct. apply Forall_map.
    unfold ChildrenOk in Hch. rewrite Forall_forall in *. intros mb Hin. cbn [snd]. apply (IH mb Hin); [apply (Hch mb Hin)|apply (Hi mb Hin)].
Qed.

Lemma push_none_inv2 b b' : WfB b -> Inv2 b -> push_none b = Ok b' -> Inv2 b'.
Proof.
  destruct b as [v vals len|k v vals|k v offs data|k v offs m e|len v cs]; cbn [push_none]; intros Hw Hi H;
    apply bind_ok in H as (v' & Hs & H); injection H as <-.
  - exact I.
  - cbn [Inv2] in *. apply Forall_app. split; [exact Hi|constructor; [apply prim_range_0|constructor]].
  - destruct Hw as [_ Ho]. destruct Hi as [Hx Hu]. split; [apply OffsX_dup; [apply Ho|exact Hx]|intros Hk; apply U8Inv_dup; [assumption|apply Hu, Hk]].
  - destruct Hw as (_ & Ho & He). destruct Hi as [Hx Hie]. split; [apply OffsX_dup; [apply Ho|exact Hx]|exact Hie].
  - apply WfB_struct in Hw as [_ Hch]. apply Inv2_struct in Hi. apply Inv2_struct. apply Forall_map.
    unfold ChildrenOk in Hch. rewrite Forall_forall in *. intros mb Hin. cbn [snd]. apply push_default_inv2; [apply (Hch mb Hin)|apply (Hi mb Hin)].
Qed.

Definition Pres2 (pushf : Value -> Builder -> Outcome Builder) (x : Value) : Prop :=
  forall b b', WfB b -> Inv2 b -> pushf x b = Ok b' -> Inv2 b'.

Lemma list_loop_inv2 pushf wide : forall l, Forall (Pres2 pushf) l -> Forall (PushOk pushf) l ->
  forall offs e offs' e', length offs >= 2 -> OffsX wide offs -> WfB e -> Inv2 e ->
    list_loop pushf wide l offs e = Ok (offs', e') -> OffsX wide offs' /\ Inv2 e'.
Proof.
  induction l as [|x r IH]; intros HS HP offs e offs' e' Hlen Hx Hw Hi H; cbn [list_loop] in H.
  - injection H as <- <-. split; assumption.
  - apply bind_ok in H as (offs1 & Hinc & H). apply bind_ok in H as (e1 & Hp & H).
    inversion HS as [|? ? Sx Sr]; subst. inversion HP as [|? ? Px Pr]; subst.
    destruct (increment_last_offsx _ _ _ _ Hlen Hx Hinc) as [Hx1 Hl1]. destruct (Px e e1 Hw Hp) as [Hw1 _].
    apply (IH Sr Pr offs1 e1 offs' e'); try assumption; [lia|exact (Sx e e1 Hw Hi Hp)].
Qed.

(* records: every child stays good *)
Definition GoodCh (cs : list (Meta * Builder)) : Prop := Forall (fun mb : Meta * Builder => WfB (snd mb) /\ Inv2 (snd mb)) cs.

Lemma update_nth_forall {A} (P : A -> Prop) : forall l i x, Forall P l -> P x -> Forall P (update_nth l i x).
Proof.
  induction l as [|y r IH]; intros i x Hl Hx; [destruct i; constructor|]. inversion Hl; subst.
  destruct i as [|i]; cbn [update_nth]; constructor; try assumption. apply IH; assumption.
Qed.

Lemma struct_element_good pushf st idx x st' : Pres2 pushf x -> PushOk pushf x -> GoodCh (fst st) ->
  struct_element pushf st idx x = Ok st' -> GoodCh (fst st').
Proof.
  intros HS HP Hg H. unfold struct_element in H. destruct (nth idx (snd st) false); [discriminate|].
  destruct (nth_error (fst st) idx) as [[m cb]|] eqn:E; [|discriminate]. apply bind_ok in H as (cb' & Hp & H). injection H as <-. cbn [fst].
  unfold GoodCh in *. pose proof Hg as Hg'. rewrite Forall_forall in Hg'. destruct (Hg' (m, cb) (nth_error_In _ _ E)) as [Hw Hi]. cbn [snd] in *.
  apply update_nth_forall; [exact Hg|]. cbn [snd]. split; [apply (HP cb cb' Hw Hp)|exact (HS cb cb' Hw Hi Hp)].
Qed.

Lemma struct_loop_good pushf : forall l st st', Forall (fun nv : bytes * Value => Pres2 pushf (snd nv)) l -> Forall (fun nv : bytes * Value => PushOk pushf (snd nv)) l ->
  GoodCh (fst st) -> struct_loop pushf l st = Ok st' -> GoodCh (fst st').
Proof.
  induction l as [|[name x] r IH]; intros st st' HS HP Hg H; cbn [struct_loop] in H; [injection H as <-; exact Hg|].
  inversion HS as [|? ? Sx Sr]; subst. inversion HP as [|? ? Px Pr]; subst. cbn [snd] in *.
  destruct (index_of name (fst st)) as [idx|]; [|apply (IH st st' Sr Pr Hg H)].
  apply bind_ok in H as (st1 & He & H). apply (IH st1 st' Sr Pr); [|exact H]. eapply struct_element_good; eassumption.
Qed.

Lemma map_loop_good pushf : forall l st st', Forall (fun kv : Value * Value => Pres2 pushf (snd kv)) l -> Forall (fun kv : Value * Value => PushOk pushf (snd kv)) l ->
  GoodCh (fst st) -> map_loop pushf l st = Ok st' -> GoodCh (fst st').
Proof.
  induction l as [|[k x] r IH]; intros st st' HS HP Hg H; cbn [map_loop] in H; [injection H as <-; exact Hg|].
  inversion HS as [|? ? Sx Sr]; subst. inversion HP as [|? ? Px Pr]; subst. cbn [snd] in *.
  destruct (key_name k) as [name|]; [|discriminate].
  destruct (index_of name (fst st)) as [idx|]; [|apply (IH st st' Sr Pr Hg H)].
  apply bind_ok in H as (st1 & He & H). apply (IH st1 st' Sr Pr); [|exact H]. eapply struct_element_good; eassumption.
Qed.

Lemma tuple_loop_good pushf : forall l idx st st', Forall (Pres2 pushf) l -> Forall (PushOk pushf) l ->
  GoodCh (fst st) -> tuple_loop pushf l idx st = Ok st' -> GoodCh (fst st').
Proof.
  induction l as [|x r IH]; intros idx st st' HS HP Hg H; cbn [tuple_loop] in H; [injection H as <-; exact Hg|].
  inversion HS as [|? ? Sx Sr]; subst. inversion HP as [|? ? Px Pr]; subst.
  destruct (Nat.ltb idx (length (fst st))); [|injection H as <-; exact Hg].
  apply bind_ok in H as (st1 & He & H). apply (IH (S idx) st1 st' Sr Pr); [|exact H]. eapply struct_element_good; eassumption.
Qed.

Lemma finish_record_good : forall cs seen cs', GoodCh cs -> finish_record cs seen = Ok cs' -> GoodCh cs'.
Proof.
  induction cs as [|[m c] r IH]; intros seen cs' Hg H.
  - cbn in H. injection H as <-. constructor.
  - destruct seen as [|s seen']; [discriminate H|]. cbn [finish_record] in H.
    apply bind_ok in H as (cb' & Hcb & H). apply bind_ok in H as (rest & Hr & H). injection H as <-.
    inversion Hg as [|? ? [Hw Hi] Hg']; subst. cbn [snd] in *. constructor; [|apply (IH seen' rest Hg' Hr)]. cbn [snd].
    destruct s; [injection Hcb as <-; split; assumption|]. destruct (m_nullable m); [|discriminate].
    split; [apply (push_none_wf c cb' Hw Hcb)|apply (push_none_inv2 c cb' Hw Hi Hcb)].
Qed.

Lemma goodch_of len v cs : WfB (BdStruct len v cs) -> Inv2 (BdStruct len v cs) -> GoodCh cs.
Proof.
  intros Hw Hi. apply WfB_struct in Hw as [_ Hch]. apply Inv2_struct in Hi. unfold GoodCh, ChildrenOk in *.
  rewrite Forall_forall in *. intros mb Hin. split; [apply (Hch mb Hin)|apply (Hi mb Hin)].
Qed.

Lemma inv2_of_goodch len v cs : GoodCh cs -> Inv2 (BdStruct len v cs).
Proof. intros H. apply Inv2_struct. unfold GoodCh in H. eapply Forall_impl; [|exact H]. intros mb [_ Hi]. exact Hi. Qed.

Lemma prim_value_range k x z : prim_value k x = Ok z -> prim_range k z = true.
Proof.
  destruct k as [i| | | | | |u|u|u tz|u|p sc]; destruct x; cbn [prim_value prim_range]; try discriminate;
    try (match goal with k0 : IntKind |- _ => destruct k0; try discriminate end);
    try (match goal with |- (if ?c then _ else _) = _ -> _ => destruct c eqn:E; [|discriminate] end);
    intros H; injection H as <-; try exact E; try (destruct v; reflexivity); try (destruct v, i; reflexivity).
Qed.

Lemma pres2_scalar v : scalar_like v = true -> leaf_text_ok v -> Pres2 push v.
Proof.
  intros Hsc Ht b b' Hw Hi Hp.
  destruct b as [val vals len|k val vals|k val offs data|k val offs m e|len val cs].
  - destruct v; try discriminate Hsc; cbn [push] in Hp; try discriminate Hp. apply bind_ok in Hp as (v' & _ & Hp). injection Hp as <-. exact I.
  - assert (Hp' : (do z <- prim_value k v ;; do val' <- set_validity val (length vals) true ;; Ok (BdPrim k val' (vals ++ [z]))) = Ok b')
      by (destruct v; try discriminate Hsc; exact Hp).
    apply bind_ok in Hp' as (z & Hz & Hp'). apply bind_ok in Hp' as (v' & _ & Hp'). injection Hp' as <-.
    cbn [Inv2] in *. apply Forall_app. split; [exact Hi|constructor; [apply (prim_value_range _ _ _ Hz)|constructor]].
  - destruct (is_utf8_kind k) eqn:Hk.
    2:{ exfalso. destruct v; try discriminate Hsc; cbn [push] in Hp; rewrite Hk in Hp; discriminate Hp. }
    assert (Hp' : match text_of_scalar v with
                  | IOk (LBytes s) => do val' <- set_validity val (length offs - 1) true ;;
                                      do offs' <- increment_last (is_wide k) (duplicate_last offs) (length s) ;;
                                      Ok (BdUtf8 k val' offs' (data ++ s))
                  | _ => Err end = Ok b') by (destruct v; try discriminate Hsc; cbn [push] in Hp; rewrite Hk in Hp; exact Hp).
    unfold leaf_text_ok in Ht. destruct (text_of_scalar v) as [[| | |s| | | |]| |] eqn:Et; try discriminate Hp'.
    apply bind_ok in Hp' as (v' & _ & Hp'). apply bind_ok in Hp' as (offs' & Hinc & Hp'). injection Hp' as <-.
    destruct Hw as [_ Ho]. destruct Hi as [Hx Hu]. split.
    + apply (increment_last_offsx _ _ _ _ (offs_len2 offs (proj1 Ho)) (OffsX_dup _ _ (proj1 Ho) Hx) Hinc).
    + intros _. rewrite (increment_dup _ _ _ _ _ Ho Hinc). apply U8Inv_snoc; [assumption|apply Hu, Hk|assumption].
  - destruct v; try discriminate Hsc; discriminate Hp.
  - destruct v; try discriminate Hsc; discriminate Hp.
Qed.

Lemma push_list_inv2 pushf k v offs m e l b' :
  Forall (Pres2 pushf) l -> Forall (PushOk pushf) l -> WfB (BdList k v offs m e) -> Inv2 (BdList k v offs m e) ->
  (do val' <- set_validity v (length offs - 1) true ;;
   do oe <- list_loop pushf (list_wide k) l (duplicate_last offs) e ;;
   Ok (BdList k val' (fst oe) m (snd oe))) = Ok b' -> Inv2 b'.
Proof.
  intros HS HP (_ & Ho & Hwe) [Hx Hie] H. apply bind_ok in H as (v' & _ & H). apply bind_ok in H as ([offs' e'] & Hl & H). injection H as <-. cbn [fst snd].
  exact (list_loop_inv2 pushf _ l HS HP _ _ _ _ (offs_len2 offs (proj1 Ho)) (OffsX_dup _ _ (proj1 Ho) Hx) Hwe Hie Hl).
Qed.

Lemma binary_inv2 v k val offs data b' : is_utf8_kind k = false -> WfB (BdUtf8 k val offs data) -> Inv2 (BdUtf8 k val offs data) ->
  (do s <- binary_of_value v ;;
   do val' <- set_validity val (length offs - 1) true ;;
   do offs' <- increment_last (is_wide k) (duplicate_last offs) (length s) ;;
   Ok (BdUtf8 k val' offs' (data ++ s))) = Ok b' -> Inv2 b'.
Proof.
  intros Hk [_ Ho] [Hx _] Hp. apply bind_ok in Hp as (s & _ & Hp). apply bind_ok in Hp as (v' & _ & Hp). apply bind_ok in Hp as (offs' & Hinc & Hp). injection Hp as <-.
  split; [|rewrite Hk; discriminate].
  apply (increment_last_offsx _ _ _ _ (offs_len2 offs (proj1 Ho)) (OffsX_dup _ _ (proj1 Ho) Hx) Hinc).
Qed.

Theorem push_inv2 : forall v, text_ok v -> Pres2 push v.
Proof.
  intros v. induction v as [x|k z|x|x|c|s|s| |x IHx| | |x IHx|l IHl|l IHl|l IHl|kvs IHk|fields IHf|i n|i n x IHx|i n l IHl|i n fields IHf] using Value_ind';
    intros Ht; try (apply pres2_scalar; [reflexivity|exact Ht]).
  - (* bytes *)
    intros b b' Hw Hi Hp. destruct b as [val vals len|k val vals|k val offs data|k val offs m e|len val cs]; cbn [push] in Hp; try discriminate Hp; try (rewrite prim_value_nonscalar in Hp by exact I; discriminate Hp).
    all: try (match type of Hp with context [is_utf8_kind ?kk] => destruct (is_utf8_kind kk) eqn:Hk; [discriminate Hp|] end; first [exact (binary_inv2 _ _ _ _ _ b' Hk Hw Hi Hp)|cbn [binary_of_value bind] in Hp; discriminate Hp]).
    refine (push_list_inv2 push_scalar k val offs m e _ b' _ _ Hw Hi Hp).
    + apply Forall_map. apply Forall_forall. intros c _ b0 b0' H1 H2 H3. rewrite push_scalar_int in H3.
      refine (pres2_scalar (VInt U8 (Z.of_N c)) eq_refl _ b0 b0' H1 H2 H3). unfold leaf_text_ok. cbn [text_of_scalar]. apply print_Z_utf8.
    + apply Forall_forall. intros x _. apply push_scalar_ok.
  - intros b b' Hw Hi Hp. cbn [push] in Hp. eapply push_none_inv2; eassumption.
  - intros b b' Hw Hi Hp. cbn [push] in Hp. cbn [text_ok] in Ht. exact (IHx Ht b b' Hw Hi Hp).
  - intros b b' Hw Hi Hp. cbn [push] in Hp. eapply push_none_inv2; eassumption.
  - intros b b' Hw Hi Hp. cbn [push] in Hp. eapply push_none_inv2; eassumption.
  - intros b b' Hw Hi Hp. cbn [push] in Hp. cbn [text_ok] in Ht. exact (IHx Ht b b' Hw Hi Hp).
  - (* seq *)
    cbn [text_ok] in Ht. apply text_ok_seq in Ht.
    assert (HS : Forall (Pres2 push) l) by (rewrite Forall_forall in *; intros x Hin; apply (IHl x Hin), (Ht x Hin)).
    assert (HP : Forall (PushOk push) l) by (apply Forall_forall; intros x _; apply push_wf).
    intros b b' Hw Hi Hp. destruct b as [val vals len|k val vals|k val offs data|k val offs m e|len val cs]; cbn [push] in Hp; try discriminate Hp; try (rewrite prim_value_nonscalar in Hp by exact I; discriminate Hp).
    all: try (match type of Hp with context [is_utf8_kind ?kk] => destruct (is_utf8_kind kk) eqn:Hk; [discriminate Hp|] end; first [exact (binary_inv2 _ _ _ _ _ b' Hk Hw Hi Hp)|cbn [binary_of_value bind] in Hp; discriminate Hp]).
    exact (push_list_inv2 push k val offs m e l b' HS HP Hw Hi Hp).
  - (* tuple *)
    cbn [text_ok] in Ht. apply text_ok_seq in Ht.
    assert (HS : Forall (Pres2 push) l) by (rewrite Forall_forall in *; intros x Hin; apply (IHl x Hin), (Ht x Hin)).
    assert (HP : Forall (PushOk push) l) by (apply Forall_forall; intros x _; apply push_wf).
    intros b b' Hw Hi Hp. destruct b as [val vals len|k val vals|k val offs data|k val offs m e|len val cs]; cbn [push] in Hp; try discriminate Hp; try (rewrite prim_value_nonscalar in Hp by exact I; discriminate Hp).
    all: try (match type of Hp with context [is_utf8_kind ?kk] => destruct (is_utf8_kind kk) eqn:Hk; [discriminate Hp|] end; first [exact (binary_inv2 _ _ _ _ _ b' Hk Hw Hi Hp)|cbn [binary_of_value bind] in Hp; discriminate Hp]).
    + exact (push_list_inv2 push k val offs m e l b' HS HP Hw Hi Hp).
    + apply bind_ok in Hp as (val' & _ & Hp). apply bind_ok in Hp as (st & Hloop & Hp). apply bind_ok in Hp as (cs' & Hfin & Hp). injection Hp as <-.
      apply inv2_of_goodch. eapply finish_record_good; [|exact Hfin]. eapply tuple_loop_good; [exact HS|exact HP| |exact Hloop]. cbn [fst]. eapply goodch_of; eassumption.
  - (* tuple struct *)
    cbn [text_ok] in Ht. apply text_ok_seq in Ht.
    assert (HS : Forall (Pres2 push) l) by (rewrite Forall_forall in *; intros x Hin; apply (IHl x Hin), (Ht x Hin)).
    assert (HP : Forall (PushOk push) l) by (apply Forall_forall; intros x _; apply push_wf).
    intros b b' Hw Hi Hp. destruct b as [val vals len|k val vals|k val offs data|k val offs m e|len val cs]; cbn [push] in Hp; try discriminate Hp; try (rewrite prim_value_nonscalar in Hp by exact I; discriminate Hp).
    all: try (match type of Hp with context [is_utf8_kind ?kk] => destruct (is_utf8_kind kk) eqn:Hk; [discriminate Hp|] end; first [exact (binary_inv2 _ _ _ _ _ b' Hk Hw Hi Hp)|cbn [binary_of_value bind] in Hp; discriminate Hp]).
    + exact (push_list_inv2 push k val offs m e l b' HS HP Hw Hi Hp).
    + apply bind_ok in Hp as (val' & _ & Hp). apply bind_ok in Hp as (st & Hloop & Hp). apply bind_ok in Hp as (cs' & Hfin & Hp). injection Hp as <-.
      apply inv2_of_goodch. eapply finish_record_good; [|exact Hfin]. eapply tuple_loop_good; [exact HS|exact HP| |exact Hloop]. cbn [fst]. eapply goodch_of; eassumption.
  - (* map *)
    cbn [text_ok] in Ht. apply text_ok_map in Ht.
    assert (HS : Forall (fun kv : Value * Value => Pres2 push (snd kv)) kvs) by (rewrite Forall_forall in *; intros x Hin; apply (IHk x Hin), (Ht x Hin)).
    assert (HP : Forall (fun kv : Value * Value => PushOk push (snd kv)) kvs) by (apply Forall_forall; intros x _; apply push_wf).
    intros b b' Hw Hi Hp. destruct b as [val vals len|k val vals|k val offs data|k val offs m e|len val cs]; cbn [push] in Hp; try discriminate Hp; try (rewrite prim_value_nonscalar in Hp by exact I; discriminate Hp).
    all: try (match type of Hp with context [is_utf8_kind ?kk] => destruct (is_utf8_kind kk) eqn:Hk; [discriminate Hp|] end; first [exact (binary_inv2 _ _ _ _ _ b' Hk Hw Hi Hp)|cbn [binary_of_value bind] in Hp; discriminate Hp]).
    apply bind_ok in Hp as (val' & _ & Hp). apply bind_ok in Hp as (st & Hloop & Hp). apply bind_ok in Hp as (cs' & Hfin & Hp). injection Hp as <-.
    apply inv2_of_goodch. eapply finish_record_good; [|exact Hfin]. eapply map_loop_good; [exact HS|exact HP| |exact Hloop]. cbn [fst]. eapply goodch_of; eassumption.
  - (* struct *)
    cbn [text_ok] in Ht. apply text_ok_struct in Ht.
    assert (HS : Forall (fun nv : bytes * Value => Pres2 push (snd nv)) fields) by (rewrite Forall_forall in *; intros x Hin; apply (IHf x Hin), (Ht x Hin)).
    assert (HP : Forall (fun nv : bytes * Value => PushOk push (snd nv)) fields) by (apply Forall_forall; intros x _; apply push_wf).
    intros b b' Hw Hi Hp. destruct b as [val vals len|k val vals|k val offs data|k val offs m e|len val cs]; cbn [push] in Hp; try discriminate Hp; try (rewrite prim_value_nonscalar in Hp by exact I; discriminate Hp).
    all: try (match type of Hp with context [is_utf8_kind ?kk] => destruct (is_utf8_kind kk) eqn:Hk; [discriminate Hp|] end; first [exact (binary_inv2 _ _ _ _ _ b' Hk Hw Hi Hp)|cbn [binary_of_value bind] in Hp; discriminate Hp]).
    apply bind_ok in Hp as (val' & _ & Hp). apply bind_ok in Hp as (st & Hloop & Hp). apply bind_ok in Hp as (cs' & Hfin & Hp). injection Hp as <-.
    apply inv2_of_goodch. eapply finish_record_good; [|exact Hfin]. eapply struct_loop_good; [exact HS|exact HP| |exact Hloop]. cbn [fst]. eapply goodch_of; eassumption.
Qed.

(* ---------------- good builders emit well-formed arrays ---------------- *)
Lemma validity_ok_of strict f v n : ValOk v n -> vnull f v -> validity_ok strict (fnullable' f) (some_bitmap v) n = true.
Proof.
  intros Hv Hn. destruct v as [buf|]; cbn [some_bitmap validity_ok]; [|reflexivity].
  destruct Hv as (bits & Hl & ->). cbn [bm_off]. rewrite Nat.eqb_refl, Bool.orb_true_r. cbn [andb].
  rewrite <- Hl, bits_of_pack. unfold vnull in Hn. rewrite Hn. reflexivity.
Qed.

Lemma offsets_ok_of strict wide offs total : OffsX wide offs -> OffsOk offs total -> offsets_ok strict wide offs total = true.
Proof.
  intros (Hh & Hm & Hi) [Hne Hl]. destruct offs as [|o0 r]; [congruence|]. cbn [hd tl] in *. subst o0. unfold offsets_ok.
  cbv zeta. rewrite Hm, Hi, Hl. destruct strict; cbn [andb]; rewrite ?Z.eqb_refl, ?Z.leb_refl; reflexivity.
Qed.

Lemma len_ok_refl strict n : len_ok strict n n = true.
Proof. unfold len_ok. destruct strict; [apply Nat.eqb_refl|apply Nat.leb_refl]. Qed.

Lemma meta_matches_of cf : meta_matches (meta_of cf) cf = true.
Proof. unfold meta_matches, meta_of. cbn. rewrite bytes_eqb_refl. destruct (fnullable' cf); reflexivity. Qed.

Lemma visible_utf8 k v offs data : ValOk v (length offs - 1) -> U8Inv offs data ->
  visible_ok (ABytes k (some_bitmap v) offs data) (fun x => match x with LBytes s => utf8_valid s | _ => true end) = true.
Proof.
  intros Hv (rs & Hr & Hu). unfold visible_ok. cbn [decode]. rewrite Hr.
  pose proof (ranges_length _ _ _ Hr) as Hl.
  destruct v as [buf|]; cbn [some_bitmap].
  - destruct Hv as (bits & Hbl & ->). rewrite apply_validity_pack by (rewrite map_length; unfold bytes in *; lia).
    apply forallb_forall. intros x Hin. apply in_map_iff in Hin as ([b0 y] & <- & Hin'). cbn [fst snd].
    destruct b0; [|reflexivity]. apply in_combine_r in Hin'. apply in_map_iff in Hin' as (s & <- & Hs). rewrite Forall_forall in Hu. apply (Hu s Hs).
  - cbn [apply_validity]. apply forallb_forall. intros x Hin. apply in_map_iff in Hin as (s & <- & Hs). rewrite Forall_forall in Hu. apply (Hu s Hs).
Qed.

Theorem wf_of_good strict : forall b f, shape f b -> WfB b -> Inv2 b -> wf_arr strict f (into_array b) = true.
Proof.
  intros b. induction b as [v vals len|k v vals|k v offs data|k v offs m e IHe|len v cs IH] using Builder_ind'; intros [nm dt nl] Hs Hw Hi.
  - destruct Hs as [Hd Hv]. cbn [fdt'] in Hd. subst dt. destruct Hw as [Hwv (bits & Hl & ->)]. cbn [into_array wf_arr fdt' fnullable'].
    pose proof (validity_ok_of strict (mkField nm DBool nl) v len Hwv Hv) as Ev. cbn [fnullable'] in Ev. rewrite Ev. cbn [bm_off]. rewrite Nat.eqb_refl, Bool.orb_true_r.
    rewrite <- Hl, bits_of_pack. reflexivity.
  - destruct Hs as [Hd Hv]. cbn [fdt'] in Hd. subst dt. cbn [into_array wf_arr fdt' fnullable'].
    pose proof (validity_ok_of strict (mkField nm (DPrim k) nl) v _ Hw Hv) as Ev. cbn [fnullable'] in Ev. rewrite Ev.
    assert (E : primkind_eqb k k = true) by (apply primkind_eqb_refl). rewrite E. cbn [andb].
    cbn [Inv2] in Hi. apply forallb_forall. rewrite Forall_forall in Hi. intros z Hz. apply (Hi z Hz).
  - destruct Hs as (Hd & Hv). cbn [fdt'] in Hd. subst dt. destruct Hw as [Hwv Ho]. destruct Hi as [Hx Hu8]. cbn [into_array wf_arr fdt' fnullable'].
    pose proof (validity_ok_of strict (mkField nm (DBytes k) nl) v _ Hwv Hv) as Ev. cbn [fnullable'] in Ev. rewrite Ev, (offsets_ok_of strict _ _ _ Hx Ho).
    assert (E : byteskind_eqb k k = true) by (destruct k; reflexivity). rewrite E. cbn [andb].
    destruct (is_utf8_kind k) eqn:Hu; cbn [negb orb]; [|reflexivity].
    apply visible_utf8; [assumption|apply Hu8; reflexivity].
  - destruct Hs as (cf & Hd & Hm & Hv & Hse). cbn [fdt'] in Hd. subst dt m. destruct Hw as (Hwv & Ho & Hwe). destruct Hi as [Hx Hie].
    cbn [into_array wf_arr fdt' fnullable']. rewrite arr_len_into_array.
    pose proof (validity_ok_of strict (mkField nm (DList k cf) nl) v _ Hwv Hv) as Ev. cbn [fnullable'] in Ev. rewrite Ev, meta_matches_of, (IHe cf Hse Hwe Hie).
    assert (E : listkind_eqb k k = true) by (destruct k; reflexivity). rewrite E. cbn [andb].
    replace (match k with KLargeList => true | KList => false end) with (list_wide k) by (destruct k; reflexivity).
    rewrite (offsets_ok_of strict _ _ _ Hx Ho). reflexivity.
  - apply shape_struct in Hs as (fs & Hd & Hv & _ & Hsh). cbn [fdt'] in Hd. subst dt.
    apply WfB_struct in Hw as [Hwv Hch]. apply Inv2_struct in Hi. cbn [into_array wf_arr fdt' fnullable'].
    pose proof (validity_ok_of strict (mkField nm (DStruct fs) nl) v len Hwv Hv) as Ev. cbn [fnullable'] in Ev. rewrite Ev. cbn [andb].
    unfold ShapeCh, ChildrenOk in *. clear Hv Hwv. revert IH Hch Hi. induction Hsh as [|cf [m c] fs' cs' [Hm Hsc] _ IHsh]; intros IH Hch Hi; [reflexivity|].
    pose proof (Forall_inv IH) as Hx. pose proof (Forall_inv_tail IH) as Hr.
    pose proof (Forall_inv Hch) as [Hwc Hrc]. pose proof (Forall_inv_tail Hch) as Hch'.
    pose proof (Forall_inv Hi) as Hic. pose proof (Forall_inv_tail Hi) as Hi'.
    cbn [fst snd map] in *. subst m. rewrite meta_matches_of, arr_len_into_array, Hrc, len_ok_refl, (Hx cf Hsc Hwc Hic). cbn [andb].
    apply IHsh; assumption.
Qed.

Lemma build_inv2 : forall f b, build f = Some b -> Inv2 b.
Proof.
  intros f. induction f as [name dt nullable IH] using Field_ind'. intros b.
  destruct dt as [| |k|k|k|n|k cf|n cf|fs|en kf vf|key val|ufs]; try (cbn [build]; discriminate).
  - cbn [build]. intros H; injection H as <-. exact I.
  - cbn [build]. destruct (prim_built k); [|discriminate]. intros H; injection H as <-. constructor.
  - cbn [build]. destruct k; try discriminate; intros H; injection H as <-; (split; [repeat split|exists []; split; [reflexivity|constructor]]).
  - cbn [build]. cbn [FieldIH] in IH. destruct (build cf) as [cb|] eqn:Ec; [|discriminate]. intros H; injection H as <-.
    split; [destruct k; repeat split|apply IH; reflexivity].
  - rewrite build_struct. cbn [FieldIH] in IH. destruct (build_fields fs) as [cs|] eqn:Eg; [|discriminate].
    intros H; injection H as <-. apply Inv2_struct.
    revert cs Eg. induction IH as [|cf r Hcf _ IHr]; intros cs Eg; cbn [build_fields] in Eg.
    + injection Eg as <-. constructor.
    + destruct (build cf) as [cb|] eqn:Ec; [|discriminate]. fold build_fields in Eg.
      destruct (build_fields r) as [rest|] eqn:Er; [|discriminate]. injection Eg as <-.
      constructor; [cbn [snd]; apply Hcf; reflexivity|apply IHr; reflexivity].
Qed.

Lemma fold_push_good : forall recs (acc : Outcome Builder) b, Forall text_ok recs ->
  fold_left (fun acc r => do b <- acc ;; push r b) recs acc = Ok b ->
  exists b0, acc = Ok b0 /\ (WfB b0 -> Inv2 b0 -> WfB b /\ Inv2 b).
Proof.
  induction recs as [|r rest IH]; intros acc b Ht H; cbn [fold_left] in H.
  - exists b. split; [exact H|]. intros; split; assumption.
  - inversion Ht as [|? ? Tr Trest]; subst. destruct (IH _ _ Trest H) as (b1 & Hb1 & Hrest). apply bind_ok in Hb1 as (b0 & Hacc & Hp).
    exists b0. split; [exact Hacc|]. intros Hw Hi. destruct (push_wf r b0 b1 Hw Hp) as [Hw1 _]. apply Hrest; [exact Hw1|exact (push_inv2 r Tr b0 b1 Hw Hi Hp)].
Qed.

(* C03 for the core: whatever to_marrow returns is a well-formed batch of the declared fields *)
Theorem to_marrow_wf strict fields recs arrs :
  names_ok (mkField [] (DStruct fields) false) -> Forall text_ok recs ->
  to_marrow fields recs = Some (Ok arrs) -> wf_batch strict fields arrs (length recs) = true.
Proof.
  intros Hn Ht Hm. pose proof (to_marrow_row_count fields recs arrs Hm) as Hrows. unfold to_marrow in Hm.
  destruct (build (mkField [] (DStruct fields) false)) as [b0|] eqn:Eb; [|discriminate].
  injection Hm as H. apply bind_ok in H as (b & Hfold & H).
  destruct (build_wf _ _ Eb) as [Hw0 _]. destruct (build_shape _ _ Eb Hn) as [Hs0 Hc0]. pose proof (build_inv2 _ _ Eb) as Hi0.
  destruct (fold_push_good _ _ _ Ht Hfold) as (b0' & E & Hgood). injection E as <-. destruct (Hgood Hw0 Hi0) as [Hwb Hib].
  destruct (fold_push_sound (mkField [] (DStruct fields) false) _ _ _ Hfold) as (b0' & E & Hrest). injection E as <-.
  destruct (Hrest [] Hs0 Hw0 Hc0) as (lvs & _ & _ & Hsb & _).
  destruct b as [| | | |len v cs]; try discriminate. injection H as <-.
  apply shape_struct in Hsb as (fs & Hd & _ & _ & Hsh). cbn [fdt'] in Hd. injection Hd as <-.
  apply WfB_struct in Hwb as [_ Hch]. apply Inv2_struct in Hib. unfold wf_batch.
  rewrite map_length, (shapech_len _ _ Hsh), Nat.eqb_refl. cbn [andb].
  unfold ShapeCh, ChildrenOk in *. clear - Hsh Hch Hib Hrows. revert Hch Hib Hrows.
  induction Hsh as [|cf [m c] fs' cs' [Hm Hsc] _ IH]; intros Hch Hib Hrows; [reflexivity|].
  pose proof (Forall_inv Hch) as [Hwc Hrc]. pose proof (Forall_inv_tail Hch) as Hch'.
  pose proof (Forall_inv Hib) as Hic. pose proof (Forall_inv_tail Hib) as Hi'. cbn [map] in Hrows.
  pose proof (Forall_inv Hrows) as Hr1. pose proof (Forall_inv_tail Hrows) as Hr'.
  cbn [map combine forallb fst snd] in *. rewrite (wf_of_good strict c cf Hsc Hwc Hic), Hr1, Nat.eqb_refl. cbn [andb]. apply IH; assumption.
Qed.

(* ---------------- write, then read: the composition of C01, C03 and C02 on the core ---------------- *)
(* the primitive kinds of a builder never change: they are those build admits *)
Fixpoint Built (b : Builder) : bool :=
  match b with
  | BdPrim k _ _ => prim_built k
  | BdList _ _ _ _ e => Built e
  | BdStruct _ _ cs => forallb (fun mb : Meta * Builder => Built (snd mb)) cs
  | _ => true
  end.
Lemma built_reset : forall b, Built (reset b) = Built b.
Proof.
  intros b. induction b as [v vals len|k v vals|k v offs data|k v offs m e IHe|len v cs IH] using Builder_ind'; cbn [reset Built]; try reflexivity.
  - exact IHe.
  - induction IH as [|mb r Hmb _ IHr]; [reflexivity|]. cbn [map forallb snd]. rewrite Hmb, IHr. reflexivity.
Qed.
Lemma build_built : forall f b, build f = Some b -> Built b = true.
Proof.
  intros f. induction f as [name dt nullable IH] using Field_ind'. intros b.
  destruct dt as [| |k|k|k|n|k cf|n cf|fs|en kf vf|key val|ufs]; try (cbn [build]; discriminate).
  - cbn [build]. intros H; injection H as <-. reflexivity.
  - cbn [build]. destruct (prim_built k) eqn:E; [|discriminate]. intros H; injection H as <-. exact E.
  - cbn [build]. destruct k; try discriminate; intros H; injection H as <-; reflexivity.
  - cbn [build]. cbn [FieldIH] in IH. destruct (build cf) as [cb|] eqn:Ec; [|discriminate]. intros H; injection H as <-. cbn [Built]. apply IH. reflexivity.
  - rewrite build_struct. cbn [FieldIH] in IH. destruct (build_fields fs) as [cs|] eqn:Eg; [|discriminate].
    intros H; injection H as <-. cbn [Built].
    revert cs Eg. induction IH as [|cf r Hcf _ IHr]; intros cs Eg; cbn [build_fields] in Eg.
    + injection Eg as <-. reflexivity.
    + destruct (build cf) as [cb|] eqn:Ec; [|discriminate]. fold build_fields in Eg.
      destruct (build_fields r) as [rest|] eqn:Er; [|discriminate].
      injection Eg as <-. cbn [forallb snd]. rewrite (Hcf cb eq_refl), (IHr rest eq_refl). reflexivity.
Qed.
Lemma built_push_all f b0 recs b : build f = Some b0 -> push_all b0 recs = Ok b -> Built b = true.
Proof.
  intros Hb Hp. rewrite <- built_reset. pose proof (take_is_fresh f b0 recs b Hb Hp) as E. cbn [take snd] in E. rewrite E. apply (build_built f b0 Hb).
Qed.

Lemma utc_tz_built u tz : prim_built (PTimestamp u tz) = true -> Reader.utc_tz tz = true.
Proof.
  destruct tz as [t|]; cbn [prim_built]; [|reflexivity]. intros H. apply bytes_eqb_eq in H. subst t. reflexivity.
Qed.

Lemma construct_into : forall b, Built b = true -> Reader.construct (into_array b) = true.
Proof.
  intros b. induction b as [v vals len|k v vals|k v offs data|k v offs m e IHe|len v cs IH] using Builder_ind'; cbn [into_array Reader.construct Built]; intros HB; try reflexivity.
  - destruct k; try reflexivity. apply (utc_tz_built _ _ HB).
  - apply IHe, HB.
  - apply forallb_forall. intros mc Hin. apply in_map_iff in Hin as (mb & <- & Hin). cbn [snd]. rewrite Forall_forall in IH. rewrite forallb_forall in HB. apply (IH mb Hin), (HB mb Hin).
Qed.

Lemma addressable_into : forall b, addressable (into_array b) = true.
Proof.
  intros b. induction b as [v vals len|k v vals|k v offs data|k v offs m e IHe|len v cs IH] using Builder_ind'; cbn [into_array addressable]; try reflexivity.
  - exact IHe.
  - apply forallb_forall. intros mc Hin. apply in_map_iff in Hin as (mb & <- & Hin). cbn [snd]. rewrite Forall_forall in IH. apply (IH mb Hin).
Qed.

Lemma to_marrow_arrays fields recs arrs : to_marrow fields recs = Some (Ok arrs) ->
  Forall (fun a => Reader.construct a = true /\ addressable a = true) arrs.
Proof.
  unfold to_marrow. destruct (build _) as [b0|] eqn:Eb; [|discriminate]. intros H. injection H as H. apply bind_ok in H as (b & Hp & H).
  pose proof (built_push_all _ b0 recs b Eb Hp) as HB.
  destruct b as [| | | |len v cs]; try discriminate. injection H as <-. apply Forall_map. apply Forall_forall. intros mb Hin.
  cbn [Built] in HB. rewrite forallb_forall in HB.
  split; [apply construct_into, (HB mb Hin)|apply addressable_into].
Qed.

Lemma wf_batch_nth strict : forall fields arrs n j f a, wf_batch strict fields arrs n = true ->
  nth_error fields j = Some f -> nth_error arrs j = Some a -> wf_arr strict f a = true.
Proof.
  intros fields arrs n j f a H Hf Ha. unfold wf_batch in H. apply andb_true_iff in H as [_ H]. rewrite forallb_forall in H.
  specialize (H (f, a) (nth_error_In _ _ (nth_error_combine_some _ _ _ _ _ Hf Ha))). cbn [fst snd] in H. apply andb_true_iff in H as [H _]. exact H.
Qed.

Theorem write_then_read fields recs arrs :
  names_ok (mkField [] (DStruct fields) false) -> Forall text_ok recs -> to_marrow fields recs = Some (Ok arrs) ->
  exists rows, Forall2 (fun r lv => interp (mkField [] (DStruct fields) false) r = IOk lv) recs (map LStruct rows) /\
    forall j a f i row, nth_error arrs j = Some a -> nth_error fields j = Some f -> nth_error rows i = Some row ->
      Reader.read a i = of_option (Present.present f (match nth_error row j with Some (_, v) => v | None => LNull end)).
Proof.
  intros Hn Ht Hm. destruct (to_marrow_sound fields recs arrs Hn Hm) as (rows & HF & Hcols). exists rows. split; [exact HF|].
  intros j a f i row Ha Hf Hrow.
  pose proof (wf_batch_nth false _ _ _ j f a (to_marrow_wf false fields recs arrs Hn Ht Hm) Hf Ha) as Hwf.
  pose proof (to_marrow_arrays _ _ _ Hm) as Harr. rewrite Forall_forall in Harr. destruct (Harr a (nth_error_In _ _ Ha)) as [Hc Had].
  apply (read_decode_full a f Hwf Hc Had (column_of j rows) i _ (Hcols j a Ha)).
  unfold column_of. rewrite nth_error_map, Hrow. reflexivity.
Qed.
