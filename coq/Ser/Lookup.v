(* Model of FieldLookup (serde_arrow/src/internal/serialization/struct_builder.rs): the positional
   guess verified by pointer equality, else the by-name index. *)
From Verif Require Export Builder.
Local Open Scope nat_scope.

(* a &'static str: address, length, content *)
Record SKey := { k_addr : nat; k_len : nat; k_content : bytes }.

Definition Cache := list (option (nat * nat)).

Fixpoint index_of_name (names : list bytes) (n : bytes) : option nat :=
  match names with
  | [] => None
  | x :: r => if bytes_eqb x n then Some 0 else option_map S (index_of_name r n)
  end.

Definition cache_hit (cache : Cache) (guess : nat) (key : SKey) : bool :=
  match nth_error cache guess with
  | Some (Some (a, l)) => Nat.eqb a (k_addr key) && Nat.eqb l (k_len key)
  | _ => false
  end.

Definition lookup (names : list bytes) (cache : Cache) (guess : nat) (key : SKey) : option nat * Cache :=
  if cache_hit cache guess key then (Some guess, cache)
  else match index_of_name names (k_content key) with
       | None => (None, cache)
       | Some idx =>
         (Some idx,
          match nth_error cache idx with
          | Some None => update_nth cache idx (Some (k_addr key, k_len key))
          | _ => cache
          end)
       end.
