From Verif Require Import Builder Bits_proofs.
Require Import ZifyBool ZifyN ZifyNat.
Local Open Scope nat_scope.

(* ---------------- induction principle for the serde value tree ---------------- *)
Section ValueInd.
  Variable P : Value -> Prop.
  Hypothesis Hbool : forall x, P (VBool x).
  Hypothesis Hint : forall k z, P (VInt k z).
  Hypothesis Hf32 : forall x, P (VF32 x).
  Hypothesis Hf64 : forall x, P (VF64 x).
  Hypothesis Hchar : forall c, P (VChar c).
  Hypothesis Hstr : forall s, P (VStr s).
  Hypothesis Hbytes : forall s, P (VBytes s).
  Hypothesis Hnone : P VNone.
  Hypothesis Hsome : forall v, P v -> P (VSome v).
  Hypothesis Hunit : P VUnit.
  Hypothesis Hunits : P VUnitStruct.
  Hypothesis Hnewtype : forall v, P v -> P (VNewtypeStruct v).
  Hypothesis Hseq : forall l, Forall P l -> P (VSeq l).
  Hypothesis Htuple : forall l, Forall P l -> P (VTuple l).
  Hypothesis Htuples : forall l, Forall P l -> P (VTupleStruct l).
  Hypothesis Hmap : forall kvs, Forall (fun kv => P (snd kv)) kvs -> P (VMap kvs).
  Hypothesis Hstruct : forall fs, Forall (fun nv => P (snd nv)) fs -> P (VStruct fs).
  Hypothesis Huv : forall i n, P (VUnitVariant i n).
  Hypothesis Hnv : forall i n v, P v -> P (VNewtypeVariant i n v).
  Hypothesis Htv : forall i n l, Forall P l -> P (VTupleVariant i n l).
  Hypothesis Hsv : forall i n fs, Forall (fun nv => P (snd nv)) fs -> P (VStructVariant i n fs).

  Fixpoint Value_ind' (v : Value) : P v :=
    let list_ind := fix go (l : list Value) : Forall P l :=
        match l with [] => Forall_nil _ | x :: r => Forall_cons x (Value_ind' x) (go r) end in
    let fields_ind := fix go (l : list (bytes * Value)) : Forall (fun nv => P (snd nv)) l :=
        match l with [] => Forall_nil _ | (n, x) :: r => Forall_cons (n, x) (Value_ind' x) (go r) end in
    match v with
    | VBool x => Hbool x | VInt k z => Hint k z | VF32 x => Hf32 x | VF64 x => Hf64 x | VChar c => Hchar c
    | VStr s => Hstr s | VBytes s => Hbytes s | VNone => Hnone | VSome x => Hsome x (Value_ind' x)
    | VUnit => Hunit | VUnitStruct => Hunits | VNewtypeStruct x => Hnewtype x (Value_ind' x)
    | VSeq l => Hseq l (list_ind l) | VTuple l => Htuple l (list_ind l) | VTupleStruct l => Htuples l (list_ind l)
    | VMap kvs => Hmap kvs ((fix go (l : list (Value * Value)) : Forall (fun kv => P (snd kv)) l :=
                               match l with [] => Forall_nil _ | (k, x) :: r => Forall_cons (k, x) (Value_ind' x) (go r) end) kvs)
    | VStruct fs => Hstruct fs (fields_ind fs)
    | VUnitVariant i n => Huv i n | VNewtypeVariant i n x => Hnv i n x (Value_ind' x)
    | VTupleVariant i n l => Htv i n l (list_ind l) | VStructVariant i n fs => Hsv i n fs (fields_ind fs)
    end.
End ValueInd.

(* ---------------- buffers in lock step ---------------- *)
Definition ValOk (v : option (list N)) (n : nat) : Prop :=
  match v with Some buf => exists bits, length bits = n /\ buf = pack_bits bits | None => True end.

Definition OffsOk (offs : list Z) (total : nat) : Prop :=
  offs <> [] /\ last offs 0%Z = Z.of_nat total.

Fixpoint WfB (b : Builder) : Prop :=
  match b with
  | BdBool v vals len => ValOk v len /\ exists bits, length bits = len /\ vals = pack_bits bits
  | BdPrim _ v vals => ValOk v (length vals)
  | BdUtf8 _ v offs data => ValOk v (length offs - 1) /\ OffsOk offs (length data)
  | BdList _ v offs _ e => ValOk v (length offs - 1) /\ OffsOk offs (rows e) /\ WfB e
  | BdStruct len v fs =>
    ValOk v len /\
    (fix go (fs : list (Meta * Builder)) : Prop :=
       match fs with [] => True | (_, c) :: r => (WfB c /\ rows c = len) /\ go r end) fs
  end.

Definition ChildrenOk (len : nat) (fs : list (Meta * Builder)) : Prop :=
  Forall (fun mb => WfB (snd mb) /\ rows (snd mb) = len) fs.

Lemma WfB_struct len v fs : WfB (BdStruct len v fs) <-> ValOk v len /\ ChildrenOk len fs.
Proof.
  cbn [WfB]. unfold ChildrenOk. split; intros [Hv Hc]; split; try exact Hv.
  - induction fs as [|[m c] r IH]; [constructor|]. destruct Hc as [Hc Hr]. constructor; [exact Hc|apply IH, Hr].
  - induction Hc as [|[m c] r Hc _ IH]; [exact I|]. split; [exact Hc|exact IH].
Qed.

Lemma ValOk_set v n value v' : ValOk v n -> set_validity v n value = Ok v' -> ValOk v' (S n).
Proof.
  destruct v as [buf|]; cbn [ValOk set_validity].
  - intros (bits & Hl & ->) H. injection H as <-. exists (bits ++ [value]). split.
    + rewrite app_length. cbn. lia.
    + rewrite <- Hl. apply set_bit_pack.
  - destruct value; intros _ H; [injection H as <-; exact I|discriminate].
Qed.

Lemma ValOk_default v n : ValOk v n -> ValOk (set_validity_default v n) (S n).
Proof.
  destruct v as [buf|]; cbn [ValOk set_validity_default]; [|auto].
  intros (bits & Hl & ->). exists (bits ++ [false]). split.
  - rewrite app_length. cbn. lia.
  - rewrite <- Hl. apply set_bit_pack.
Qed.

Lemma pack_push bits len x : length bits = len -> exists bits', length bits' = S len /\ set_bit (pack_bits bits) len x = pack_bits bits'.
Proof.
  intros Hl. exists (bits ++ [x]). split; [rewrite app_length; cbn; lia|]. rewrite <- Hl. apply set_bit_pack.
Qed.

Lemma duplicate_last_ok offs total : OffsOk offs total ->
  OffsOk (duplicate_last offs) total /\ length (duplicate_last offs) = S (length offs).
Proof.
  intros [Hne Hl]. unfold duplicate_last. split; [split|].
  - destruct offs; discriminate.
  - rewrite last_last. exact Hl.
  - rewrite app_length. cbn. lia.
Qed.

Lemma removelast_len {A} (l : list A) : length (removelast l) = length l - 1.
Proof.
  induction l as [|x r IH]; [reflexivity|]. destruct r as [|y r']; [reflexivity|].
  change (removelast (x :: y :: r')) with (x :: removelast (y :: r')). cbn [length] in *. lia.
Qed.

Lemma increment_last_ok wide offs inc offs' total : OffsOk offs total ->
  increment_last wide offs inc = Ok offs' ->
  OffsOk offs' (total + inc) /\ length offs' = length offs.
Proof.
  intros [Hne Hl]. unfold increment_last. destruct (negb _); [discriminate|].
  destruct (in_int _ _); [|discriminate]. intros H; inversion H; subst offs'. split; [split|].
  - destruct (removelast offs); discriminate.
  - rewrite last_last. lia.
  - rewrite app_length. cbn. destruct offs as [|o r]; [congruence|].
    rewrite removelast_len. cbn [length]. lia.
Qed.

(* ---------------- induction principle for builders ---------------- *)
Section BuilderInd.
  Variable P : Builder -> Prop.
  Hypothesis Hb : forall v vals len, P (BdBool v vals len).
  Hypothesis Hp : forall k v vals, P (BdPrim k v vals).
  Hypothesis Hu : forall k v offs data, P (BdUtf8 k v offs data).
  Hypothesis Hl : forall k v offs m e, P e -> P (BdList k v offs m e).
  Hypothesis Hs : forall len v fs, Forall (fun mb => P (snd mb)) fs -> P (BdStruct len v fs).
  Fixpoint Builder_ind' (b : Builder) : P b :=
    match b with
    | BdBool v vals len => Hb v vals len
    | BdPrim k v vals => Hp k v vals
    | BdUtf8 k v offs data => Hu k v offs data
    | BdList k v offs m e => Hl k v offs m e (Builder_ind' e)
    | BdStruct len v fs =>
      Hs len v fs ((fix go (l : list (Meta * Builder)) : Forall (fun mb => P (snd mb)) l :=
                      match l with [] => Forall_nil _ | (m, c) :: r => Forall_cons (m, c) (Builder_ind' c) (go r) end) fs)
    end.
End BuilderInd.

(* ---------------- placeholder and null rows ---------------- *)
Lemma push_default_wf : forall b, WfB b -> WfB (push_default b) /\ rows (push_default b) = S (rows b).
Proof.
  intros b. induction b as [v vals len|k v vals|k v offs data|k v offs m e IHe|len v fs IH] using Builder_ind'.
  - intros [Hv (bits & Hl & ->)]. cbn [push_default WfB rows]. split; [|reflexivity].
    split; [apply ValOk_default, Hv|]. apply pack_push, Hl.
  - intros Hv. cbn [push_default WfB rows] in *. rewrite app_length. cbn [length].
    split; [|lia]. replace (length vals + 1) with (S (length vals)) by lia. apply ValOk_default, Hv.
  - intros [Hv Ho]. cbn [push_default WfB rows].
    destruct (duplicate_last_ok offs _ Ho) as [Ho' Hlen]. destruct Ho as [Hne _].
    assert (length offs <> 0) by (destruct offs; [congruence|cbn; lia]).
    rewrite Hlen. split; [|lia]. split; [|exact Ho'].
    replace (S (length offs) - 1) with (S (length offs - 1)) by lia. apply ValOk_default, Hv.
  - intros (Hv & Ho & He). cbn [push_default WfB rows].
    destruct (duplicate_last_ok offs _ Ho) as [Ho' Hlen]. destruct Ho as [Hne _].
    assert (length offs <> 0) by (destruct offs; [congruence|cbn; lia]).
    rewrite Hlen. split; [|lia]. split; [|split; [exact Ho'|exact He]].
    replace (S (length offs) - 1) with (S (length offs - 1)) by lia. apply ValOk_default, Hv.
  - intros Hw. apply WfB_struct in Hw as [Hv Hc]. cbn [push_default rows]. split; [|reflexivity].
    apply WfB_struct. split; [apply ValOk_default, Hv|].
    unfold ChildrenOk in *. apply Forall_map. rewrite Forall_forall in *. intros mb Hin. cbn [snd].
    destruct (IH mb Hin (proj1 (Hc mb Hin))) as [Hw' Hr']. split; [exact Hw'|]. rewrite Hr'. f_equal. apply Hc, Hin.
Qed.

Lemma push_none_wf b b' : WfB b -> push_none b = Ok b' -> WfB b' /\ rows b' = S (rows b).
Proof.
  destruct b as [v vals len|k v vals|k v offs data|k v offs m e|len v fs]; cbn [push_none]; intros Hw H;
    apply bind_ok in H as (v' & Hs & H); injection H as <-.
  - destruct Hw as [Hv (bits & Hl & ->)]. cbn [WfB rows]. split; [|reflexivity].
    split; [eapply ValOk_set; eassumption|]. apply pack_push, Hl.
  - cbn [WfB rows] in *. rewrite app_length. cbn [length]. split; [|lia].
    replace (length vals + 1) with (S (length vals)) by lia. eapply ValOk_set; eassumption.
  - destruct Hw as [Hv Ho]. cbn [WfB rows]. destruct (duplicate_last_ok offs _ Ho) as [Ho' Hlen]. destruct Ho as [Hne _].
    assert (length offs <> 0) by (destruct offs; [congruence|cbn; lia]).
    rewrite Hlen. split; [|lia]. split; [|exact Ho'].
    replace (S (length offs) - 1) with (S (length offs - 1)) by lia. eapply ValOk_set; eassumption.
  - destruct Hw as (Hv & Ho & He). cbn [WfB rows]. destruct (duplicate_last_ok offs _ Ho) as [Ho' Hlen]. destruct Ho as [Hne _].
    assert (length offs <> 0) by (destruct offs; [congruence|cbn; lia]).
    rewrite Hlen. split; [|lia]. split; [|split; [exact Ho'|exact He]].
    replace (S (length offs) - 1) with (S (length offs - 1)) by lia. eapply ValOk_set; eassumption.
  - apply WfB_struct in Hw as [Hv Hc]. cbn [rows]. split; [|reflexivity].
    apply WfB_struct. split; [eapply ValOk_set; eassumption|].
    unfold ChildrenOk in *. apply Forall_map. rewrite Forall_forall in *. intros mb Hin. cbn [snd].
    destruct (push_default_wf (snd mb) (proj1 (Hc mb Hin))) as [Hw' Hr']. split; [exact Hw'|]. rewrite Hr'. f_equal. apply Hc, Hin.
Qed.

(* ---------------- one value, any builder: every buffer advances by exactly one row ---------------- *)
Definition PushOk (pushf : Value -> Builder -> Outcome Builder) (x : Value) : Prop :=
  forall b b', WfB b -> pushf x b = Ok b' -> WfB b' /\ rows b' = S (rows b).

Lemma list_loop_wf pushf wide l : Forall (PushOk pushf) l -> forall offs e offs' e',
  OffsOk offs (rows e) -> WfB e -> list_loop pushf wide l offs e = Ok (offs', e') ->
  OffsOk offs' (rows e') /\ WfB e' /\ length offs' = length offs.
Proof.
  intros Hall. induction Hall as [|x r Hx _ IH]; intros offs e offs' e' Ho He H; cbn [list_loop] in H.
  - injection H as <- <-. auto.
  - apply bind_ok in H as (offs1 & Hi & H). apply bind_ok in H as (e1 & Hp & H).
    destruct (increment_last_ok _ _ _ _ _ Ho Hi) as [Ho1 Hl1].
    destruct (Hx e e1 He Hp) as [He1 Hr1].
    replace (rows e + 1) with (rows e1) in Ho1 by lia.
    destruct (IH _ _ _ _ Ho1 He1 H) as (Ho' & He' & Hl'). split; [exact Ho'|split; [exact He'|lia]].
Qed.

Definition StInv (len : nat) (st : RecState) : Prop :=
  Forall2 (fun (mb : Meta * Builder) (s : bool) => WfB (snd mb) /\ rows (snd mb) = if s then S len else len)
          (fst st) (snd st).

Lemma Forall2_update {A B} (R : A -> B -> Prop) l1 l2 : Forall2 R l1 l2 ->
  forall i a d a' s', nth_error l1 i = Some a -> (R a (nth i l2 d) -> R a' s') ->
  Forall2 R (update_nth l1 i a') (update_nth l2 i s').
Proof.
  intros H. induction H as [|x y r1 r2 Hxy Hr IH]; intros i a d a' s' Hn Himp.
  - destruct i; discriminate.
  - destruct i as [|i]; cbn [update_nth nth nth_error] in *.
    + injection Hn as <-. constructor; [apply Himp, Hxy|exact Hr].
    + constructor; [exact Hxy|]. eapply IH; eassumption.
Qed.

Lemma struct_element_inv pushf len st idx x st' : StInv len st -> PushOk pushf x ->
  struct_element pushf st idx x = Ok st' -> StInv len st'.
Proof.
  intros Hinv Hx. unfold struct_element. destruct (nth idx (snd st) false) eqn:Hseen; [discriminate|].
  destruct (nth_error (fst st) idx) as [[m cb]|] eqn:Hn; [|discriminate].
  intros H. apply bind_ok in H as (cb' & Hp & H). injection H as <-. unfold StInv. cbn [fst snd].
  eapply (Forall2_update _ _ _ Hinv idx (m, cb) false (m, cb') true Hn).
  rewrite Hseen. cbn [snd]. intros [Hw Hr]. destruct (Hx cb cb' Hw Hp) as [Hw' Hr']. split; [exact Hw'|lia].
Qed.

Lemma struct_loop_inv pushf len l : Forall (fun nv => PushOk pushf (snd nv)) l ->
  forall st st', StInv len st -> struct_loop pushf l st = Ok st' -> StInv len st'.
Proof.
  intros Hall. induction Hall as [|[name x] r Hx _ IH]; intros st st' Hinv H; cbn [struct_loop] in H.
  - injection H as <-. exact Hinv.
  - destruct (index_of name (fst st)) as [idx|]; [|eapply IH; eassumption].
    apply bind_ok in H as (st1 & He & H). eapply IH; [|exact H]. eapply struct_element_inv; eassumption.
Qed.

Lemma map_loop_inv pushf len l : Forall (fun kv => PushOk pushf (snd kv)) l ->
  forall st st', StInv len st -> map_loop pushf l st = Ok st' -> StInv len st'.
Proof.
  intros Hall. induction Hall as [|[k x] r Hx _ IH]; intros st st' Hinv H; cbn [map_loop] in H.
  - injection H as <-. exact Hinv.
  - destruct (key_name k) as [name|]; [|discriminate].
    destruct (index_of name (fst st)) as [idx|]; [|eapply IH; eassumption].
    apply bind_ok in H as (st1 & He & H). eapply IH; [|exact H]. eapply struct_element_inv; eassumption.
Qed.

Lemma tuple_loop_inv pushf len l : Forall (PushOk pushf) l ->
  forall idx st st', StInv len st -> tuple_loop pushf l idx st = Ok st' -> StInv len st'.
Proof.
  intros Hall. induction Hall as [|x r Hx _ IH]; intros idx st st' Hinv H; cbn [tuple_loop] in H.
  - injection H as <-. exact Hinv.
  - destruct (Nat.ltb idx (length (fst st))); [|injection H as <-; exact Hinv].
    apply bind_ok in H as (st1 & He & H). eapply IH; [|exact H]. eapply struct_element_inv; eassumption.
Qed.

Lemma StInv_start len fs : ChildrenOk len fs -> StInv len (fs, repeat false (length fs)).
Proof.
  unfold StInv, ChildrenOk. cbn [fst snd]. intros H. induction H as [|mb r Hmb _ IH]; cbn [length repeat]; constructor; assumption.
Qed.

Lemma finish_record_ok len fs seen fs' : StInv len (fs, seen) -> finish_record fs seen = Ok fs' -> ChildrenOk (S len) fs'.
Proof.
  unfold StInv, ChildrenOk. cbn [fst snd]. intros H. revert fs'.
  induction H as [|[m cb] s r1 r2 [Hw Hr] _ IH]; intros fs' Hf; cbn [finish_record] in Hf.
  - injection Hf as <-. constructor.
  - apply bind_ok in Hf as (cb' & Hc & Hf). apply bind_ok in Hf as (rest & Hrest & Hf). injection Hf as <-.
    constructor; [|apply IH, Hrest]. cbn [snd] in *.
    destruct s.
    + injection Hc as <-. split; assumption.
    + destruct (m_nullable m); [|discriminate]. destruct (push_none_wf cb cb' Hw Hc) as [Hw' Hr']. split; [exact Hw'|lia].
Qed.

Lemma push_bool_wf val vals len x b' : WfB (BdBool val vals len) ->
  (do val' <- set_validity val len true ;; Ok (BdBool val' (set_bit vals len x) (S len))) = Ok b' ->
  WfB b' /\ rows b' = S (rows (BdBool val vals len)).
Proof.
  intros [Hv (bits & Hl & ->)] H. apply bind_ok in H as (val' & Hs & H). injection H as <-. cbn [WfB rows].
  split; [split; [eapply ValOk_set; eassumption|apply pack_push, Hl]|reflexivity].
Qed.

Lemma push_prim_wf k val vals (oz : Outcome Z) b' : WfB (BdPrim k val vals) ->
  (do z <- oz ;; do val' <- set_validity val (length vals) true ;; Ok (BdPrim k val' (vals ++ [z]))) = Ok b' ->
  WfB b' /\ rows b' = S (rows (BdPrim k val vals)).
Proof.
  intros Hv H. apply bind_ok in H as (z & _ & H). apply bind_ok in H as (val' & Hs & H). injection H as <-.
  cbn [WfB rows] in *. rewrite app_length. cbn [length]. split; [|lia].
  replace (length vals + 1) with (S (length vals)) by lia. eapply ValOk_set; eassumption.
Qed.

Lemma push_utf8_wf k val offs data s b' : WfB (BdUtf8 k val offs data) ->
  (do val' <- set_validity val (length offs - 1) true ;;
   do offs' <- increment_last (is_wide k) (duplicate_last offs) (length s) ;;
   Ok (BdUtf8 k val' offs' (data ++ s))) = Ok b' ->
  WfB b' /\ rows b' = S (rows (BdUtf8 k val offs data)).
Proof.
  intros [Hv Ho] H. apply bind_ok in H as (val' & Hs & H). apply bind_ok in H as (offs' & Hi & H). injection H as <-.
  destruct (duplicate_last_ok offs _ Ho) as [Ho1 Hl1].
  destruct (increment_last_ok _ _ _ _ _ Ho1 Hi) as [Ho2 Hl2].
  assert (length offs <> 0) by (destruct Ho as [Hne _]; destruct offs; [congruence|cbn; lia]).
  cbn [WfB rows]. rewrite app_length, Hl2, Hl1. split; [|lia]. split; [|exact Ho2].
  replace (S (length offs) - 1) with (S (length offs - 1)) by lia. eapply ValOk_set; eassumption.
Qed.

Ltac leaf_bool Hw H := eapply push_bool_wf; [exact Hw|exact H].
Ltac leaf_prim Hw H := eapply push_prim_wf; [exact Hw|exact H].
Ltac leaf_utf8 Hw H :=
  match type of H with context [is_utf8_kind ?k] => destruct (is_utf8_kind k) end;
  try discriminate H;
  try (match type of H with context [text_of_scalar ?v] => destruct (text_of_scalar v) as [[| | |?| | | |]| |]; try discriminate H end);
  try (match type of H with context [binary_of_value ?v] => destruct (binary_of_value v) as [?| |?]; cbn [bind] in H; try discriminate H end);
  (eapply push_utf8_wf; [exact Hw|exact H]).

Ltac leaf :=
  let b := fresh "b" in let b' := fresh "b'" in let Hw := fresh "Hw" in let H := fresh "H" in
  intros b b' Hw H; destruct b; cbn [push] in H; try discriminate;
  first [leaf_bool Hw H | leaf_prim Hw H | leaf_utf8 Hw H].

Lemma push_list_wf_gen pushf k val offs m e l b' : Forall (PushOk pushf) l ->
  WfB (BdList k val offs m e) ->
  (do val' <- set_validity val (length offs - 1) true ;;
   do oe <- list_loop pushf (list_wide k) l (duplicate_last offs) e ;;
   Ok (BdList k val' (fst oe) m (snd oe))) = Ok b' ->
  WfB b' /\ rows b' = S (rows (BdList k val offs m e)).
Proof.
  intros Hall (Hv & Ho & He) H.
  apply bind_ok in H as (val' & Hs & H). apply bind_ok in H as ([offs' e'] & Hloop & H). injection H as <-.
  destruct (duplicate_last_ok offs _ Ho) as [Ho1 Hl1].
  destruct (list_loop_wf _ _ _ Hall _ _ _ _ Ho1 He Hloop) as (Ho' & He' & Hl').
  assert (length offs <> 0) by (destruct Ho as [Hne _]; destruct offs; [congruence|cbn; lia]).
  cbn [WfB rows fst snd]. rewrite Hl', Hl1. split; [|lia]. split; [|split; assumption].
  replace (S (length offs) - 1) with (S (length offs - 1)) by lia. eapply ValOk_set; eassumption.
Qed.

Lemma push_list_wf k val offs m e l b' : Forall (PushOk push) l ->
  WfB (BdList k val offs m e) ->
  (do val' <- set_validity val (length offs - 1) true ;;
   do oe <- list_loop push (list_wide k) l (duplicate_last offs) e ;;
   Ok (BdList k val' (fst oe) m (snd oe))) = Ok b' ->
  WfB b' /\ rows b' = S (rows (BdList k val offs m e)).
Proof.
  intros Hall (Hv & Ho & He) H.
  apply bind_ok in H as (val' & Hs & H). apply bind_ok in H as ([offs' e'] & Hloop & H). injection H as <-.
  destruct (duplicate_last_ok offs _ Ho) as [Ho1 Hl1].
  destruct (list_loop_wf _ _ _ Hall _ _ _ _ Ho1 He Hloop) as (Ho' & He' & Hl').
  assert (length offs <> 0) by (destruct Ho as [Hne _]; destruct offs; [congruence|cbn; lia]).
  cbn [WfB rows fst snd]. rewrite Hl', Hl1. split; [|lia]. split; [|split; assumption].
  replace (S (length offs) - 1) with (S (length offs - 1)) by lia. eapply ValOk_set; eassumption.
Qed.

Lemma push_record_wf len val fs b' (loop : RecState -> Outcome RecState) :
  (forall st st', StInv len st -> loop st = Ok st' -> StInv len st') ->
  WfB (BdStruct len val fs) ->
  (do val' <- set_validity val len true ;;
   do st <- loop (fs, repeat false (length fs)) ;;
   do fs' <- finish_record (fst st) (snd st) ;; Ok (BdStruct (S len) val' fs')) = Ok b' ->
  WfB b' /\ rows b' = S (rows (BdStruct len val fs)).
Proof.
  intros Hloop Hw H. apply WfB_struct in Hw as [Hv Hc].
  apply bind_ok in H as (val' & Hs & H). apply bind_ok in H as ([fs1 seen1] & Hl & H).
  apply bind_ok in H as (fs' & Hf & H). injection H as <-. cbn [rows]. split; [|reflexivity].
  apply WfB_struct. split; [eapply ValOk_set; eassumption|].
  eapply finish_record_ok; [|exact Hf]. eapply Hloop; [|exact Hl]. apply StInv_start, Hc.
Qed.

Lemma push_scalar_ok x : PushOk push_scalar x.
Proof.
  intros b b' Hw H. destruct b; cbn [push_scalar] in H; try discriminate.
  - destruct x; try discriminate. leaf_bool Hw H.
  - leaf_prim Hw H.
  - leaf_utf8 Hw H.
Qed.

Theorem push_wf : forall v, PushOk push v.
Proof.
  induction v using Value_ind'; unfold PushOk in *.
  - leaf. - leaf. - leaf. - leaf. - leaf. - leaf.
  - intros b b' Hw H0. destruct b; cbn [push] in H0; try discriminate;
      first [leaf_bool Hw H0 | leaf_prim Hw H0 | leaf_utf8 Hw H0 | idtac].
    eapply (push_list_wf_gen push_scalar); [|exact Hw|exact H0].
    apply Forall_forall. intros x _. apply push_scalar_ok.
  - intros b b' Hw H. cbn [push] in H. eapply push_none_wf; eassumption.
  - intros b b' Hw H. cbn [push] in H. eapply IHv; eassumption.
  - intros b b' Hw H. cbn [push] in H. eapply push_none_wf; eassumption.
  - intros b b' Hw H. cbn [push] in H. eapply push_none_wf; eassumption.
  - intros b b' Hw H. cbn [push] in H. eapply IHv; eassumption.
  - intros b b' Hw H0. destruct b; cbn [push] in H0; try discriminate;
      first [leaf_prim Hw H0 | leaf_utf8 Hw H0 | (eapply push_list_wf; eassumption)].
  - intros b b' Hw H0. destruct b; cbn [push] in H0; try discriminate;
      first [leaf_prim Hw H0 | leaf_utf8 Hw H0 | (eapply push_list_wf; eassumption) | idtac].
    eapply (push_record_wf _ _ _ _ (tuple_loop push l 0)); [|exact Hw|exact H0].
    intros st st'. apply tuple_loop_inv, H.
  - intros b b' Hw H0. destruct b; cbn [push] in H0; try discriminate;
      first [leaf_prim Hw H0 | leaf_utf8 Hw H0 | (eapply push_list_wf; eassumption) | idtac].
    eapply (push_record_wf _ _ _ _ (tuple_loop push l 0)); [|exact Hw|exact H0].
    intros st st'. apply tuple_loop_inv, H.
  - intros b b' Hw H0. destruct b; cbn [push] in H0; try discriminate;
      first [leaf_prim Hw H0 | leaf_utf8 Hw H0 | idtac].
    eapply (push_record_wf _ _ _ _ (map_loop push kvs)); [|exact Hw|exact H0].
    intros st st'. apply map_loop_inv, H.
  - intros b b' Hw H0. destruct b; cbn [push] in H0; try discriminate;
      first [leaf_prim Hw H0 | leaf_utf8 Hw H0 | idtac].
    eapply (push_record_wf _ _ _ _ (struct_loop push fs)); [|exact Hw|exact H0].
    intros st st'. apply struct_loop_inv, H.
  - leaf. - leaf. - leaf. - leaf.
Qed.

(* ---------------- construction, row counts ---------------- *)
Lemma ValOk_new nullable : ValOk (new_validity nullable) 0.
Proof. destruct nullable; cbn; [exists []; split; reflexivity|exact I]. Qed.

Section FieldInd.
  Variable P : Field -> Prop.
  Definition FieldIH (dt : DT) : Prop :=
    match dt with
    | DList _ cf | DFixedList _ cf => P cf
    | DStruct fs => Forall P fs
    | DMap _ kf vf => P kf /\ P vf
    | DUnion ufs => Forall (fun tf => P (snd tf)) ufs
    | _ => True
    end.
  Hypothesis H : forall name dt nullable, FieldIH dt -> P (mkField name dt nullable).
  Fixpoint Field_ind' (f : Field) : P f :=
    match f with
    | mkField name dt nullable =>
      H name dt nullable
        (match dt return FieldIH dt with
         | DList _ cf | DFixedList _ cf => Field_ind' cf
         | DStruct fs => (fix go (l : list Field) : Forall P l :=
                            match l with [] => Forall_nil _ | x :: r => Forall_cons x (Field_ind' x) (go r) end) fs
         | DMap _ kf vf => conj (Field_ind' kf) (Field_ind' vf)
         | DUnion ufs => (fix go (l : list (Z * Field)) : Forall (fun tf => P (snd tf)) l :=
                            match l with [] => Forall_nil _ | (t, x) :: r => Forall_cons (t, x) (Field_ind' x) (go r) end) ufs
         | _ => I
         end)
    end.
End FieldInd.

Definition build_fields : list Field -> option (list (Meta * Builder)) :=
  fix go (fs : list Field) : option (list (Meta * Builder)) :=
    match fs with
    | [] => Some []
    | cf :: r => match build cf, go r with
                 | Some cb, Some rest => Some ((meta_of cf, cb) :: rest) | _, _ => None end
    end.

Lemma build_struct name fs nullable :
  build (mkField name (DStruct fs) nullable) =
  match build_fields fs with Some cs => Some (BdStruct 0 (new_validity nullable) cs) | None => None end.
Proof. reflexivity. Qed.

Lemma build_wf : forall f b, build f = Some b -> WfB b /\ rows b = 0.
Proof.
  intros f. induction f as [name dt nullable IH] using Field_ind'. intros b.
  destruct dt as [| |k|k|k|n|k cf|n cf|fs|en kf vf|key val|ufs]; try (cbn [build]; discriminate).
  - cbn [build]. intros H; injection H as <-. cbn. split; [split; [apply ValOk_new|exists []; split; reflexivity]|reflexivity].
  - cbn [build]. destruct (prim_built k); [|discriminate]. intros H; injection H as <-. cbn. split; [apply ValOk_new|reflexivity].
  - cbn [build]. destruct k; try discriminate; intros H; injection H as <-; cbn [WfB rows length]; (split; [|reflexivity]);
      (split; [apply ValOk_new|split; [discriminate|reflexivity]]).
  - cbn [build]. cbn [FieldIH] in IH. destruct (build cf) as [cb|] eqn:Ec; [|discriminate]. intros H; injection H as <-.
    destruct (IH cb eq_refl) as [Hw Hr]. cbn [WfB rows length]. split; [|reflexivity].
    split; [apply ValOk_new|]. split; [|exact Hw]. split; [discriminate|]. rewrite Hr. reflexivity.
  - rewrite build_struct. cbn [FieldIH] in IH. destruct (build_fields fs) as [cs|] eqn:Eg; [|discriminate].
    intros H; injection H as <-. cbn [rows]. split; [|reflexivity].
    apply WfB_struct. split; [apply ValOk_new|].
    revert cs Eg. induction IH as [|cf r Hcf _ IHr]; intros cs Eg; cbn [build_fields] in Eg.
    + injection Eg as <-. constructor.
    + destruct (build cf) as [cb|] eqn:Ec; [|discriminate]. fold build_fields in Eg.
      destruct (build_fields r) as [rest|] eqn:Er; [|discriminate].
      injection Eg as <-. constructor; [cbn [snd]; apply Hcf; reflexivity|apply IHr; reflexivity].
Qed.

Lemma arr_len_into_array b : arr_len (into_array b) = rows b.
Proof. destruct b; reflexivity. Qed.

Lemma fold_push_rows rows0 : forall (acc : Outcome Builder) b,
  fold_left (fun acc r => do b <- acc ;; push r b) rows0 acc = Ok b ->
  exists b0, acc = Ok b0 /\ (WfB b0 -> WfB b /\ rows b = rows b0 + length rows0).
Proof.
  induction rows0 as [|r rest IH]; intros acc b H; cbn [fold_left] in H.
  - exists b. split; [exact H|]. intros Hw. split; [exact Hw|cbn; lia].
  - destruct (IH _ _ H) as (b1 & Hb1 & Hrest).
    apply bind_ok in Hb1 as (b0 & Hacc & Hp). exists b0. split; [exact Hacc|]. intros Hw.
    destruct (push_wf r b0 b1 Hw Hp) as [Hw1 Hr1]. destruct (Hrest Hw1) as [Hwb Hrb]. split; [exact Hwb|].
    cbn [length]. lia.
Qed.

(* to_marrow: every returned column holds exactly one entry per record *)
Theorem to_marrow_row_count fields recs arrs :
  to_marrow fields recs = Some (Ok arrs) -> Forall (fun a => arr_len a = length recs) arrs.
Proof.
  unfold to_marrow. destruct (build (mkField [] (DStruct fields) false)) as [b0|] eqn:Eb; [|discriminate].
  intros H. injection H as H. apply bind_ok in H as (b & Hfold & H).
  destruct (build_wf _ _ Eb) as [Hw0 Hr0].
  destruct (fold_push_rows _ _ _ Hfold) as (b0' & E & Hrest). injection E as <-.
  destruct (Hrest Hw0) as [Hwb Hrb]. rewrite Hr0 in Hrb. cbn [plus] in Hrb.
  destruct b as [| | | |len v fs]; try discriminate. injection H as <-.
  apply WfB_struct in Hwb as [_ Hc]. cbn [rows] in Hrb. subst len.
  apply Forall_map. unfold ChildrenOk in Hc. eapply Forall_impl; [|exact Hc].
  intros mb [_ Hr]. rewrite arr_len_into_array. exact Hr.
Qed.

(* ---------------- integer columns: the stored value is exactly the input ---------------- *)
Definition prim_lvals (v : option (list N)) (vals : list Z) : option (list LVal) :=
  apply_validity (some_bitmap v) (map LInt vals).

Lemma apply_validity_pack bits (vals : list LVal) : length bits = length vals ->
  apply_validity (Some {| bm_off := 0; bm_data := pack_bits bits |}) vals
  = Some (map (fun p : bool * LVal => if fst p then snd p else LNull) (combine bits vals)).
Proof. intros Hl. unfold apply_validity. rewrite <- Hl, bits_of_pack. reflexivity. Qed.

Lemma combine_snoc {A B} (l1 : list A) (l2 : list B) a c : length l1 = length l2 ->
  combine (l1 ++ [a]) (l2 ++ [c]) = combine l1 l2 ++ [(a, c)].
Proof.
  revert l2; induction l1 as [|x r IH]; intros [|y r2] H; cbn in *; try discriminate; [reflexivity|].
  f_equal. apply IH. lia.
Qed.

(* appending one row to an integer column appends exactly one logical value: the pushed integer
   when the row is valid, null otherwise; nothing before it changes *)
Theorem prim_push_decode k v vals valid z vs :
  ValOk v (length vals) ->
  decode (APrim (PInt k) (some_bitmap v) vals) = Some vs ->
  forall v', set_validity v (length vals) valid = Ok v' ->
  decode (APrim (PInt k) (some_bitmap v') (vals ++ [z])) = Some (vs ++ [if valid then LInt z else LNull]).
Proof.
  intros Hv Hd v' Hs. cbn [decode] in *. destruct v as [buf|]; cbn [ValOk set_validity some_bitmap] in *.
  - destruct Hv as (bits & Hl & ->). injection Hs as <-. cbn [some_bitmap].
    rewrite apply_validity_pack in Hd by (rewrite map_length; exact Hl). injection Hd as <-.
    rewrite <- Hl, set_bit_pack, map_app. cbn [map].
    rewrite apply_validity_pack by (rewrite !app_length, map_length; cbn; lia).
    rewrite combine_snoc by (rewrite map_length; exact Hl). rewrite map_app. reflexivity.
  - destruct valid; [|discriminate]. injection Hs as <-. cbn [some_bitmap apply_validity] in *.
    injection Hd as <-. rewrite map_app. reflexivity.
Qed.

Lemma prim_value_nonscalar k v :
  match v with VInt _ _ | VBool _ | VChar _ | VF32 _ | VF64 _ => False | _ => True end -> prim_value k v = Err.
Proof. destruct k as [i| | | | | |u|u|u tz|u|p sc], v; cbn [prim_value]; intros H; try contradiction; reflexivity. Qed.
