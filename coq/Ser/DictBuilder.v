(* Model of DictionaryUtf8Builder (serde_arrow/src/internal/serialization/dictionary_utf8_builder.rs):
   an integer key builder, a string value builder, and the string -> position table that is the
   builder's per-batch state.  Key and value builders are the IntBuilder / Utf8Builder of the core
   model (Builder.v); the table is kept in insertion order (the position of a string is its index). *)
From Verif Require Export Builder Take.
Local Open Scope nat_scope.

Record DictB := { d_keys : Builder; d_values : Builder; d_index : list bytes }.

Fixpoint position (s : bytes) (l : list bytes) : option nat :=
  match l with [] => None | x :: r => if bytes_eqb x s then Some 0 else option_map S (position s r) end.

(* DictionaryUtf8Builder::new(path, build_builder(key), build_builder(value)): keys take the field's
   nullability, values are never nullable *)
Definition dict_new (key : IntKind) (value : BytesKind) (nullable : bool) : DictB :=
  {| d_keys := BdPrim (PInt key) (new_validity nullable) []; d_values := BdUtf8 value None [0%Z] []; d_index := [] |}.

(* serialize_str *)
Definition dict_push_str (s : bytes) (d : DictB) : Outcome DictB :=
  match position s (d_index d) with
  | Some idx => do k' <- push_scalar (VInt U64 (Z.of_nat idx)) (d_keys d) ;; Ok {| d_keys := k'; d_values := d_values d; d_index := d_index d |}
  | None =>
    let idx := length (d_index d) in
    do v' <- push_scalar (VStr s) (d_values d) ;;
    do k' <- push_scalar (VInt U64 (Z.of_nat idx)) (d_keys d) ;;
    Ok {| d_keys := k'; d_values := v'; d_index := d_index d ++ [s] |}
  end.

(* Some / newtype struct are transparent *)
Fixpoint strip (v : Value) : Value := match v with VSome x | VNewtypeStruct x => strip x | _ => v end.

(* every scalar goes through to_string; unit variants give their name; enums with data are refused *)
Definition dict_push (v : Value) (d : DictB) : Outcome DictB :=
  match strip v with
  | VNone | VUnit | VUnitStruct => do k' <- push_none (d_keys d) ;; Ok {| d_keys := k'; d_values := d_values d; d_index := d_index d |}
  | w => match text_of_scalar w with IOk (LBytes s) => dict_push_str s d | _ => Err end
  end.

(* into_array: non-null keys without any value are placeholders: give them the empty string *)
Definition dict_into_array (d : DictB) : Outcome Arr :=
  let keys := into_array (d_keys d) in
  let has_non_null_keys := match arr_validity keys with None => negb (Nat.eqb (arr_len keys) 0) | Some _ => false end in
  do vals <- (if has_non_null_keys && match d_index d with [] => true | _ => false end
              then push_scalar (VStr []) (d_values d) else Ok (d_values d)) ;;
  Ok (ADict keys (into_array vals)).

(* take: children taken, table emptied *)
Definition dict_reset (d : DictB) : DictB := {| d_keys := reset (d_keys d); d_values := reset (d_values d); d_index := [] |}.

Inductive DOp := DPush (v : Value) | DBuild.
Fixpoint dict_history (d : DictB) (ops : list DOp) : Outcome (list Arr) :=
  match ops with
  | [] => Ok []
  | DPush v :: r => do d' <- dict_push v d ;; dict_history d' r
  | DBuild :: r => do a <- dict_into_array d ;; do rest <- dict_history (dict_reset d) r ;; Ok (a :: rest)
  end.

(* the values between builds *)
Fixpoint dict_batches (cur : list Value) (ops : list DOp) : list (list Value) :=
  match ops with
  | [] => []
  | DPush v :: r => dict_batches (cur ++ [v]) r
  | DBuild :: r => cur :: dict_batches [] r
  end.
