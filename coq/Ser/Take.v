(* ArrayBuilder::build = take_records then into_array: `take` moves the buffers out and
   re-initialises the builder in place.  `reset b` is the builder left behind. *)
From Verif Require Export Builder.
Local Open Scope nat_scope.

Definition reset_validity (v : option (list N)) : option (list N) :=
  match v with Some _ => Some [] | None => None end.

Fixpoint reset (b : Builder) : Builder :=
  match b with
  | BdBool v _ _ => BdBool (reset_validity v) [] 0
  | BdPrim k v _ => BdPrim k (reset_validity v) []
  | BdUtf8 k v _ _ => BdUtf8 k (reset_validity v) [0%Z] []
  | BdList k v _ m e => BdList k (reset_validity v) [0%Z] m (reset e)
  | BdStruct _ v fs => BdStruct 0 (reset_validity v) (map (fun mb => (fst mb, reset (snd mb))) fs)
  end.

(* one build: the batch that is returned, and the builder that stays behind *)
Definition take (b : Builder) : Arr * Builder := (into_array b, reset b).

(* histories over one builder: rows are pushed, a build returns the arrays of the rows since the
   previous build *)
Inductive HOp := HPush (v : Value) | HBuild.

Fixpoint run_history (b : Builder) (ops : list HOp) : Outcome (list Arr) :=
  match ops with
  | [] => Ok []
  | HPush v :: r => do b' <- push v b ;; run_history b' r
  | HBuild :: r => do rest <- run_history (reset b) r ;; Ok (into_array b :: rest)
  end.

(* the rows between builds *)
Fixpoint batches (cur : list Value) (ops : list HOp) : list (list Value) :=
  match ops with
  | [] => []
  | HPush v :: r => batches (cur ++ [v]) r
  | HBuild :: r => cur :: batches [] r
  end.

Definition one_shot (b0 : Builder) (recs : list Value) : Outcome Arr :=
  do b <- fold_left (fun acc r => do b <- acc ;; push r b) recs (Ok b0) ;; Ok (into_array b).

(* histories in which operations may FAIL: a rejected push returns an error and the caller carries on with the same builder.
   `accepted` keeps the operations that succeed; `run_lenient` is what the builds of the whole history return. *)
Fixpoint run_lenient (b : Builder) (ops : list HOp) : list Arr :=
  match ops with
  | [] => []
  | HPush v :: r => match push v b with Ok b' => run_lenient b' r | _ => run_lenient b r end
  | HBuild :: r => into_array b :: run_lenient (reset b) r
  end.

Fixpoint accepted (b : Builder) (ops : list HOp) : list HOp :=
  match ops with
  | [] => []
  | HPush v :: r => match push v b with Ok b' => HPush v :: accepted b' r | _ => accepted b r end
  | HBuild :: r => HBuild :: accepted (reset b) r
  end.
