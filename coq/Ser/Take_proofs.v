From Verif Require Import Take Builder_proofs.
Local Open Scope nat_scope.

Lemma reset_validity_set v idx value v' : set_validity v idx value = Ok v' -> reset_validity v' = reset_validity v.
Proof. destruct v; cbn; [intros H; injection H as <-; reflexivity|destruct value; [intros H; injection H as <-; reflexivity|discriminate]]. Qed.

Lemma reset_validity_default v idx : reset_validity (set_validity_default v idx) = reset_validity v.
Proof. destruct v; reflexivity. Qed.

Lemma reset_push_default : forall b, reset (push_default b) = reset b.
Proof.
  intros b. induction b as [v vals len|k v vals|k v offs data|k v offs m e IHe|len v fs IH] using Builder_ind';
    cbn [push_default reset]; rewrite ?reset_validity_default; try reflexivity.
  f_equal. rewrite map_map. apply map_ext_in. intros mb Hin. cbn [fst snd]. f_equal.
  rewrite Forall_forall in IH. apply IH, Hin.
Qed.

Lemma reset_push_none b b' : push_none b = Ok b' -> reset b' = reset b.
Proof.
  destruct b as [v vals len|k v vals|k v offs data|k v offs m e|len v fs]; cbn [push_none]; intros H;
    apply bind_ok in H as (v' & Hs & H); injection H as <-; cbn [reset];
    rewrite (reset_validity_set _ _ _ _ Hs); try reflexivity.
  f_equal. rewrite map_map. apply map_ext. intros mb. cbn [fst snd]. f_equal. apply reset_push_default.
Qed.

Definition ResetOk (pushf : Value -> Builder -> Outcome Builder) (x : Value) : Prop :=
  forall b b', pushf x b = Ok b' -> reset b' = reset b.

Definition reset_fields (fs : list (Meta * Builder)) := map (fun mb : Meta * Builder => (fst mb, reset (snd mb))) fs.

Lemma list_loop_reset pushf wide l : Forall (ResetOk pushf) l -> forall offs e offs' e',
  list_loop pushf wide l offs e = Ok (offs', e') -> reset e' = reset e.
Proof.
  intros Hall. induction Hall as [|x r Hx _ IH]; intros offs e offs' e' H; cbn [list_loop] in H.
  - injection H as _ <-. reflexivity.
  - apply bind_ok in H as (offs1 & _ & H). apply bind_ok in H as (e1 & Hp & H).
    rewrite (IH _ _ _ _ H). apply Hx, Hp.
Qed.

Lemma reset_fields_update fs idx m cb cb' : nth_error fs idx = Some (m, cb) -> reset cb' = reset cb ->
  reset_fields (update_nth fs idx (m, cb')) = reset_fields fs.
Proof.
  revert idx; induction fs as [|x r IH]; intros [|idx] Hn Hr; cbn in *; try discriminate.
  - injection Hn as ->. cbn. rewrite Hr. reflexivity.
  - f_equal. apply IH; assumption.
Qed.

Lemma struct_element_reset pushf st idx x st' : ResetOk pushf x ->
  struct_element pushf st idx x = Ok st' -> reset_fields (fst st') = reset_fields (fst st).
Proof.
  intros Hx. unfold struct_element. destruct (nth idx (snd st) false); [discriminate|].
  destruct (nth_error (fst st) idx) as [[m cb]|] eqn:Hn; [|discriminate].
  intros H. apply bind_ok in H as (cb' & Hp & H). injection H as <-. cbn [fst].
  eapply reset_fields_update; [exact Hn|]. apply Hx, Hp.
Qed.

Lemma struct_loop_reset pushf l : Forall (fun nv => ResetOk pushf (snd nv)) l ->
  forall st st', struct_loop pushf l st = Ok st' -> reset_fields (fst st') = reset_fields (fst st).
Proof.
  intros Hall. induction Hall as [|[name x] r Hx _ IH]; intros st st' H; cbn [struct_loop] in H.
  - injection H as <-. reflexivity.
  - destruct (index_of name (fst st)) as [idx|]; [|apply IH, H].
    apply bind_ok in H as (st1 & He & H). rewrite (IH _ _ H). eapply struct_element_reset; eassumption.
Qed.

Lemma map_loop_reset pushf l : Forall (fun kv => ResetOk pushf (snd kv)) l ->
  forall st st', map_loop pushf l st = Ok st' -> reset_fields (fst st') = reset_fields (fst st).
Proof.
  intros Hall. induction Hall as [|[k x] r Hx _ IH]; intros st st' H; cbn [map_loop] in H.
  - injection H as <-. reflexivity.
  - destruct (key_name k) as [name|]; [|discriminate].
    destruct (index_of name (fst st)) as [idx|]; [|apply IH, H].
    apply bind_ok in H as (st1 & He & H). rewrite (IH _ _ H). eapply struct_element_reset; eassumption.
Qed.

Lemma tuple_loop_reset pushf l : Forall (ResetOk pushf) l ->
  forall idx st st', tuple_loop pushf l idx st = Ok st' -> reset_fields (fst st') = reset_fields (fst st).
Proof.
  intros Hall. induction Hall as [|x r Hx _ IH]; intros idx st st' H; cbn [tuple_loop] in H.
  - injection H as <-. reflexivity.
  - destruct (Nat.ltb idx (length (fst st))); [|injection H as <-; reflexivity].
    apply bind_ok in H as (st1 & He & H). rewrite (IH _ _ _ H). eapply struct_element_reset; eassumption.
Qed.

Lemma finish_record_reset fs : forall seen fs', finish_record fs seen = Ok fs' -> reset_fields fs' = reset_fields fs.
Proof.
  induction fs as [|[m cb] r IH]; intros seen fs' H; cbn [finish_record] in H.
  - injection H as <-. reflexivity.
  - destruct seen as [|s seen']; [discriminate|].
    apply bind_ok in H as (cb' & Hc & H). apply bind_ok in H as (rest & Hr & H). injection H as <-.
    cbn [reset_fields map fst snd]. f_equal; [|apply (IH _ _ Hr)]. f_equal.
    destruct s; [injection Hc as <-; reflexivity|]. destruct (m_nullable m); [|discriminate]. apply reset_push_none, Hc.
Qed.

Lemma reset_record len val fs b' (loop : RecState -> Outcome RecState) :
  (forall st st', loop st = Ok st' -> reset_fields (fst st') = reset_fields (fst st)) ->
  (do val' <- set_validity val len true ;;
   do st <- loop (fs, repeat false (length fs)) ;;
   do fs' <- finish_record (fst st) (snd st) ;; Ok (BdStruct (S len) val' fs')) = Ok b' ->
  reset b' = reset (BdStruct len val fs).
Proof.
  intros Hloop H. apply bind_ok in H as (val' & Hs & H). apply bind_ok in H as ([fs1 seen1] & Hl & H).
  apply bind_ok in H as (fs' & Hf & H). injection H as <-. cbn [reset].
  rewrite (reset_validity_set _ _ _ _ Hs). f_equal.
  change (reset_fields fs' = reset_fields fs). rewrite (finish_record_reset _ _ _ Hf).
  apply (Hloop _ _ Hl).
Qed.

Lemma reset_list_gen pushf k val offs m e l b' : Forall (ResetOk pushf) l ->
  (do val' <- set_validity val (length offs - 1) true ;;
   do oe <- list_loop pushf (list_wide k) l (duplicate_last offs) e ;;
   Ok (BdList k val' (fst oe) m (snd oe))) = Ok b' ->
  reset b' = reset (BdList k val offs m e).
Proof.
  intros Hall H. apply bind_ok in H as (val' & Hs & H). apply bind_ok in H as ([offs' e'] & Hloop & H). injection H as <-.
  cbn [reset fst snd]. rewrite (reset_validity_set _ _ _ _ Hs), (list_loop_reset _ _ _ Hall _ _ _ _ Hloop). reflexivity.
Qed.

Lemma reset_list k val offs m e l b' : Forall (ResetOk push) l ->
  (do val' <- set_validity val (length offs - 1) true ;;
   do oe <- list_loop push (list_wide k) l (duplicate_last offs) e ;;
   Ok (BdList k val' (fst oe) m (snd oe))) = Ok b' ->
  reset b' = reset (BdList k val offs m e).
Proof.
  intros Hall H. apply bind_ok in H as (val' & Hs & H). apply bind_ok in H as ([offs' e'] & Hloop & H). injection H as <-.
  cbn [reset fst snd]. rewrite (reset_validity_set _ _ _ _ Hs), (list_loop_reset _ _ _ Hall _ _ _ _ Hloop). reflexivity.
Qed.

Ltac reset_fin H :=
  repeat match type of H with
         | context [is_utf8_kind ?k] => destruct (is_utf8_kind k); try discriminate H
         | context [text_of_scalar ?v] => destruct (text_of_scalar v) as [[| | |?| | | |]| |]; try discriminate H
         | context [binary_of_value ?v] => destruct (binary_of_value v) as [?| |?]; cbn [bind] in H; try discriminate H
         | bind _ _ = Ok _ => let x := fresh "x" in let Hx := fresh "Hx" in apply bind_ok in H as (x & Hx & H)
         end;
  injection H as <-; cbn [reset];
  repeat match goal with Hs : set_validity _ _ _ = Ok _ |- _ => rewrite (reset_validity_set _ _ _ _ Hs); clear Hs end;
  reflexivity.

Ltac reset_leaf :=
  let b := fresh "b" in let b' := fresh "b'" in let H := fresh "H" in
  intros b b' H; destruct b; cbn [push] in H; try discriminate; reset_fin H.

Lemma reset_push_scalar x : ResetOk push_scalar x.
Proof.
  intros b b' H; destruct b; cbn [push_scalar] in H; try discriminate;
  repeat match type of H with
         | match ?v with _ => _ end = Ok _ => destruct v; try discriminate
         | context [text_of_scalar ?v] => destruct (text_of_scalar v) as [[| | |?| | | |]| |]; try discriminate
         | bind _ _ = Ok _ => let x := fresh "x" in let Hx := fresh "Hx" in apply bind_ok in H as (x & Hx & H)
         end;
  injection H as <-; cbn [reset];
  repeat match goal with Hs : set_validity _ _ _ = Ok _ |- _ => rewrite (reset_validity_set _ _ _ _ Hs); clear Hs end;
  reflexivity.
Qed.

(* a push never changes what the builder resets to *)
Theorem reset_push : forall v, ResetOk push v.
Proof.
  induction v using Value_ind'; unfold ResetOk in *.
  - reset_leaf. - reset_leaf. - reset_leaf. - reset_leaf. - reset_leaf. - reset_leaf.
  - intros b b' H. destruct b; cbn [push text_of_scalar bind] in H; try discriminate.
    + rewrite prim_value_nonscalar in H by exact I; discriminate.
    + reset_fin H.
    + eapply (reset_list_gen push_scalar); [|exact H]. apply Forall_forall. intros x _. apply reset_push_scalar.
  - intros b b' H. cbn [push] in H. apply reset_push_none, H.
  - intros b b' H. cbn [push] in H. apply IHv, H.
  - intros b b' H. cbn [push] in H. apply reset_push_none, H.
  - intros b b' H. cbn [push] in H. apply reset_push_none, H.
  - intros b b' H. cbn [push] in H. apply IHv, H.
  - intros b b' H0. destruct b; cbn [push] in H0; try discriminate; try (rewrite prim_value_nonscalar in H0 by exact I; discriminate);
      first [eapply reset_list; eassumption | reset_fin H0].
  - intros b b' H0. destruct b; cbn [push] in H0; try discriminate; try (rewrite prim_value_nonscalar in H0 by exact I; discriminate);
      first [eapply reset_list; eassumption
            | (eapply (reset_record _ _ _ _ (tuple_loop push l 0)); [|exact H0]; intros st st'; apply tuple_loop_reset, H)
            | reset_fin H0].
  - intros b b' H0. destruct b; cbn [push] in H0; try discriminate; try (rewrite prim_value_nonscalar in H0 by exact I; discriminate);
      first [eapply reset_list; eassumption
            | (eapply (reset_record _ _ _ _ (tuple_loop push l 0)); [|exact H0]; intros st st'; apply tuple_loop_reset, H)
            | reset_fin H0].
  - intros b b' H0. destruct b; cbn [push] in H0; try discriminate; try (rewrite prim_value_nonscalar in H0 by exact I; discriminate);
      first [(eapply (reset_record _ _ _ _ (map_loop push kvs)); [|exact H0]; intros st st'; apply map_loop_reset, H)
            | reset_fin H0].
  - intros b b' H0. destruct b; cbn [push] in H0; try discriminate; try (rewrite prim_value_nonscalar in H0 by exact I; discriminate);
      first [(eapply (reset_record _ _ _ _ (struct_loop push fs)); [|exact H0]; intros st st'; apply struct_loop_reset, H)
            | reset_fin H0].
  - reset_leaf. - reset_leaf. - reset_leaf. - reset_leaf.
Qed.

(* ---------------- a fresh builder resets to itself; so does every reachable one ---------------- *)
Lemma reset_validity_new nullable : reset_validity (new_validity nullable) = new_validity nullable.
Proof. destruct nullable; reflexivity. Qed.

Lemma reset_fresh : forall f b0, build f = Some b0 -> reset b0 = b0.
Proof.
  intros f. induction f as [name dt nullable IH] using Field_ind'. intros b0.
  destruct dt as [| |k|k|k|n|k cf|n cf|fs|en kf vf|key val|ufs]; try (cbn [build]; discriminate).
  - cbn [build]. intros H; injection H as <-. cbn [reset]. rewrite reset_validity_new. reflexivity.
  - cbn [build]. destruct (prim_built k); [|discriminate]. intros H; injection H as <-. cbn [reset]. rewrite reset_validity_new. reflexivity.
  - cbn [build]. destruct k; try discriminate; intros H; injection H as <-; cbn [reset]; rewrite reset_validity_new; reflexivity.
  - cbn [build]. cbn [FieldIH] in IH. destruct (build cf) as [cb|] eqn:Ec; [|discriminate]. intros H; injection H as <-.
    cbn [reset]. rewrite reset_validity_new, (IH cb eq_refl). reflexivity.
  - rewrite build_struct. cbn [FieldIH] in IH. destruct (build_fields fs) as [cs|] eqn:Eg; [|discriminate].
    intros H; injection H as <-. cbn [reset]. rewrite reset_validity_new. f_equal.
    revert cs Eg. induction IH as [|cf r Hcf _ IHr]; intros cs Eg; cbn [build_fields] in Eg.
    + injection Eg as <-. reflexivity.
    + destruct (build cf) as [cb|] eqn:Ec; [|discriminate]. fold build_fields in Eg.
      destruct (build_fields r) as [rest|] eqn:Er; [|discriminate].
      injection Eg as <-. cbn [map fst snd]. rewrite (Hcf cb eq_refl), (IHr rest eq_refl). reflexivity.
Qed.

Definition push_all (b0 : Builder) (recs : list Value) : Outcome Builder :=
  fold_left (fun acc r => do b <- acc ;; push r b) recs (Ok b0).

Lemma push_all_err recs : fold_left (fun acc r => do b <- acc ;; push r b) recs Err = Err.
Proof. induction recs as [|r rest IH]; [reflexivity|]. cbn [fold_left bind]. exact IH. Qed.

Lemma push_all_panic recs p : fold_left (fun acc r => do b <- acc ;; push r b) recs (Panic p) = Panic p.
Proof. induction recs as [|r rest IH]; [reflexivity|]. cbn [fold_left bind]. exact IH. Qed.

Lemma push_all_snoc b0 recs v : push_all b0 (recs ++ [v]) = do b <- push_all b0 recs ;; push v b.
Proof. unfold push_all. rewrite fold_left_app. reflexivity. Qed.

Lemma reset_push_all recs : forall b0 b, push_all b0 recs = Ok b -> reset b = reset b0.
Proof.
  induction recs as [|r rest IH] using rev_ind; intros b0 b H.
  - injection H as <-. reflexivity.
  - rewrite push_all_snoc in H. apply bind_ok in H as (b1 & H1 & Hp).
    rewrite (reset_push r b1 b Hp). apply IH, H1.
Qed.

(* building leaves the builder indistinguishable from a freshly constructed one *)
Theorem take_is_fresh f b0 recs b :
  build f = Some b0 -> push_all b0 recs = Ok b -> snd (take b) = b0.
Proof.
  intros Hb Hp. cbn [take snd]. rewrite (reset_push_all _ _ _ Hp). eapply reset_fresh, Hb.
Qed.

(* every build returns exactly the one-shot conversion of the rows pushed since the previous build *)
Theorem history_batches f b0 : build f = Some b0 ->
  forall ops cur b outs, push_all b0 cur = Ok b -> run_history b ops = Ok outs ->
  Forall2 (fun batch out => one_shot b0 batch = Ok out) (batches cur ops) outs.
Proof.
  intros Hb. induction ops as [|[v|] r IH]; intros cur b outs Hcur Hrun; cbn [run_history batches] in *.
  - injection Hrun as <-. constructor.
  - apply bind_ok in Hrun as (b' & Hp & Hrun). eapply IH; [|exact Hrun].
    rewrite push_all_snoc, Hcur. exact Hp.
  - apply bind_ok in Hrun as (rest & Hrest & Hrun). injection Hrun as <-. constructor.
    + unfold one_shot. fold (push_all b0 cur). rewrite Hcur. reflexivity.
    + pose proof (take_is_fresh f b0 cur b Hb Hcur) as Hfresh. cbn [take snd] in Hfresh. rewrite Hfresh in Hrest.
      eapply (IH [] b0 rest); [reflexivity|exact Hrest].
Qed.

(* a history with failing operations returns what the history of its successful operations returns *)
Lemma lenient_is_strict_on_accepted ops : forall b, run_history b (accepted b ops) = Ok (run_lenient b ops).
Proof.
  induction ops as [|[v|] r IH]; intros b; cbn [accepted run_lenient].
  - reflexivity.
  - destruct (push v b) as [b'| |pp] eqn:E; [|apply IH|apply IH]. cbn [run_history]. rewrite E. cbn [bind]. apply IH.
  - cbn [run_history]. rewrite IH. reflexivity.
Qed.

Theorem lenient_history_batches f b0 : build f = Some b0 ->
  forall ops, Forall2 (fun batch out => one_shot b0 batch = Ok out) (batches [] (accepted b0 ops)) (run_lenient b0 ops).
Proof. intros Hb ops. exact (history_batches f b0 Hb (accepted b0 ops) [] b0 (run_lenient b0 ops) eq_refl (lenient_is_strict_on_accepted ops b0)). Qed.
