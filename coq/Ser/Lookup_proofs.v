From Verif Require Import Lookup Builder_proofs.
Local Open Scope nat_scope.

Lemma index_of_name_sound names n i : index_of_name names n = Some i -> nth_error names i = Some n.
Proof.
  revert i; induction names as [|x r IH]; intros i H; cbn [index_of_name] in H; [discriminate|].
  destruct (bytes_eqb x n) eqn:E.
  - injection H as <-. apply bytes_eqb_eq in E. subst. reflexivity.
  - destruct (index_of_name r n) as [j|]; [|discriminate]. injection H as <-. cbn. apply IH. reflexivity.
Qed.

Lemma index_of_name_complete names n i : NoDup names -> nth_error names i = Some n -> index_of_name names n = Some i.
Proof.
  intros Hnd. revert i; induction Hnd as [|x r Hnin Hnd IH]; intros i H; [destruct i; discriminate|].
  cbn [index_of_name]. destruct i as [|i]; cbn in H.
  - injection H as ->. rewrite bytes_eqb_refl. reflexivity.
  - destruct (bytes_eqb x n) eqn:E.
    + apply bytes_eqb_eq in E. subst. exfalso. apply Hnin. eapply nth_error_In, H.
    + rewrite (IH i H). reflexivity.
Qed.

Section LookupSound.
  (* the static strings of the program: equal (address, length) means equal content *)
  Variable World : SKey -> Prop.
  Hypothesis AddrOk : forall k1 k2, World k1 -> World k2 ->
    k_addr k1 = k_addr k2 -> k_len k1 = k_len k2 -> k_content k1 = k_content k2.

  Variable names : list bytes.
  Hypothesis Hnodup : NoDup names.

  Definition CacheInv (cache : Cache) : Prop :=
    forall i a l, nth_error cache i = Some (Some (a, l)) ->
      exists k0, World k0 /\ k_addr k0 = a /\ k_len k0 = l /\ nth_error names i = Some (k_content k0).

  (* the guess never overrides the name index *)
  Theorem lookup_sound cache guess key r cache' :
    CacheInv cache -> World key -> lookup names cache guess key = (r, cache') ->
    r = index_of_name names (k_content key) /\ CacheInv cache'.
  Proof.
    intros Hinv Hw. unfold lookup. destruct (cache_hit cache guess key) eqn:Hhit.
    - intros H; injection H as <- <-. split; [|exact Hinv].
      unfold cache_hit in Hhit. destruct (nth_error cache guess) as [[[a l]|]|] eqn:Hc; try discriminate.
      apply andb_true_iff in Hhit as [Ha Hl]. apply Nat.eqb_eq in Ha, Hl.
      destruct (Hinv guess a l Hc) as (k0 & Hw0 & Ha0 & Hl0 & Hn).
      rewrite (AddrOk k0 key Hw0 Hw ltac:(congruence) ltac:(congruence)) in Hn.
      symmetry. apply index_of_name_complete; [exact Hnodup|exact Hn].
    - destruct (index_of_name names (k_content key)) as [idx|] eqn:Hi.
      + intros H; injection H as <- <-. split; [reflexivity|].
        destruct (nth_error cache idx) as [[p|]|] eqn:Hc; try exact Hinv.
        intros i a l Hn.
        destruct (Nat.eq_dec i idx) as [->|Hne].
        * assert (Hset : nth_error (update_nth cache idx (Some (k_addr key, k_len key))) idx = Some (Some (k_addr key, k_len key))).
          { clear -Hc. revert idx Hc. induction cache as [|x c IH]; intros [|idx] Hc; cbn in *; try discriminate; auto. }
          rewrite Hset in Hn. injection Hn as <- <-. exists key. repeat split; try assumption; try reflexivity.
          apply index_of_name_sound, Hi.
        * assert (Hother : nth_error (update_nth cache idx (Some (k_addr key, k_len key))) i = nth_error cache i).
          { clear -Hne. revert i idx Hne. induction cache as [|x c IH]; intros [|i] [|idx] Hne; cbn; try reflexivity; try congruence.
            apply IH. congruence. }
          rewrite Hother in Hn. apply Hinv, Hn.
      + intros H; injection H as <- <-. split; [reflexivity|exact Hinv].
  Qed.

  (* an empty cache (fresh builder, or after build) satisfies the invariant *)
  Lemma CacheInv_empty n : CacheInv (repeat None n).
  Proof.
    intros i a l H. exfalso. revert i H. induction n as [|n IH]; intros [|i] H; cbn in H; try discriminate. eapply IH, H.
  Qed.
End LookupSound.

(* ---------------- presentations ---------------- *)
(* a string-keyed map is handled exactly like the struct with the same entries *)
Theorem map_loop_is_struct_loop pushf l st :
  map_loop pushf (map (fun nv : bytes * Value => (VStr (fst nv), snd nv)) l) st = struct_loop pushf l st.
Proof.
  revert st; induction l as [|[name x] r IH]; intros st; cbn [map map_loop struct_loop fst snd key_name]; [reflexivity|].
  destruct (index_of name (fst st)); [|apply IH].
  destruct (struct_element pushf st n x); cbn [bind]; [apply IH|reflexivity|reflexivity].
Qed.

Theorem push_map_is_push_struct fields b :
  push (VMap (map (fun nv : bytes * Value => (VStr (fst nv), snd nv)) fields)) b = push (VStruct fields) b.
Proof.
  destruct b as [v vals len|k v vals|k v offs data|k v offs m e|len v fs]; cbn [push]; try reflexivity.
  rewrite map_loop_is_struct_loop. reflexivity.
Qed.
