(* The union builder: the row counters stay equal to the rows of the variant builders, a pushed variant
   is appended as (type id, payload) without touching earlier rows, and every build starts afresh. *)
From Verif Require Import UnionBuilder Builder_proofs Reader_proofs Decode_proofs Refine_proofs DictBuilder_proofs Take_proofs.
Require Import ZifyBool ZifyN ZifyNat.
Local Open Scope nat_scope.

Definition child_content (c : UChild) : option (list LVal) := decode (child_array c).

Definition urow (cs : list (list LVal)) (p : Z * Z) : option LVal :=
  let '(t, o) := p in
  if (t <? 0)%Z || (o <? 0)%Z then None
  else match nth_error cs (Z.to_nat t) with
       | Some vs => match nth_error vs (Z.to_nat o) with Some x => Some (LUnion t x) | None => None end
       | None => None
       end.

(* the logical content, written with positions instead of the search by type id *)
Definition ucontent (u : UnionB) : option (list LVal) :=
  match mapM_opt (fun mc : Meta * UChild => child_content (snd mc)) (u_fields u) with
  | Some cs => if Nat.eqb (length (u_types u)) (length (u_offsets u)) then mapM_opt (urow cs) (combine (u_types u) (u_offsets u)) else None
  | None => None
  end.

Lemma decode_ucols_number : forall fs k,
  decode_ucols (number_from k fs) =
  match mapM_opt (fun mc : Meta * UChild => child_content (snd mc)) fs with
  | Some cs => Some (combine (map (fun i => (k + Z.of_nat i)%Z) (seq 0 (length cs))) cs)
  | None => None
  end.
Proof.
  induction fs as [|[m c] r IH]; intros k; [reflexivity|]. cbn [number_from decode_ucols mapM_opt snd]. fold (child_content c).
  destruct (child_content c) as [vs|]; [|reflexivity]. rewrite IH. destruct (mapM_opt _ r) as [cs|]; [|reflexivity].
  cbn [length seq map combine]. rewrite Z.add_0_r. f_equal. f_equal. f_equal. rewrite <- seq_shift, map_map. apply map_ext. intros i. lia.
Qed.

Lemma find_numbered (cs : list (list LVal)) : forall k t, (k <= t)%Z ->
  find (fun c : Z * list LVal => Z.eqb (fst c) t) (combine (map (fun i => (k + Z.of_nat i)%Z) (seq 0 (length cs))) cs)
  = match nth_error cs (Z.to_nat (t - k)) with Some vs => Some (t, vs) | None => None end.
Proof.
  induction cs as [|vs r IH]; intros k t Hk; [destruct (Z.to_nat (t - k)); reflexivity|].
  cbn [length seq map combine find fst]. rewrite Z.add_0_r. destruct (Z.eqb_spec k t) as [->|Hne].
  - rewrite Z.sub_diag. reflexivity.
  - replace (Z.to_nat (t - k)) with (S (Z.to_nat (t - (k + 1)))) by lia. cbn [nth_error]. rewrite <- (IH (k + 1)%Z t) by lia.
    f_equal. f_equal. rewrite <- seq_shift, map_map. apply map_ext. intros i. lia.
Qed.

Lemma mapM_opt_ext' {A B} (f g : A -> option B) : (forall a, f a = g a) -> forall l, mapM_opt f l = mapM_opt g l.
Proof. intros H. induction l as [|a l IH]; [reflexivity|]. cbn [mapM_opt]. rewrite H, IH. reflexivity. Qed.

Lemma find_none_iff {A} (p : A -> bool) l : (forall x, In x l -> p x = false) -> find p l = None.
Proof. induction l as [|a l IH]; intros H; [reflexivity|]. cbn [find]. rewrite (H a (or_introl eq_refl)). apply IH. intros x Hx. apply H. right. exact Hx. Qed.

Lemma decode_union_into u : decode (union_into_array u) = ucontent u.
Proof.
  unfold union_into_array, ucontent. rewrite decode_union, decode_ucols_number.
  destruct (mapM_opt _ (u_fields u)) as [cs|]; [|reflexivity]. destruct (Nat.eqb _ _); [|reflexivity].
  apply mapM_opt_ext'. intros [t o]. unfold union_row, urow.
  destruct (Z.ltb_spec t 0) as [Ht|Ht]; cbn [orb].
  - (* negative type id: never found among ids 0.. *)
    assert (E : find (fun c : Z * list LVal => Z.eqb (fst c) t) (combine (map (fun i => (0 + Z.of_nat i)%Z) (seq 0 (length cs))) cs) = None).
    { clear - Ht. apply find_none_iff. intros [i vs] Hin. apply in_combine_l in Hin. apply in_map_iff in Hin as (j & <- & _). cbn [fst]. apply Z.eqb_neq. lia. }
    rewrite E. reflexivity.
  - rewrite (find_numbered cs 0 t Ht), Z.sub_0_r. destruct (nth_error cs (Z.to_nat t)) as [vs|]; [|destruct (o <? 0)%Z; reflexivity].
    destruct (o <? 0)%Z; reflexivity.
Qed.

(* ---------------- one more row ---------------- *)
Lemma mapM_opt_update {A B} (f : A -> option B) : forall l i a a' bs b0 b',
  mapM_opt f l = Some bs -> nth_error l i = Some a -> f a = Some b0 -> f a' = Some b' ->
  mapM_opt f (update_nth l i a') = Some (update_nth bs i b').
Proof.
  induction l as [|x l IH]; intros i a a' bs b0 b' Hm Hn Ha Ha'; [destruct i; discriminate|].
  cbn [mapM_opt] in Hm. destruct (f x) as [y|] eqn:Ey; [|discriminate]. destruct (mapM_opt f l) as [ys|] eqn:El; [|discriminate]. injection Hm as <-.
  destruct i as [|i]; cbn [nth_error update_nth mapM_opt] in *.
  - rewrite Ha', El. reflexivity.
  - rewrite Ey, (IH i a a' ys b0 b' eq_refl Hn Ha Ha'). reflexivity.
Qed.

Lemma mapM_opt_nth' {A B} (f : A -> option B) : forall l bs i a, mapM_opt f l = Some bs -> nth_error l i = Some a ->
  exists b0, f a = Some b0 /\ nth_error bs i = Some b0.
Proof.
  induction l as [|x l IH]; intros bs i a Hm Hn; [destruct i; discriminate|].
  cbn [mapM_opt] in Hm. destruct (f x) as [y|] eqn:Ey; [|discriminate]. destruct (mapM_opt f l) as [ys|] eqn:El; [|discriminate]. injection Hm as <-.
  destruct i as [|i]; cbn [nth_error] in *; [injection Hn as <-; eauto|]. apply (IH ys i a eq_refl Hn).
Qed.

Lemma urow_mono cs i vs lv p x : nth_error cs i = Some vs -> urow cs p = Some x -> urow (update_nth cs i (vs ++ [lv])) p = Some x.
Proof.
  destruct p as [t o]. unfold urow. intros Hi. destruct ((t <? 0)%Z || (o <? 0)%Z); [discriminate|].
  rewrite nth_error_update_nth. destruct (Nat.eqb_spec i (Z.to_nat t)) as [<-|Hne]; [|exact (fun H => H)].
  rewrite Hi. assert (Hlt : i < length cs) by (apply nth_error_Some; congruence). destruct (Nat.ltb_spec i (length cs)); [|lia].
  destruct (nth_error vs (Z.to_nat o)) as [y|] eqn:Ey; [|discriminate]. intros Hx. rewrite nth_error_app1 by (apply nth_error_Some; congruence). rewrite Ey. exact Hx.
Qed.

Lemma combine_snoc' {A B} (l1 : list A) (l2 : list B) a c : length l1 = length l2 -> combine (l1 ++ [a]) (l2 ++ [c]) = combine l1 l2 ++ [(a, c)].
Proof. revert l2; induction l1 as [|x r IH]; intros [|y r2] H; cbn in *; try discriminate; [reflexivity|]. f_equal. apply IH. lia. Qed.

Theorem ucontent_push u i m c c' vs lv lvs cur' :
  nth_error (u_fields u) i = Some (m, c) -> child_content c = Some vs -> child_content c' = Some (vs ++ [lv]) ->
  ucontent u = Some lvs ->
  ucontent {| u_fields := update_nth (u_fields u) i (m, c'); u_types := u_types u ++ [Z.of_nat i]; u_offsets := u_offsets u ++ [Z.of_nat (length vs)]; u_cur := cur' |}
  = Some (lvs ++ [LUnion (Z.of_nat i) lv]).
Proof.
  intros Hn Hc Hc' Hu. unfold ucontent in *. cbn [u_fields u_types u_offsets].
  destruct (mapM_opt _ (u_fields u)) as [cs|] eqn:Ecs; [|discriminate].
  destruct (Nat.eqb_spec (length (u_types u)) (length (u_offsets u))) as [El|]; [|discriminate].
  rewrite (mapM_opt_update _ _ i (m, c) (m, c') cs vs (vs ++ [lv]) Ecs Hn Hc Hc').
  rewrite !app_length, El, Nat.eqb_refl. rewrite combine_snoc' by exact El.
  destruct (mapM_opt_nth' _ _ _ _ _ Ecs Hn) as (vs0 & Hv0 & Hcsi). cbn [snd] in Hv0. rewrite Hc in Hv0. injection Hv0 as <-.
  apply mapM_opt_snoc.
  - eapply mapM_opt_mono; [|exact Hu]. intros p x. apply urow_mono. exact Hcsi.
  - unfold urow. destruct (Z.ltb_spec (Z.of_nat i) 0); [lia|]. destruct (Z.ltb_spec (Z.of_nat (length vs)) 0); [lia|]. cbn [orb].
    rewrite !Nat2Z.id, nth_error_update_nth, Nat.eqb_refl.
    assert (Hlt : i < length cs) by (apply nth_error_Some; congruence). destruct (Nat.ltb_spec i (length cs)); [|lia].
    rewrite nth_error_app2 by lia. rewrite Nat.sub_diag. reflexivity.
Qed.

(* ---------------- the union builder of a list of variant fields ---------------- *)
Definition child_ok (f : Field) (c : UChild) : Prop :=
  match c with
  | UCNull _ => fdt' f = DNull
  | UCB b => shape f b /\ WfB b /\ match fdt' f with DBytes k => is_utf8_kind k = true | _ => True end   (* binary variants: not in this model *)
  end.

Definition UShape (ufs : list Field) (fields : list (Meta * UChild)) : Prop :=
  Forall2 (fun f (mc : Meta * UChild) => fst mc = meta_of f /\ child_ok f (snd mc)) ufs fields.

Definition UInv (ufs : list Field) (u : UnionB) : Prop :=
  UShape ufs (u_fields u) /\ length (u_cur u) = length (u_fields u) /\
  forall i m c z, nth_error (u_fields u) i = Some (m, c) -> nth_error (u_cur u) i = Some z ->
    exists vs, child_content c = Some vs /\ z = Z.of_nat (length vs).

Definition ufield (nm : bytes) (ufs : list Field) : Field :=
  mkField nm (DUnion (combine (map Z.of_nat (seq 0 (length ufs))) ufs)) false.

Lemma repeat_snoc {A} (x : A) n : repeat x (S n) = repeat x n ++ [x].
Proof. induction n as [|n IH]; [reflexivity|]. cbn [repeat app] in *. rewrite <- IH. reflexivity. Qed.

Lemma interp_null_field nm nl x : interp (mkField nm DNull nl) x = if nullish (strip x) then IOk LNull else IReject.
Proof.
  induction x; cbn [strip nullish interp fdt' fnullable']; try reflexivity; try assumption; rewrite Bool.orb_true_r; reflexivity.
Qed.

Lemma child_push_sound f c c' x vs : child_ok f c -> child_content c = Some vs -> child_push x c = Ok c' ->
  exists lv, interp f x = IOk lv /\ child_content c' = Some (vs ++ [lv]) /\ child_ok f c'.
Proof.
  destruct c as [n|b]; cbn [child_ok child_push child_content child_array].
  - intros Hd Hc H. destruct (nullish (strip x)) eqn:En; [|discriminate]. injection H as <-. exists LNull.
    destruct f as [nm dt nl]. cbn [fdt'] in Hd. subst dt. rewrite interp_null_field, En. cbn [decode] in *. injection Hc as <-.
    split; [reflexivity|]. split; [cbn [child_content child_array decode]; rewrite repeat_snoc; reflexivity|reflexivity].
  - intros (Hs & Hw & Hk) Hc H. apply bind_ok in H as (b' & Hp & H). injection H as <-.
    destruct (push_sound x f b b' vs Hs Hw Hc Hp) as (lv & Hi & Hc' & Hs'). destruct (push_wf x b b' Hw Hp) as [Hw' _].
    exists lv. split; [exact Hi|]. split; [exact Hc'|repeat split; assumption].
Qed.

Lemma nth_error_variants (ufs : list Field) i : nth_error (combine (map Z.of_nat (seq 0 (length ufs))) ufs) i
  = match nth_error ufs i with Some f => Some (Z.of_nat i, f) | None => None end.
Proof.
  assert (G : forall k (l : list Field) i, nth_error (combine (map Z.of_nat (seq k (length l))) l) i = match nth_error l i with Some f => Some (Z.of_nat (k + i), f) | None => None end).
  { intros k l. revert k. induction l as [|f r IH]; intros k j; [destruct j; reflexivity|]. cbn [length seq map combine].
    destruct j as [|j]; cbn [nth_error]; [rewrite Nat.add_0_r; reflexivity|]. rewrite IH. replace (S k + j) with (k + S j) by lia. reflexivity. }
  apply (G 0).
Qed.

Lemma Forall2_update_r {A B} (R : A -> B -> Prop) l1 l2 : Forall2 R l1 l2 ->
  forall i a c c', nth_error l1 i = Some a -> nth_error l2 i = Some c -> (R a c -> R a c') -> Forall2 R l1 (update_nth l2 i c').
Proof.
  intros H. induction H as [|x y r1 r2 Hxy Hr IH]; intros i a c c' Ha Hc Himp; [destruct i; discriminate|].
  destruct i as [|i]; cbn [update_nth nth_error] in *.
  - injection Ha as <-. injection Hc as <-. constructor; [apply Himp, Hxy|exact Hr].
  - constructor; [exact Hxy|]. eapply IH; eassumption.
Qed.

(* a variant pushed into the union column *)
Lemma union_push_variant_sound ufs u u' idx payload lvs (Q : Field -> IRes) :
  UInv ufs u -> ucontent u = Some lvs -> union_push_variant idx payload u = Ok u' ->
  (forall f, Q f = interp f payload) ->
  exists f lv, (0 <= idx)%Z /\ nth_error ufs (Z.to_nat idx) = Some f /\ interp f payload = IOk lv /\
               ucontent u' = Some (lvs ++ [LUnion idx lv]) /\ UInv ufs u'.
Proof.
  intros (Hsh & Hlen & Hcur) Hc H _. unfold union_push_variant in H.
  destruct (Z.ltb_spec idx 0) as [|Hidx]; [discriminate|]. remember (Z.to_nat idx) as i eqn:Hi_def.
  destruct (nth_error (u_fields u) i) as [[m c]|] eqn:En; [|discriminate]. destruct (nth_error (u_cur u) i) as [z|] eqn:Ez; [|discriminate].
  destruct (in_int I8 idx); cbn [negb] in H; [|discriminate]. apply bind_ok in H as (c' & Hp & H). injection H as <-.
  destruct (Hcur i m c z En Ez) as (vs & Hvs & ->).
  assert (Hf : exists f, nth_error ufs i = Some f /\ m = meta_of f /\ child_ok f c).
  { clear - Hsh En. revert i En. induction Hsh as [|f [m0 c0] ufs' fs' [Hm Hok] _ IH]; intros i En; [destruct i; discriminate|].
    destruct i as [|i]; cbn [nth_error] in *; [injection En as <- <-; exists f; cbn in *; auto|]. apply (IH i En). }
  destruct Hf as (f & Hnf & Hm & Hok). destruct (child_push_sound f c c' payload vs Hok Hvs Hp) as (lv & Hi & Hc' & Hok').
  exists f, lv. split; [exact Hidx|]. split; [exact Hnf|]. split; [exact Hi|].
  assert (Ei : Z.of_nat i = idx) by lia. split.
  - rewrite <- Ei. apply (ucontent_push u i m c c' vs lv lvs _ En Hvs Hc' Hc).
  - split; [|split].
    + cbn [u_fields]. unfold UShape in *. apply (Forall2_update_r _ _ _ Hsh i f (m, c) (m, c') Hnf En). cbn [fst snd]. intros _. split; [exact Hm|exact Hok'].
    + cbn [u_fields u_cur]. rewrite !update_nth_length. exact Hlen.
    + cbn [u_fields u_cur]. intros j m' cj zj Hj Hzj. rewrite nth_error_update_nth in Hj. rewrite nth_error_update_nth in Hzj.
      destruct (Nat.eqb_spec i j) as [<-|Hne].
      * assert (i < length (u_fields u)) by (apply nth_error_Some; congruence). destruct (Nat.ltb_spec i (length (u_fields u))); [|lia].
        destruct (Nat.ltb_spec i (length (u_cur u))); [|lia]. injection Hj as <- <-. injection Hzj as <-.
        exists (vs ++ [lv]). split; [exact Hc'|]. rewrite app_length. cbn [length]. lia.
      * apply (Hcur j m' cj zj Hj Hzj).
Qed.

(* the data types of variant fields this model covers *)
Definition core_dt (dt : DT) : Prop :=
  match dt with DNull | DBool | DPrim _ | DBytes BUtf8 | DBytes BLargeUtf8 | DList _ _ | DStruct _ => True | _ => False end.

Lemma child_ok_core f c : child_ok f c -> core_dt (fdt' f).
Proof.
  destruct c as [n|b]; cbn [child_ok]; [intros ->; exact I|]. intros (Hs & _ & Hk).
  destruct b as [v vals len|k v vals|k v offs data|k v offs m e|len v cs]; cbn [shape] in Hs.
  - destruct Hs as [-> _]. exact I.
  - destruct Hs as [-> _]. exact I.
  - destruct Hs as (Hd & _). rewrite Hd in *. destruct k; try discriminate Hk; exact I.
  - destruct Hs as (cf & -> & _). exact I.
  - destruct Hs as (fs & -> & _). exact I.
Qed.

Lemma variant_lookup ufs idx : (0 <= idx)%Z ->
  (if (idx <? 0)%Z then @None Field else option_map snd (nth_error (combine (map Z.of_nat (seq 0 (length ufs))) ufs) (Z.to_nat idx))) = nth_error ufs (Z.to_nat idx).
Proof. intros H. destruct (Z.ltb_spec idx 0); [lia|]. rewrite nth_error_variants. destruct (nth_error ufs (Z.to_nat idx)); reflexivity. Qed.

Lemma interp_unit_eq f : core_dt (fdt' f) -> interp_unit f = interp f VUnit.
Proof.
  destruct f as [nm dt nl]. cbn [fdt' interp_unit interp fnullable'].
  destruct dt as [| |pk|bk| | | | | | | |]; cbn [core_dt]; intros H; try contradiction;
    try (destruct bk; try contradiction);
    rewrite ?Bool.orb_false_r, ?Bool.orb_true_r; reflexivity.
Qed.

Theorem union_push_sound nm ufs u u' v lvs : UInv ufs u -> ucontent u = Some lvs -> union_push v u = Ok u' ->
  exists lv, interp (ufield nm ufs) v = IOk lv /\ ucontent u' = Some (lvs ++ [lv]) /\ UInv ufs u'.
Proof.
  intros Hi Hc H. pose proof Hi as (Hsh & _ & _).
  assert (Hcore : forall i f, nth_error ufs i = Some f -> core_dt (fdt' f)).
  { intros i f Hf. clear - Hsh Hf. revert i Hf. induction Hsh as [|f0 [m0 c0] r1 r2 [_ Hok] _ IH]; intros i Hf; [destruct i; discriminate|].
    destruct i as [|i]; cbn [nth_error] in Hf; [injection Hf as <-; apply (child_ok_core _ _ Hok)|apply (IH i Hf)]. }
  destruct v; try discriminate H; cbn [union_push] in H.
  - (* unit variant *)
    destruct (union_push_variant_sound ufs u u' idx VUnit lvs (fun f => interp f VUnit) Hi Hc H (fun f => eq_refl)) as (f & lv & Hidx & Hf & Hint & Hc' & Hi').
    exists (LUnion idx lv). split; [|split; assumption]. cbn [ufield interp fdt']. rewrite (variant_lookup ufs idx Hidx), Hf.
    rewrite (interp_unit_eq f (Hcore _ _ Hf)), Hint. reflexivity.
  - (* newtype variant *)
    destruct (union_push_variant_sound ufs u u' idx v lvs (fun f => interp f v) Hi Hc H (fun f => eq_refl)) as (f & lv & Hidx & Hf & Hint & Hc' & Hi').
    exists (LUnion idx lv). split; [|split; assumption]. cbn [ufield interp fdt']. rewrite (variant_lookup ufs idx Hidx), Hf, Hint. reflexivity.
  - (* tuple variant *)
    destruct (union_push_variant_sound ufs u u' idx (VTupleStruct l) lvs (fun f => interp f (VTupleStruct l)) Hi Hc H (fun f => eq_refl)) as (f & lv & Hidx & Hf & Hint & Hc' & Hi').
    exists (LUnion idx lv). split; [|split; assumption]. cbn [ufield interp fdt']. rewrite (variant_lookup ufs idx Hidx), Hf.
    pose proof (Hcore _ _ Hf) as Hcd. destruct f as [fn dt fnl]. cbn [fdt'] in *.
    destruct dt as [| |pk|bk|vk|fbn|lk cf|fln cf|sfs|en' kf vf|key val|ufs2]; try contradiction; cbn [interp fdt'] in Hint; try discriminate Hint.
    + destruct pk; try contradiction; discriminate Hint.
    + destruct bk; try contradiction; discriminate Hint.
    + rewrite Hint. reflexivity.
    + rewrite Hint. reflexivity.
  - (* struct variant *)
    destruct (union_push_variant_sound ufs u u' idx (VStruct fs) lvs (fun f => interp f (VStruct fs)) Hi Hc H (fun f => eq_refl)) as (f & lv & Hidx & Hf & Hint & Hc' & Hi').
    exists (LUnion idx lv). split; [|split; assumption]. cbn [ufield interp fdt']. rewrite (variant_lookup ufs idx Hidx), Hf.
    pose proof (Hcore _ _ Hf) as Hcd. destruct f as [fn dt fnl]. cbn [fdt'] in *.
    destruct dt as [| |pk|bk|vk|fbn|lk cf|fln cf|sfs|en' kf vf|key val|ufs2]; try contradiction; cbn [interp fdt'] in Hint; try discriminate Hint.
    + destruct pk; try contradiction; discriminate Hint.
    + destruct bk; try contradiction; discriminate Hint.
    + rewrite Hint. reflexivity.
Qed.

(* ---------------- every build starts afresh ---------------- *)
Definition resets_to (fields0 : list (Meta * UChild)) (u : UnionB) : Prop :=
  map (fun mc : Meta * UChild => (fst mc, child_reset (snd mc))) (u_fields u) = fields0.

Lemma child_push_reset v c c' : child_push v c = Ok c' -> child_reset c' = child_reset c.
Proof.
  destruct c as [n|b]; cbn [child_push].
  - destruct (nullish (strip v)); [|discriminate]. intros H. injection H as <-. reflexivity.
  - intros H. apply bind_ok in H as (b' & Hp & H). injection H as <-. cbn [child_reset]. f_equal. apply (reset_push v b b' Hp).
Qed.

Lemma map_update_same {A B} (g : A -> B) : forall l i a a', nth_error l i = Some a -> g a' = g a -> map g (update_nth l i a') = map g l.
Proof.
  induction l as [|x l IH]; intros i a a' Hn Hg; [destruct i; reflexivity|].
  destruct i as [|i]; cbn [nth_error update_nth map] in *; [injection Hn as <-; rewrite Hg; reflexivity|]. f_equal. apply (IH i a a' Hn Hg).
Qed.

Lemma union_push_resets fields0 v u u' : resets_to fields0 u -> union_push v u = Ok u' -> resets_to fields0 u' /\ length (u_fields u') = length (u_fields u).
Proof.
  intros Hr H.
  assert (G : forall idx payload, union_push_variant idx payload u = Ok u' -> resets_to fields0 u' /\ length (u_fields u') = length (u_fields u)).
  { intros idx payload Hv. unfold union_push_variant in Hv. destruct (idx <? 0)%Z; [discriminate|].
    destruct (nth_error (u_fields u) (Z.to_nat idx)) as [[m c]|] eqn:En; [|discriminate]. destruct (nth_error (u_cur u) (Z.to_nat idx)); [|discriminate].
    destruct (negb (in_int I8 idx)); [discriminate|]. apply bind_ok in Hv as (c' & Hp & Hv). injection Hv as <-. cbn [u_fields]. split; [|apply update_nth_length].
    unfold resets_to in *. cbn [u_fields]. rewrite <- Hr. apply (map_update_same _ _ _ (m, c) (m, c') En). cbn [fst snd]. rewrite (child_push_reset _ _ _ Hp). reflexivity. }
  destruct v; try discriminate H; cbn [union_push] in H; eapply G; exact H.
Qed.

Theorem union_reset_fresh fields0 u : resets_to fields0 u -> union_reset u = union_new fields0.
Proof.
  unfold resets_to, union_reset, union_new. intros H. rewrite H. f_equal. rewrite <- H, map_length. reflexivity.
Qed.

Definition union_push_all (u0 : UnionB) (vs : list Value) : Outcome UnionB := fold_left (fun acc v => do u <- acc ;; union_push v u) vs (Ok u0).
Definition union_one_shot (u0 : UnionB) (vs : list Value) : Outcome Arr := do u <- union_push_all u0 vs ;; Ok (union_into_array u).

Lemma union_push_all_resets fields0 u0 : forall vs u, resets_to fields0 u0 -> union_push_all u0 vs = Ok u -> resets_to fields0 u.
Proof.
  intros vs. induction vs as [|v r IH] using rev_ind; intros u Hr H.
  - unfold union_push_all in H. cbn in H. injection H as <-. exact Hr.
  - unfold union_push_all in H. rewrite fold_left_app in H. cbn [fold_left] in H. apply bind_ok in H as (u1 & H1 & H2).
    apply (proj1 (union_push_resets fields0 v u1 u (IH u1 Hr H1) H2)).
Qed.

(* histories over one union column: the k-th build is the one-shot conversion of the variants pushed since
   the previous build - offsets restart from zero for every variant *)
Theorem union_history_batches fields0 : resets_to fields0 (union_new fields0) ->
  forall ops cur u outs, union_push_all (union_new fields0) cur = Ok u -> union_history u ops = Ok outs ->
  Forall2 (fun batch out => union_one_shot (union_new fields0) batch = Ok out) (union_batches cur ops) outs.
Proof.
  intros H0. induction ops as [|[v|] r IH]; intros cur u outs Hu Hrun; cbn [union_history union_batches] in *.
  - injection Hrun as <-. constructor.
  - apply bind_ok in Hrun as (u' & Hp & Hrun). apply (IH (cur ++ [v]) u' outs); [|exact Hrun].
    unfold union_push_all in *. rewrite fold_left_app. cbn [fold_left]. rewrite Hu. exact Hp.
  - apply bind_ok in Hrun as (rest & Hrest & Hrun). injection Hrun as <-. constructor.
    + unfold union_one_shot. rewrite Hu. reflexivity.
    + apply (IH [] (union_reset u) rest); [|exact Hrest]. rewrite (union_reset_fresh fields0 u (union_push_all_resets fields0 _ cur u H0 Hu)). reflexivity.
Qed.

(* the builder constructed for a list of variant fields is its own reset, is in the invariant, and is empty *)
Lemma union_children_fresh : forall fs cs, union_children fs = Some cs ->
  map (fun mc : Meta * UChild => (fst mc, child_reset (snd mc))) cs = cs.
Proof.
  induction fs as [|f r IH]; intros cs H; cbn [union_children] in H; [injection H as <-; reflexivity|].
  fold (union_children r) in H.
  destruct (match fdt' f with DNull => Some (UCNull 0) | _ => option_map UCB (build f) end) as [c|] eqn:Ec; [|discriminate].
  destruct (union_children r) as [rest|] eqn:Er; [|discriminate]. injection H as <-. cbn [map fst snd]. rewrite (IH rest eq_refl). f_equal. f_equal.
  destruct (fdt' f); try (injection Ec as <-; reflexivity);
    (destruct (build f) as [b0|] eqn:Eb; [|discriminate Ec]; injection Ec as <-; cbn [child_reset]; f_equal; eapply reset_fresh; exact Eb).
Qed.

Theorem union_of_fresh fs u0 : union_of fs = Some u0 -> resets_to (u_fields u0) (union_new (u_fields u0)).
Proof.
  unfold union_of. destruct (union_children fs) as [cs|] eqn:Ec; [|discriminate]. intros H. injection H as <-.
  unfold resets_to, union_new. cbn [u_fields]. apply (union_children_fresh fs cs Ec).
Qed.
