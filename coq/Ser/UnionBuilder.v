(* Model of UnionBuilder (serde_arrow/src/internal/serialization/union_builder.rs): dense unions.
   Per-batch state: the type ids and offsets written so far and one row counter per variant.
   Children are Null builders (unit variants) or builders of the core model. *)
From Verif Require Export Builder Take DictBuilder.
Local Open Scope nat_scope.

Inductive UChild := UCNull (rows : nat) | UCB (b : Builder).

Record UnionB := { u_fields : list (Meta * UChild); u_types : list Z; u_offsets : list Z; u_cur : list Z }.

Definition union_new (fields : list (Meta * UChild)) : UnionB :=
  {| u_fields := fields; u_types := []; u_offsets := []; u_cur := repeat 0%Z (length fields) |}.

Definition nullish (w : Value) : bool := match w with VNone | VUnit | VUnitStruct => true | _ => false end.

(* what a variant's child builder does with the payload *)
Definition child_push (v : Value) (c : UChild) : Outcome UChild :=
  match c with
  | UCNull n => if nullish (strip v) then Ok (UCNull (S n)) else Err
  | UCB b => do b' <- push v b ;; Ok (UCB b')
  end.

(* serialize_variant: the row is recorded (offset = rows of that variant so far) before the payload is written *)
Definition union_push_variant (idx : Z) (payload : Value) (u : UnionB) : Outcome UnionB :=
  if (idx <? 0)%Z then Err else
  let i := Z.to_nat idx in
  match nth_error (u_fields u) i, nth_error (u_cur u) i with
  | Some (m, c), Some cur =>
    if negb (in_int I8 idx) then Err else
    do c' <- child_push payload c ;;
    Ok {| u_fields := update_nth (u_fields u) i (m, c'); u_types := u_types u ++ [idx]; u_offsets := u_offsets u ++ [cur];
          u_cur := update_nth (u_cur u) i (cur + 1)%Z |}
  | _, _ => Err
  end.

(* the serde calls a union column accepts: the four kinds of enum variants *)
Definition union_push (v : Value) (u : UnionB) : Outcome UnionB :=
  match v with
  | VUnitVariant idx _ => union_push_variant idx VUnit u
  | VNewtypeVariant idx _ x => union_push_variant idx x u
  | VTupleVariant idx _ l => union_push_variant idx (VTupleStruct l) u
  | VStructVariant idx _ fs => union_push_variant idx (VStruct fs) u
  | _ => Err
  end.

Definition child_array (c : UChild) : Arr := match c with UCNull n => ANull n | UCB b => into_array b end.
Definition child_reset (c : UChild) : UChild := match c with UCNull _ => UCNull 0 | UCB b => UCB (reset b) end.
Definition child_rows (c : UChild) : nat := match c with UCNull n => n | UCB b => rows b end.

Fixpoint number_from (i : Z) (fs : list (Meta * UChild)) : list (Z * Meta * Arr) :=
  match fs with [] => [] | (m, c) :: r => (i, m, child_array c) :: number_from (i + 1) r end.

Definition union_into_array (u : UnionB) : Arr := AUnion (u_types u) (u_offsets u) (number_from 0 (u_fields u)).

Definition union_reset (u : UnionB) : UnionB :=
  {| u_fields := map (fun mc => (fst mc, child_reset (snd mc))) (u_fields u); u_types := []; u_offsets := [];
     u_cur := repeat 0%Z (length (u_fields u)) |}.

Inductive UOp := UPush (v : Value) | UBuild.
Fixpoint union_history (u : UnionB) (ops : list UOp) : Outcome (list Arr) :=
  match ops with
  | [] => Ok []
  | UPush v :: r => do u' <- union_push v u ;; union_history u' r
  | UBuild :: r => do rest <- union_history (union_reset u) r ;; Ok (union_into_array u :: rest)
  end.
Fixpoint union_batches (cur : list Value) (ops : list UOp) : list (list Value) :=
  match ops with
  | [] => []
  | UPush v :: r => union_batches (cur ++ [v]) r
  | UBuild :: r => cur :: union_batches [] r
  end.

(* the union builder of a list of variant fields (Null variants and variants of the core builder kinds) *)
Definition union_children (fs : list Field) : option (list (Meta * UChild)) :=
  (fix go (fs : list Field) : option (list (Meta * UChild)) :=
     match fs with
     | [] => Some []
     | f :: r => match (match fdt' f with DNull => Some (UCNull 0) | _ => option_map UCB (build f) end), go r with
                 | Some c, Some rest => Some ((meta_of f, c) :: rest) | _, _ => None end
     end) fs.
Definition union_of (fs : list Field) : option UnionB := option_map union_new (union_children fs).
