(* The serde data model (the calls a Serialize implementation makes), and the documented
   Rust -> Arrow mapping: which logical value a serde value denotes in a column of a given field,
   for every presentation the column accepts. *)
From Verif Require Export Arr Wf FloatOfInt.
Local Open Scope Z_scope.

Inductive Value :=
| VBool (v : bool) | VInt (k : IntKind) (z : Z) | VF32 (bits : Z) | VF64 (bits : Z) | VChar (c : Z)
| VStr (s : bytes) | VBytes (s : bytes)
| VNone | VSome (v : Value) | VUnit | VUnitStruct | VNewtypeStruct (v : Value)
| VSeq (l : list Value) | VTuple (l : list Value) | VTupleStruct (l : list Value)
| VMap (kvs : list (Value * Value)) | VStruct (fs : list (bytes * Value))
| VUnitVariant (idx : Z) (name : bytes) | VNewtypeVariant (idx : Z) (name : bytes) (v : Value)
| VTupleVariant (idx : Z) (name : bytes) (l : list Value)
| VStructVariant (idx : Z) (name : bytes) (fs : list (bytes * Value)).

(* IOk: the value is in the documented mapping and denotes lv; IReject: the column must refuse it;
   ISkip: documented lossy or text conversions that are judged elsewhere (floats, temporal and
   decimal strings: C14/C15) *)
Inductive IRes := IOk (lv : LVal) | IReject | ISkip.

Definition ibind (r : IRes) (f : LVal -> IRes) : IRes :=
  match r with IOk v => f v | IReject => IReject | ISkip => ISkip end.

(* all components must be IOk; a rejected component rejects the whole, otherwise skip *)
Fixpoint iall (l : list IRes) : option (option (list LVal)) :=   (* None = reject, Some None = skip *)
  match l with
  | [] => Some (Some [])
  | r :: rest =>
    match r, iall rest with
    | IReject, _ | _, None => None
    | ISkip, Some _ | IOk _, Some None => Some None
    | IOk v, Some (Some vs) => Some (Some (v :: vs))
    end
  end.
Definition iall_then (l : list IRes) (f : list LVal -> IRes) : IRes :=
  match iall l with None => IReject | Some None => ISkip | Some (Some vs) => f vs end.

(* UTF-8 encoding of a char *)
Definition utf8_encode (c : Z) : bytes :=
  let n := Z.to_N c in
  (if n <? 128 then [n]
   else if n <? 2048 then [192 + n / 64; 128 + n mod 64]
   else if n <? 65536 then [224 + n / 4096; 128 + n / 64 mod 64; 128 + n mod 64]
   else [240 + n / 262144; 128 + n / 4096 mod 64; 128 + n / 64 mod 64; 128 + n mod 64])%N.

Definition print_Z (z : Z) : bytes := if z <? 0 then 45%N :: print_N (Z.abs_N z) else print_N (Z.to_N z).

Definition find_field (fs : list Field) (name : bytes) : option Field :=
  find (fun f => bytes_eqb (fname' f) name) fs.

(* KeyLookupSerializer: only strings (below Option / newtype layers) can be looked up *)
Fixpoint key_name (k : Value) : option bytes :=
  match k with
  | VStr n => Some n
  | VSome x | VNewtypeStruct x => key_name x
  | _ => None
  end.

(* what a string-like column stores for a scalar *)
Definition text_of_scalar (v : Value) : IRes :=
  match v with
  | VStr s => IOk (LBytes s)
  | VChar c => IOk (LBytes (utf8_encode c))
  | VBool true => IOk (LBytes (b "true")) | VBool false => IOk (LBytes (b "false"))
  | VInt _ z => IOk (LBytes (print_Z z))
  | VF32 _ | VF64 _ => ISkip
  | VUnitVariant _ name => IOk (LBytes name)
  | _ => IReject
  end.

Definition byte_of_value (v : Value) : IRes :=
  match v with VInt _ z => if in_int U8 z then IOk (LInt z) else IReject | _ => IReject end.

Definition bytes_of_lvals (l : list LVal) : bytes := map (fun x => match x with LInt z => Z.to_N z | _ => 0%N end) l.

Definition prim_scalar (k : PrimKind) (v : Value) : IRes :=
  match k, v with
  | PInt i, VInt _ z => if in_int i z then IOk (LInt z) else IReject
  | PInt i, VBool x => IOk (LInt (if x then 1 else 0))
  | PInt i, VChar c => if in_int i c then IOk (LInt c) else IReject
  | PF32, VF32 x => IOk (LInt x) | PF64, VF64 x => IOk (LInt x)
  | PF16, (VF32 _ | VF64 _) => ISkip
  (* the other float width is cast: narrowing rounds to nearest (ties to even, overflow to infinity), widening is exact *)
  | PF32, VF64 x => IOk (LInt (f32_of_f64 x))
  | PF64, VF32 x => IOk (LInt (f64_of_f32 x))
  (* FloatBuilder: integers of every width and chars are cast (`v as f32` / `v as f64`): nearest, ties to even *)
  | PF32, (VInt _ z | VChar z) => IOk (LInt (f32_of_int z))
  | PF64, (VInt _ z | VChar z) => IOk (LInt (f64_of_int z))
  | (PDate32 | PTime32 _), VInt (I32 | I64) z => if in_int I32 z then IOk (LInt z) else IReject
  | (PDate64 | PTime64 _), VInt (I32 | I64) z => IOk (LInt z)
  | PTimestamp _ _, VInt I64 z => IOk (LInt z)
  | PDuration _, VInt _ z => if in_int I64 z then IOk (LInt z) else IReject
  | (PDate32 | PDate64 | PTime32 _ | PTime64 _ | PTimestamp _ _ | PDuration _ | PDecimal _ _), VStr _ => ISkip
  | PDecimal _ _, (VF32 _ | VF64 _) => ISkip
  | _, _ => IReject
  end.

(* assemble a record from the interpreted entries that were provided for it, by schema field name:
   absent nullable -> null, absent required -> reject, given twice -> reject *)
Definition field_null_ok (sf : Field) : bool :=
  fnullable' sf || match fdt' sf with DNull => true | _ => false end.

Definition assemble (fs : list Field) (provided : list (bytes * IRes)) : IRes :=
  iall_then
    (map (fun sf =>
            match filter (fun p : bytes * IRes => bytes_eqb (fst p) (fname' sf)) provided with
            | [] => if field_null_ok sf then IOk LNull else IReject
            | [(_, r)] => r
            | _ => IReject
            end) fs)
    (fun vs => IOk (LStruct (combine (map fname' fs) vs))).

Definition positional (fs : list Field) (l : list IRes) : IRes := assemble fs (combine (map fname' fs) l).

(* a unit pushed into the field of a union variant (serialize_unit -> serialize_none) *)
Definition interp_unit (f : Field) : IRes :=
  match fdt' f with
  | DUnion _ => IReject
  | DNull => IOk LNull
  | _ => if fnullable' f then IOk LNull else IReject
  end.

(* a u8 pushed into a leaf column (bytes presented to a list column) *)
Definition interp_u8_leaf (f : Field) (z : Z) : IRes :=
  match fdt' f with
  | DPrim k => prim_scalar k (VInt U8 z)
  | DBytes (BUtf8 | BLargeUtf8) | DView KUtf8View => text_of_scalar (VInt U8 z)
  | _ => IReject
  end.

Fixpoint interp (f : Field) (v : Value) {struct v} : IRes :=
  let null_ok := fnullable' f || match fdt' f with DNull => true | _ => false end in
  match v with
  | VNone | VUnit | VUnitStruct =>                         (* a unit struct is written like a unit *)
    match fdt' f with
    | DUnion _ => IReject                                  (* documented: no null for unions *)
    | _ => if null_ok then IOk LNull else IReject
    end
  | VSome x | VNewtypeStruct x => interp f x
  | _ =>
    match fdt' f with
    | DNull => IReject
    | DBool => match v with VBool x => IOk (LBool x) | _ => IReject end
    | DPrim k => prim_scalar k v
    | DBytes (BUtf8 | BLargeUtf8) | DView KUtf8View | DDict _ _ =>
      text_of_scalar v      (* dictionary-encoded columns take the same scalars as plain strings *)
    | DBytes (BBinary | BLargeBinary) | DView KBinaryView =>
      match v with
      | VBytes s => IOk (LBytes s)
      | VSeq l | VTuple l | VTupleStruct l =>
        iall_then (map byte_of_value l) (fun vs => IOk (LBytes (bytes_of_lvals vs)))
      | _ => IReject
      end
    | DFixedBin n =>
      match v with
      | VBytes s => if Z.of_nat (length s) =? n then IOk (LBytes s) else IReject
      | VSeq l | VTuple l | VTupleStruct l =>
        if Z.of_nat (length l) =? n
        then iall_then (map byte_of_value l) (fun vs => IOk (LBytes (bytes_of_lvals vs)))
        else IReject
      | _ => IReject
      end
    | DList _ cf =>
      match v with
      | VSeq l | VTuple l | VTupleStruct l => iall_then (map (interp cf) l) (fun vs => IOk (LList vs))
      | VBytes s => iall_then (map (fun x => interp_u8_leaf cf (Z.of_N x)) s) (fun vs => IOk (LList vs))
      | _ => IReject
      end
    | DFixedList n cf =>
      match v with
      | VSeq l | VTuple l | VTupleStruct l =>
        if Z.of_nat (length l) =? n then iall_then (map (interp cf) l) (fun vs => IOk (LList vs)) else IReject
      | _ => IReject
      end
    | DMap _ kf vf =>
      match v with
      | VMap kvs =>
        iall_then (map (fun kv => interp kf (fst kv)) kvs) (fun ks =>
        iall_then (map (fun kv => interp vf (snd kv)) kvs) (fun vs => IOk (LMap (combine ks vs))))
      | _ => IReject
      end
    | DStruct fs =>
      match v with
      | VStruct fields =>
        assemble fs (map (fun nv => (fst nv,
                            match find_field fs (fst nv) with Some sf => interp sf (snd nv) | None => IOk LNull end))
                         fields)
      | VMap kvs =>
        (* keys must be strings, possibly below Option / newtype layers (the key resolver implements
           serialize_str, serialize_some and serialize_newtype_struct only) *)
        if forallb (fun kv => match key_name (fst kv) with Some _ => true | None => false end) kvs then
          assemble fs (map (fun kv => match key_name (fst kv) with
                                      | Some n => (n, match find_field fs n with Some sf => interp sf (snd kv) | None => IOk LNull end)
                                      | None => ([], IReject) end) kvs)
        else IReject
      | VTuple l | VTupleStruct l =>
        (* positions in schema order; extra elements are ignored *)
        positional fs ((fix go (fs : list Field) (l : list Value) {struct l} : list IRes :=
                          match l, fs with
                          | x :: l', sf :: fs' => interp sf x :: go fs' l'
                          | _, _ => []
                          end) fs l)
      | _ => IReject
      end
    | DUnion ufs =>
      let variant (idx : Z) : option Field :=
          if idx <? 0 then None else option_map snd (nth_error ufs (Z.to_nat idx)) in
      match v with
      | VUnitVariant idx _ =>
        match variant idx with Some vf => ibind (interp_unit vf) (fun x => IOk (LUnion idx x)) | None => IReject end
      | VNewtypeVariant idx _ x =>
        match variant idx with Some vf => ibind (interp vf x) (fun y => IOk (LUnion idx y)) | None => IReject end
      | VTupleVariant idx _ l =>
        match variant idx with
        | Some vf =>
          match fdt' vf with
          | DStruct fs =>
            ibind (positional fs ((fix go (fs : list Field) (l : list Value) {struct l} : list IRes :=
                                     match l, fs with
                                     | x :: l', sf :: fs' => interp sf x :: go fs' l'
                                     | _, _ => []
                                     end) fs l))
                  (fun y => IOk (LUnion idx y))
          | DList _ cf =>
            ibind (iall_then (map (interp cf) l) (fun vs => IOk (LList vs))) (fun y => IOk (LUnion idx y))
          | _ => ISkip
          end
        | None => IReject
        end
      | VStructVariant idx _ fields =>
        match variant idx with
        | Some vf =>
          match fdt' vf with
          | DStruct fs =>
            ibind (assemble fs (map (fun nv => (fst nv, match find_field fs (fst nv) with
                                                        | Some sf' => interp sf' (snd nv) | None => IOk LNull end)) fields))
                  (fun y => IOk (LUnion idx y))
          | _ => ISkip
          end
        | None => IReject
        end
      | _ => IReject
      end
    end
  end.
