(* No spurious rejection at the fixed-width leaves: a value that the documented mapping of a Boolean / integer / float / temporal-integer
   column contains - through any Option / newtype layers, a null into a nullable column included - is accepted by the builder.
   (The converse of C01's refinement at these leaves; variable-width and nested builders additionally need room in their offset type.) *)
From Verif Require Import Builder Builder_proofs Refine_proofs FloatOfInt_proofs.
Require Import Lia.
Local Open Scope nat_scope.

(* the numbers a serde value of a given width can carry *)
Fixpoint wt (v : Value) : Prop :=
  match v with
  | VInt k z => in_int k z = true
  | VChar c => in_int U32 c = true
  | VF32 x => in_int U32 x = true
  | VF64 x => in_int U64 x = true
  | VSome x | VNewtypeStruct x => wt x
  | _ => True
  end.

Lemma prim_scalar_value k v lv : prim_built k = true -> wt v -> prim_scalar k v = IOk lv -> exists z, prim_value k v = Ok z.
Proof.
  intros Hb Hw H.
  destruct k as [i| | | | | |u|u|u tz|u|p sc]; try discriminate Hb; destruct v; cbn [prim_scalar] in H; try discriminate H; cbn [prim_value wt] in *.
  all: try (eexists; reflexivity).
  all: try (match type of H with (if ?c then _ else _) = _ => destruct c eqn:E; [|discriminate H] end; eexists; reflexivity).
  all: try (rewrite Hw; eexists; reflexivity).
  all: try (destruct k; try discriminate H; cbn [prim_scalar] in H).
  all: try (match type of H with (if ?c then _ else _) = _ => destruct c eqn:E; [|discriminate H] end).
  all: try (eexists; reflexivity).
  all: try (match goal with |- exists z, (if ?c then _ else _) = _ => let Ec := fresh "Ec" in destruct c eqn:Ec; [eexists; reflexivity|exfalso] end).
  all: try (unfold in_int in *; cbn in *; lia).
  all: match goal with
       | Ec : in_int U32 (f32_of_int ?z) = false |- _ => pose proof (f32_of_int_range z) as R
       | Ec : in_int U64 (f64_of_int ?z) = false |- _ => pose proof (f64_of_int_range z) as R
       | Ec : in_int U32 (f32_of_f64 ?z) = false |- _ => pose proof (f32_of_f64_range z) as R
       | Ec : in_int U64 (f64_of_f32 ?z) = false |- _ => pose proof (f64_of_f32_range z) as R
       end.
  all: unfold in_int in Hw, Ec; cbn [int_min int_max] in Hw, Ec; change (2 ^ 64)%Z with 18446744073709551616%Z in R; change (2 ^ 32)%Z with 4294967296%Z in R; lia.
Qed.

Definition fixed_width (b : Builder) : Prop :=
  match b with BdBool _ _ _ => True | BdPrim k _ _ => prim_built k = true | _ => False end.

Lemma null_progress f b : fixed_width b -> shape f b -> (if fnullable' f then IOk LNull else IReject) = IOk LNull -> exists b', push_none b = Ok b'.
Proof.
  intros Hb Hs Hi. destruct b as [val vals len|k val vals| | |]; try contradiction; destruct f as [nm dt nl]; cbn [shape fdt'] in Hs; destruct Hs as [_ Hv];
    unfold vnull in Hv; cbn [fnullable'] in *; destruct nl; try discriminate Hi; destruct val; try discriminate Hv; cbn [push_none set_validity bind]; eexists; reflexivity.
Qed.

Lemma scalar_progress v f b lv : fixed_width b -> shape f b -> wt v ->
  (match v with VNone | VSome _ | VUnit | VUnitStruct | VNewtypeStruct _ => False | _ => True end) -> interp f v = IOk lv -> exists b', push v b = Ok b'.
Proof.
  intros Hb Hs Hw Hplain Hi.
  destruct b as [val vals len|pk val vals| | |]; try contradiction; destruct f as [nm dt nl]; cbn [shape fdt'] in Hs; destruct Hs as [Hd Hv]; subst dt.
  - destruct v; try contradiction; cbn [interp fdt'] in Hi; try discriminate Hi. cbn [push]. destruct val; cbn [set_validity bind]; eexists; reflexivity.
  - assert (Hp : prim_scalar pk v = IOk lv) by (destruct v; try contradiction; exact Hi).
    destruct (prim_scalar_value pk v lv Hb Hw Hp) as (z & Hz).
    assert (E : push v (BdPrim pk val vals) = do z <- prim_value pk v ;; do val' <- set_validity val (length vals) true ;; Ok (BdPrim pk val' (vals ++ [z]))) by (destruct v; try contradiction; reflexivity).
    rewrite E, Hz. cbn [bind]. destruct val; cbn [set_validity bind]; eexists; reflexivity.
Qed.

Theorem fixed_width_progress : forall v f b lv, fixed_width b -> shape f b -> wt v -> interp f v = IOk lv -> exists b', push v b = Ok b'.
Proof.
  intros v. induction v using Value_ind'; intros f b lv Hb Hs Hw Hi.
  all: try (apply (scalar_progress _ f b lv Hb Hs Hw I Hi)).
  - (* none *) cbn [push]. apply (null_progress f b Hb Hs). destruct b as [val vals len|pk val vals| | |]; try contradiction; destruct f as [nm dt nl];
      cbn [shape fdt'] in Hs; destruct Hs as [Hd _]; subst dt; cbn [interp fdt' fnullable'] in *; rewrite Bool.orb_false_r in Hi; destruct nl; first [reflexivity|discriminate Hi].
  - cbn [push wt interp] in *. apply (IHv f b lv Hb Hs Hw Hi).
  - cbn [push]. apply (null_progress f b Hb Hs). destruct b as [val vals len|pk val vals| | |]; try contradiction; destruct f as [nm dt nl];
      cbn [shape fdt'] in Hs; destruct Hs as [Hd _]; subst dt; cbn [interp fdt' fnullable'] in *; rewrite Bool.orb_false_r in Hi; destruct nl; first [reflexivity|discriminate Hi].
  - cbn [push]. apply (null_progress f b Hb Hs). destruct b as [val vals len|pk val vals| | |]; try contradiction; destruct f as [nm dt nl];
      cbn [shape fdt'] in Hs; destruct Hs as [Hd _]; subst dt; cbn [interp fdt' fnullable'] in *; rewrite Bool.orb_false_r in Hi; destruct nl; first [reflexivity|discriminate Hi].
  - cbn [push wt interp] in *. apply (IHv f b lv Hb Hs Hw Hi).
Qed.

(* ---- variable-width leaves: the same, given room in the offset type ---- *)
Definition room (wide : bool) (offs : list Z) (n : nat) : Prop :=
  let k := if wide then I64 else I32 in in_int k (Z.of_nat n) = true /\ in_int k (last offs 0 + Z.of_nat n)%Z = true.

Lemma last_dup offs : last (duplicate_last offs) 0%Z = last offs 0%Z.
Proof. unfold duplicate_last. rewrite last_last. reflexivity. Qed.

Lemma increment_room wide offs n : room wide offs n -> exists offs', increment_last wide (duplicate_last offs) n = Ok offs'.
Proof.
  intros [H1 H2]. unfold increment_last. rewrite last_dup. destruct wide; rewrite H1; cbn [negb]; rewrite H2; eexists; reflexivity.
Qed.

Lemma bytes_progress v f k val offs data s : shape f (BdUtf8 k val offs data) -> wt v ->
  (match v with VNone | VSome _ | VUnit | VUnitStruct | VNewtypeStruct _ => False | _ => True end) ->
  interp f v = IOk (LBytes s) -> room (is_wide k) offs (length s) -> exists b', push v (BdUtf8 k val offs data) = Ok b'.
Proof.
  intros Hs Hw Hplain Hi Hr. destruct f as [nm dt nl]. cbn [shape fdt'] in Hs. destruct Hs as [Hd Hv]. subst dt.
  destruct (increment_room _ _ _ Hr) as (offs' & Hinc).
  destruct (is_utf8_kind k) eqn:Hu.
  - assert (Ht : text_of_scalar v = IOk (LBytes s)) by (destruct k; try discriminate Hu; destruct v; try contradiction; exact Hi).
    assert (E : push v (BdUtf8 k val offs data) =
                match text_of_scalar v with
                | IOk (LBytes s0) => do val' <- set_validity val (length offs - 1) true ;; do offs' <- increment_last (is_wide k) (duplicate_last offs) (length s0) ;; Ok (BdUtf8 k val' offs' (data ++ s0))
                | _ => Err end) by (destruct v; try contradiction; cbn [push]; rewrite Hu; reflexivity).
    rewrite E, Ht. destruct val; cbn [set_validity bind]; rewrite Hinc; cbn [bind]; eexists; reflexivity.
  - assert (Hb : binary_of_value v = Ok s).
    { destruct k; try discriminate Hu; destruct v; try contradiction; cbn [interp fdt'] in Hi; try discriminate Hi; cbn [binary_of_value];
        try (injection Hi as ->; reflexivity); rewrite Hi; reflexivity. }
    assert (E : push v (BdUtf8 k val offs data) =
                do s0 <- binary_of_value v ;; do val' <- set_validity val (length offs - 1) true ;; do offs' <- increment_last (is_wide k) (duplicate_last offs) (length s0) ;; Ok (BdUtf8 k val' offs' (data ++ s0)))
      by (destruct v; try contradiction; cbn [push]; rewrite Hu; reflexivity).
    rewrite E, Hb. cbn [bind]. destruct val; cbn [set_validity bind]; rewrite Hinc; cbn [bind]; eexists; reflexivity.
Qed.
