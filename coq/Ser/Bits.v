(* Bit buffers: the incremental writer of serde_arrow (set_bit_buffer) refines appending to a list
   of booleans, and reading the packed bytes back gives the list. *)
From Verif Require Export Arr.
Local Open Scope nat_scope.

(* set_bit_buffer(buffer, idx, value): grow with zero bytes while idx/8 >= len, then set or clear *)
Fixpoint set_nth_byte (l : list N) (i : nat) (f : N -> N) : list N :=
  match l, i with
  | [], _ => []
  | x :: r, O => f x :: r
  | x :: r, S j => x :: set_nth_byte r j f
  end.

Definition grow (buf : list N) (n : nat) : list N := buf ++ repeat 0%N (n - length buf).

Definition set_bit (buf : list N) (idx : nat) (v : bool) : list N :=
  let buf := grow buf (S (idx / 8)) in
  set_nth_byte buf (idx / 8)
    (fun byte => if v then N.setbit byte (N.of_nat (idx mod 8)) else N.clearbit byte (N.of_nat (idx mod 8))).

(* the buffer obtained by pushing the bits one after the other, as the builders do *)
Fixpoint push_bits_from (buf : list N) (i : nat) (bits : list bool) : list N :=
  match bits with
  | [] => buf
  | v :: r => push_bits_from (set_bit buf i v) (S i) r
  end.
Definition pack_bits (bits : list bool) : list N := push_bits_from [] 0 bits.
