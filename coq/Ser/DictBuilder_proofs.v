(* The dictionary builder keeps keys, values and its table in step, appends exactly the pushed text
   to the logical content, emits keys that are always in range, and starts every batch afresh. *)
From Verif Require Import DictBuilder Builder_proofs Bits_proofs Reader_proofs Decode_proofs Refine_proofs Wf_proofs Take_proofs.
Require Import ZifyBool ZifyN ZifyNat.
Local Open Scope nat_scope.

(* the table is exactly the list of stored values; keys point into it *)
Definition DInv (d : DictB) : Prop :=
  exists k kv kvals vk offs data,
    d_keys d = BdPrim (PInt k) kv kvals /\ d_values d = BdUtf8 vk None offs data /\
    ValOk kv (length kvals) /\ OffsOk offs (length data) /\
    ranges data offs = Some (d_index d) /\ NoDup (d_index d) /\
    Forall (fun z => in_int k z = true) kvals /\
    (* every visible (non-null) key points into the table (no placeholder rows: top-level use) *)
    (exists ks, apply_validity (some_bitmap kv) (map LInt kvals) = Some ks /\
                Forall (fun x => match x with LInt z => (0 <= z < Z.of_nat (length (d_index d)))%Z | _ => True end) ks) /\
    OffsX (is_wide vk) offs /\ Forall (fun s => utf8_valid s = true) (d_index d).

Lemma position_spec s : forall l i, position s l = Some i -> nth_error l i = Some s /\ i < length l.
Proof.
  induction l as [|x r IH]; intros i H; cbn [position] in H; [discriminate|]. destruct (bytes_eqb x s) eqn:E.
  - injection H as <-. apply bytes_eqb_eq in E. subst. split; [reflexivity|cbn; lia].
  - destruct (position s r) as [j|] eqn:Ej; [|discriminate]. injection H as <-. destruct (IH j eq_refl) as [H1 H2]. split; [exact H1|cbn; lia].
Qed.

Lemma position_none s : forall l, position s l = None -> ~ In s l.
Proof.
  induction l as [|x r IH]; intros H; cbn [position] in H; [intros []|]. destruct (bytes_eqb x s) eqn:E; [discriminate|].
  destruct (position s r) eqn:Ej; [discriminate|]. intros [->|Hin]; [rewrite bytes_eqb_refl in E; discriminate|exact (IH eq_refl Hin)].
Qed.

Lemma NoDup_app_one {A} (l : list A) x : NoDup l -> ~ In x l -> NoDup (l ++ [x]).
Proof.
  intros Hn Hx. induction Hn as [|y r Hy Hr IH]; [constructor; [intros []|constructor]|].
  cbn [app]. constructor; [|apply IH; intros H; apply Hx; right; exact H].
  intros Hin. apply in_app_or in Hin as [H|[H|[]]]; [exact (Hy H)|subst; apply Hx; left; reflexivity].
Qed.

Lemma DInv_new key value nullable : DInv (dict_new key value nullable).
Proof.
  exists key, (new_validity nullable), [], value, [0%Z], []. cbn [dict_new d_keys d_values d_index length].
  split; [reflexivity|]. split; [reflexivity|]. split; [apply ValOk_new|]. split; [split; [discriminate|reflexivity]|].
  split; [reflexivity|]. split; [constructor|]. split; [constructor|]. split; [exists []; split; [destruct nullable; reflexivity|constructor]|]. split; [|constructor].
  destruct value; repeat split.
Qed.

Lemma push_key k kv kvals idx k' : push_scalar (VInt U64 (Z.of_nat idx)) (BdPrim (PInt k) kv kvals) = Ok k' ->
  exists kv', set_validity kv (length kvals) true = Ok kv' /\ k' = BdPrim (PInt k) kv' (kvals ++ [Z.of_nat idx]) /\ in_int k (Z.of_nat idx) = true.
Proof.
  cbn [push_scalar prim_value]. destruct (in_int k (Z.of_nat idx)) eqn:E; [|discriminate]. cbn [bind]. intros H. apply bind_ok in H as (kv' & Hs & H). injection H as <-. eauto.
Qed.

Lemma push_value_x vk offs data s v' : OffsOk offs (length data) -> OffsX (is_wide vk) offs -> push_scalar (VStr s) (BdUtf8 vk None offs data) = Ok v' ->
  OffsX (is_wide vk) (offs ++ [Z.of_nat (length data + length s)]).
Proof.
  intros Ho Hx. cbn [push_scalar text_of_scalar set_validity bind]. intros H. destruct (is_utf8_kind vk); [|discriminate H]. apply bind_ok in H as (offs' & Hi & H).
  rewrite <- (increment_dup _ _ _ _ _ Ho Hi). apply (increment_last_offsx _ _ _ _ (offs_len2 offs (proj1 Ho)) (OffsX_dup _ _ (proj1 Ho) Hx) Hi).
Qed.

Lemma push_value vk offs data s v' : OffsOk offs (length data) -> push_scalar (VStr s) (BdUtf8 vk None offs data) = Ok v' ->
  v' = BdUtf8 vk None (offs ++ [Z.of_nat (length data + length s)]) (data ++ s).
Proof.
  intros Ho. cbn [push_scalar text_of_scalar set_validity bind]. intros H. destruct (is_utf8_kind vk); [|discriminate H]. apply bind_ok in H as (offs' & Hi & H). injection H as <-.
  rewrite (increment_dup _ _ _ _ _ Ho Hi). reflexivity.
Qed.

Lemma visible_snoc kv kvals ks kv' valid z (P : LVal -> Prop) :
  ValOk kv (length kvals) -> apply_validity (some_bitmap kv) (map LInt kvals) = Some ks -> Forall P ks ->
  set_validity kv (length kvals) valid = Ok kv' -> P (if valid then LInt z else LNull) ->
  exists ks', apply_validity (some_bitmap kv') (map LInt (kvals ++ [z])) = Some ks' /\ Forall P ks'.
Proof.
  intros Hv Ha HP Hs Hz. exists (ks ++ [if valid then LInt z else LNull]). split.
  - rewrite map_app. cbn [map]. apply (apply_validity_snoc kv (map LInt kvals) ks valid (LInt z) kv'); [rewrite map_length; exact Hv|exact Ha|rewrite map_length; exact Hs].
  - apply Forall_app. split; [exact HP|constructor; [exact Hz|constructor]].
Qed.

Theorem dict_push_str_inv s d d' : utf8_valid s = true -> DInv d -> dict_push_str s d = Ok d' -> DInv d'.
Proof.
  intros Hu (k & kv & kvals & vk & offs & data & Ek & Ev & Hkv & Ho & Hr & Hnd & Hkeys & (ks & Hks & Hvis) & Hx & Hutf) H. unfold dict_push_str in H.
  destruct (position s (d_index d)) as [idx|] eqn:Ep.
  - apply bind_ok in H as (k' & Hk & H). injection H as <-. rewrite Ek in Hk. destruct (push_key _ _ _ _ _ Hk) as (kv' & Hs & -> & Hin).
    destruct (position_spec _ _ _ Ep) as [_ Hlt].
    exists k, kv', (kvals ++ [Z.of_nat idx]), vk, offs, data. cbn [d_keys d_values d_index].
    split; [reflexivity|]. split; [exact Ev|]. split.
    { rewrite app_length. cbn [length]. replace (length kvals + 1) with (S (length kvals)) by lia. eapply ValOk_set; eassumption. }
    split; [exact Ho|]. split; [exact Hr|]. split; [exact Hnd|]. split.
    { apply Forall_app. split; [exact Hkeys|constructor; [exact Hin|constructor]]. }
    split; [|split; assumption].
    apply (visible_snoc kv kvals ks kv' true (Z.of_nat idx) _ Hkv Hks Hvis Hs). cbn beta iota. lia.
  - apply bind_ok in H as (v' & Hv & H). apply bind_ok in H as (k' & Hk & H). injection H as <-.
    rewrite Ev in Hv. pose proof (push_value_x _ _ _ _ _ Ho Hx Hv) as Hx'. rewrite (push_value _ _ _ _ _ Ho Hv). rewrite Ek in Hk. destruct (push_key _ _ _ _ _ Hk) as (kv' & Hs & -> & Hin).
    exists k, kv', (kvals ++ [Z.of_nat (length (d_index d))]), vk, (offs ++ [Z.of_nat (length data + length s)]), (data ++ s).
    cbn [d_keys d_values d_index].
    split; [reflexivity|]. split; [reflexivity|]. split.
    { rewrite app_length. cbn [length]. replace (length kvals + 1) with (S (length kvals)) by lia. eapply ValOk_set; eassumption. }
    split. { split; [destruct offs; [destruct Ho; congruence|discriminate]|rewrite last_last, app_length; reflexivity]. }
    split; [apply ranges_snoc; [exact Hr|apply Ho]|]. split.
    { apply NoDup_app_one; [exact Hnd|apply position_none; exact Ep]. }
    split. { apply Forall_app. split; [exact Hkeys|constructor; [exact Hin|constructor]]. }
    split.
    { rewrite app_length. cbn [length].
      apply (visible_snoc kv kvals ks kv' true (Z.of_nat (length (d_index d))) _ Hkv Hks); [|exact Hs|cbn beta iota; lia].
      eapply Forall_impl; [|exact Hvis]. intros x Hx0. destruct x; try exact I. lia. }
    split; [exact Hx'|]. apply Forall_app. split; [exact Hutf|constructor; [exact Hu|constructor]].
Qed.

Theorem dict_push_none_inv d k' : DInv d -> push_none (d_keys d) = Ok k' -> DInv {| d_keys := k'; d_values := d_values d; d_index := d_index d |}.
Proof.
  intros (k & kv & kvals & vk & offs & data & Ek & Ev & Hkv & Ho & Hr & Hnd & Hkeys & (ks & Hks & Hvis) & Hx & Hutf) H. rewrite Ek in H. cbn [push_none] in H.
  apply bind_ok in H as (kv' & Hs & H). injection H as <-.
  exists k, kv', (kvals ++ [0%Z]), vk, offs, data. cbn [d_keys d_values d_index].
  split; [reflexivity|]. split; [exact Ev|]. split.
  { rewrite app_length. cbn [length]. replace (length kvals + 1) with (S (length kvals)) by lia. eapply ValOk_set; eassumption. }
  split; [exact Ho|]. split; [exact Hr|]. split; [exact Hnd|]. split.
  { apply Forall_app. split; [exact Hkeys|constructor; [apply in_int_0|constructor]]. }
  split; [|split; assumption]. apply (visible_snoc kv kvals ks kv' false 0%Z _ Hkv Hks Hvis Hs). exact I.
Qed.

(* ---------------- what the column holds ---------------- *)
Definition dict_arr (d : DictB) : Arr := ADict (into_array (d_keys d)) (into_array (d_values d)).
Definition dict_content (d : DictB) : option (list LVal) := decode (dict_arr d).

(* without placeholder rows into_array emits the children as they are *)
Lemma dict_into_array_inv d : DInv d -> dict_into_array d = Ok (dict_arr d).
Proof.
  intros (k & kv & kvals & vk & offs & data & Ek & Ev & _ & _ & _ & _ & _ & (ks & Hks & Hvis) & _). unfold dict_into_array, dict_arr. rewrite Ek, Ev.
  cbn [into_array arr_validity arr_len].
  destruct kv as [buf|]; cbn [some_bitmap]; [reflexivity|].
  destruct kvals as [|z r]; [reflexivity|]. cbn [length Nat.eqb negb andb].
  destruct (d_index d) eqn:Ei; [|reflexivity]. exfalso.
  cbn [some_bitmap apply_validity map] in Hks. injection Hks as <-. inversion Hvis as [|? ? Hz _]; subst. cbn [length] in Hz. lia.
Qed.

Definition dict_lookup (vs : list LVal) (k : LVal) : option LVal :=
  match k with LNull => Some LNull | LInt i => if (i <? 0)%Z then None else nth_error vs (Z.to_nat i) | _ => None end.

Lemma dict_lookup_mono vs ext k v : dict_lookup vs k = Some v -> dict_lookup (vs ++ ext) k = Some v.
Proof.
  destruct k; cbn [dict_lookup]; try discriminate; [exact (fun H => H)|]. destruct (z <? 0)%Z; [discriminate|]. intros H.
  rewrite nth_error_app1; [exact H|]. apply nth_error_Some. congruence.
Qed.

Lemma mapM_opt_mono {A B} (f g : A -> option B) : forall l r, (forall a b, f a = Some b -> g a = Some b) -> mapM_opt f l = Some r -> mapM_opt g l = Some r.
Proof.
  induction l as [|a l IH]; intros r H Hm; cbn [mapM_opt] in *; [exact Hm|].
  destruct (f a) as [y|] eqn:Ey; [|discriminate]. destruct (mapM_opt f l) as [ys|] eqn:El; [|discriminate]. injection Hm as <-.
  rewrite (H a y Ey), (IH ys H eq_refl). reflexivity.
Qed.

Lemma mapM_opt_snoc {A B} (f : A -> option B) l r a y : mapM_opt f l = Some r -> f a = Some y -> mapM_opt f (l ++ [a]) = Some (r ++ [y]).
Proof.
  revert r. induction l as [|x l IH]; intros r Hm Ha; cbn [mapM_opt app] in *.
  - injection Hm as <-. rewrite Ha. reflexivity.
  - destruct (f x) as [z|]; [|discriminate]. destruct (mapM_opt f l) as [zs|] eqn:El; [|discriminate]. injection Hm as <-.
    rewrite (IH zs eq_refl Ha). reflexivity.
Qed.

Lemma dict_content_eq d k kv kvals vk offs data : d_keys d = BdPrim (PInt k) kv kvals -> d_values d = BdUtf8 vk None offs data ->
  dict_content d =
  match apply_validity (some_bitmap kv) (map LInt kvals), ranges data offs with
  | Some ks, Some rs => mapM_opt (dict_lookup (map LBytes rs)) ks
  | _, _ => None
  end.
Proof.
  intros Ek Ev. unfold dict_content, dict_arr. rewrite Ek, Ev. cbn [into_array decode some_bitmap apply_validity].
  destruct (apply_validity (some_bitmap kv) (map LInt kvals)) as [ks|]; [|reflexivity]. destruct (ranges data offs) as [rs|]; reflexivity.
Qed.

(* a string that is pushed is appended; no earlier row changes, whether or not the string was known *)
Theorem dict_push_str_content s d d' lvs : DInv d -> dict_content d = Some lvs -> dict_push_str s d = Ok d' ->
  dict_content d' = Some (lvs ++ [LBytes s]).
Proof.
  intros (k & kv & kvals & vk & offs & data & Ek & Ev & Hkv & Ho & Hr & Hnd & Hkeys & _ & Hx & Hutf) Hc H.
  rewrite (dict_content_eq d k kv kvals vk offs data Ek Ev), Hr in Hc.
  destruct (apply_validity (some_bitmap kv) (map LInt kvals)) as [ks|] eqn:Eks; [|discriminate].
  unfold dict_push_str in H. destruct (position s (d_index d)) as [idx|] eqn:Ep.
  - apply bind_ok in H as (k' & Hk & H). injection H as <-. rewrite Ek in Hk. destruct (push_key _ _ _ _ _ Hk) as (kv' & Hs & -> & _).
    match goal with |- dict_content ?dd = _ => rewrite (dict_content_eq dd k kv' (kvals ++ [Z.of_nat idx]) vk offs data eq_refl Ev) end. rewrite Hr, map_app. cbn [map].
    rewrite (apply_validity_snoc kv (map LInt kvals) ks true (LInt (Z.of_nat idx)) kv') by (try rewrite map_length; assumption).
    apply mapM_opt_snoc; [exact Hc|]. cbn [dict_lookup]. destruct (Z.ltb_spec (Z.of_nat idx) 0); [lia|]. rewrite Nat2Z.id.
    destruct (position_spec _ _ _ Ep) as [Hn _]. rewrite nth_error_map, Hn. reflexivity.
  - apply bind_ok in H as (v' & Hv & H). apply bind_ok in H as (k' & Hk & H). injection H as <-.
    rewrite Ev in Hv. rewrite (push_value _ _ _ _ _ Ho Hv). rewrite Ek in Hk. destruct (push_key _ _ _ _ _ Hk) as (kv' & Hs & -> & _).
    match goal with |- dict_content ?dd = _ => rewrite (dict_content_eq dd k kv' (kvals ++ [Z.of_nat (length (d_index d))]) vk _ _ eq_refl eq_refl) end.
    rewrite (ranges_snoc data s offs (d_index d) Hr (proj2 Ho)). rewrite map_app. cbn [map].
    rewrite (apply_validity_snoc kv (map LInt kvals) ks true (LInt (Z.of_nat (length (d_index d)))) kv') by (try rewrite map_length; assumption).
    rewrite map_app. cbn [map]. apply mapM_opt_snoc.
    + eapply mapM_opt_mono; [|exact Hc]. intros a bv. apply dict_lookup_mono.
    + cbn [dict_lookup]. destruct (Z.ltb_spec (Z.of_nat (length (d_index d))) 0); [lia|]. rewrite Nat2Z.id.
      rewrite nth_error_app2 by (rewrite map_length; apply Nat.le_refl). rewrite map_length, Nat.sub_diag. reflexivity.
Qed.

Theorem dict_push_none_content d k' lvs : DInv d -> dict_content d = Some lvs -> push_none (d_keys d) = Ok k' ->
  dict_content {| d_keys := k'; d_values := d_values d; d_index := d_index d |} = Some (lvs ++ [LNull]).
Proof.
  intros (k & kv & kvals & vk & offs & data & Ek & Ev & Hkv & Ho & Hr & Hnd & Hkeys & _ & Hx & Hutf) Hc H.
  rewrite (dict_content_eq d k kv kvals vk offs data Ek Ev), Hr in Hc.
  destruct (apply_validity (some_bitmap kv) (map LInt kvals)) as [ks|] eqn:Eks; [|discriminate].
  rewrite Ek in H. cbn [push_none] in H. apply bind_ok in H as (kv' & Hs & H). injection H as <-.
  match goal with |- dict_content ?dd = _ => rewrite (dict_content_eq dd k kv' (kvals ++ [0%Z]) vk offs data eq_refl Ev) end. rewrite Hr, map_app. cbn [map].
  rewrite (apply_validity_snoc kv (map LInt kvals) ks false (LInt 0) kv') by (try rewrite map_length; assumption).
  apply mapM_opt_snoc; [exact Hc|reflexivity].
Qed.

(* ---------------- keys are always in range: the emitted array is well formed ---------------- *)
Lemma wf_arr_dict strict nm key val nl keys values :
  wf_arr strict (mkField nm (DDict key val) nl) (ADict keys values) =
  wf_arr strict (mkField [] (DPrim (PInt key)) nl) keys && wf_arr strict (mkField [] (DBytes val) false) values
  && visible_ok keys (fun x => match x with LInt i => (0 <=? i)%Z && (i <? Z.of_nat (arr_len values))%Z | _ => true end).
Proof. reflexivity. Qed.

Theorem dict_wf strict d nm nullable : DInv d ->
  forall k kv kvals vk offs data, d_keys d = BdPrim (PInt k) kv kvals -> d_values d = BdUtf8 vk None offs data ->
  vnull (mkField nm (DDict k vk) nullable) kv -> is_utf8_kind vk = true ->
  wf_arr strict (mkField nm (DDict k vk) nullable) (dict_arr d) = true.
Proof.
  intros (k0 & kv0 & kvals0 & vk0 & offs0 & data0 & Ek & Ev & Hkv & Ho & Hr & Hnd & Hkeys & (ks & Hks & Hvis) & Hx & Hutf) k kv kvals vk offs data Ek' Ev' Hvn Hu8.
  rewrite Ek in Ek'. injection Ek' as -> -> ->. rewrite Ev in Ev'. injection Ev' as -> -> ->.
  unfold dict_arr. rewrite Ek, Ev. cbn [into_array]. rewrite wf_arr_dict. change (some_bitmap None) with (@None Bitmap).
  assert (Wk : wf_arr strict (mkField [] (DPrim (PInt k)) nullable) (APrim (PInt k) (some_bitmap kv) kvals) = true).
  { apply (wf_of_good strict (BdPrim (PInt k) kv kvals)); [split; [reflexivity|exact Hvn]|exact Hkv|exact Hkeys]. }
  rewrite Wk.
  assert (Wv : wf_arr strict (mkField [] (DBytes vk) false) (ABytes vk None offs data) = true).
  { apply (wf_of_good strict (BdUtf8 vk None offs data)); [repeat split; assumption|split; [exact I|exact Ho]|].
    split; [exact Hx|]. exists (d_index d). split; assumption. }
  rewrite Wv. cbn [andb].
  unfold visible_ok. cbn [decode arr_len]. rewrite Hks. pose proof (ranges_length _ _ _ Hr) as Hl.
  apply forallb_forall. intros x Hin. rewrite Forall_forall in Hvis. specialize (Hvis x Hin). destruct x; try reflexivity.
  unfold bytes in *. rewrite <- Hl. destruct (Z.leb_spec 0 z), (Z.ltb_spec z (Z.of_nat (length (d_index d)))); try reflexivity; lia.
Qed.

(* ---------------- any value ---------------- *)
Definition is_nullish (w : Value) : bool := match w with VNone | VUnit | VUnitStruct => true | _ => false end.

Lemma dict_push_unfold v d : dict_push v d =
  if is_nullish (strip v) then do k' <- push_none (d_keys d) ;; Ok {| d_keys := k'; d_values := d_values d; d_index := d_index d |}
  else match text_of_scalar (strip v) with IOk (LBytes s) => dict_push_str s d | _ => Err end.
Proof. unfold dict_push. destruct (strip v); reflexivity. Qed.

Theorem dict_push_inv v d d' : leaf_text_ok (strip v) -> DInv d -> dict_push v d = Ok d' -> DInv d'.
Proof.
  unfold leaf_text_ok. intros Ht Hi H. rewrite dict_push_unfold in H. destruct (is_nullish (strip v)).
  - apply bind_ok in H as (k' & Hk & H). injection H as <-. apply dict_push_none_inv; assumption.
  - destruct (text_of_scalar (strip v)) as [[| | |s| | | |]| |] eqn:Et; try discriminate H. eapply dict_push_str_inv; [exact Ht|exact Hi|exact H].
Qed.

Lemma interp_strip f v : interp f v = interp f (strip v).
Proof. induction v; cbn [strip interp]; try reflexivity; assumption. Qed.

(* the denotation of a value in a dictionary column is interp of the field: text for everything that
   has a to_string, null for the null markers (nullable columns only) *)
Theorem dict_push_content v d d' lvs nm key val nullable kv kvals :
  DInv d -> d_keys d = BdPrim (PInt key) kv kvals -> vnull (mkField nm (DDict key val) nullable) kv ->
  dict_content d = Some lvs -> dict_push v d = Ok d' ->
  exists lv, interp (mkField nm (DDict key val) nullable) v = IOk lv /\ dict_content d' = Some (lvs ++ [lv]).
Proof.
  intros Hi Hk Hvn Hc H. rewrite dict_push_unfold in H. rewrite (interp_strip _ v).
  destruct (is_nullish (strip v)) eqn:En.
  - apply bind_ok in H as (k' & Hpn & H). injection H as <-. exists LNull. split; [|apply dict_push_none_content; assumption].
    rewrite Hk in Hpn. cbn [push_none] in Hpn. apply bind_ok in Hpn as (kv' & Hs & _). unfold vnull in Hvn. cbn [fnullable'] in Hvn.
    destruct kv; [|cbn in Hs; discriminate Hs]. subst nullable.
    destruct (strip v); try discriminate En; reflexivity.
  - destruct (text_of_scalar (strip v)) as [[| | |s| | | |]| |] eqn:Et; try discriminate H.
    exists (LBytes s). split; [|eapply dict_push_str_content; eassumption].
    destruct (strip v); try discriminate En; try discriminate Et; cbn [interp fdt']; exact Et.
Qed.

(* ---------------- every batch starts afresh ---------------- *)
Definition dict_kinds (d : DictB) : option (IntKind * bool * BytesKind) :=
  match d_keys d, d_values d with
  | BdPrim (PInt k) kv _, BdUtf8 vk None _ _ => Some (k, match kv with Some _ => true | None => false end, vk)
  | _, _ => None
  end.

Lemma dict_push_kinds v d d' : DInv d -> dict_push v d = Ok d' -> dict_kinds d' = dict_kinds d.
Proof.
  intros (k & kv & kvals & vk & offs & data & Ek & Ev & _ & Ho & _) H.
  assert (Hstr : forall s, dict_push_str s d = Ok d' -> dict_kinds d' = dict_kinds d).
  { intros s Hs. unfold dict_push_str in Hs. destruct (position s (d_index d)).
    - apply bind_ok in Hs as (k' & Hk & Hs). injection Hs as <-. rewrite Ek in Hk. destruct (push_key _ _ _ _ _ Hk) as (kv' & Hsv & -> & _).
      unfold dict_kinds. cbn [d_keys d_values]. rewrite Ek, Ev. destruct kv; cbn in Hsv; injection Hsv as <-; reflexivity.
    - apply bind_ok in Hs as (v' & Hv & Hs). apply bind_ok in Hs as (k' & Hk & Hs). injection Hs as <-.
      rewrite Ev in Hv. rewrite (push_value _ _ _ _ _ Ho Hv). rewrite Ek in Hk. destruct (push_key _ _ _ _ _ Hk) as (kv' & Hsv & -> & _).
      unfold dict_kinds. cbn [d_keys d_values]. rewrite Ek, Ev. destruct kv; cbn in Hsv; injection Hsv as <-; reflexivity. }
  rewrite dict_push_unfold in H. destruct (is_nullish (strip v)).
  - apply bind_ok in H as (k' & Hk & H). injection H as <-. rewrite Ek in Hk. cbn [push_none] in Hk. apply bind_ok in Hk as (kv' & Hsv & Hk). injection Hk as <-.
    unfold dict_kinds. cbn [d_keys d_values]. rewrite Ek, Ev. destruct kv; cbn in Hsv; [injection Hsv as <-; reflexivity|discriminate Hsv].
  - destruct (text_of_scalar (strip v)) as [[| | |s| | | |]| |]; try discriminate H. exact (Hstr s H).
Qed.

Theorem dict_reset_fresh d k nl vk : dict_kinds d = Some (k, nl, vk) -> dict_reset d = dict_new k vk nl.
Proof.
  unfold dict_kinds, dict_reset, dict_new. destruct (d_keys d) as [| k0 kv kvals | | |]; try discriminate. destruct k0 as [k0| | | | | | | | | |]; try discriminate.
  destruct (d_values d) as [| |vk0 vv offs data| |]; try discriminate. destruct vv; [discriminate|]. intros H. injection H as <- <- <-.
  cbn [reset reset_validity]. destruct kv; reflexivity.
Qed.

(* histories over one dictionary column: the k-th build is the one-shot conversion of exactly the rows
   pushed since the previous build - the string table never leaks from one batch into the next *)
Definition dict_push_all (d0 : DictB) (vs : list Value) : Outcome DictB := fold_left (fun acc v => do d <- acc ;; dict_push v d) vs (Ok d0).
Definition dict_one_shot (d0 : DictB) (vs : list Value) : Outcome Arr := do d <- dict_push_all d0 vs ;; dict_into_array d.

Lemma dict_push_all_snoc d0 vs v d d' : dict_push_all d0 vs = Ok d -> dict_push v d = Ok d' -> dict_push_all d0 (vs ++ [v]) = Ok d'.
Proof. unfold dict_push_all. rewrite fold_left_app. cbn [fold_left]. intros -> H. exact H. Qed.

Lemma dict_push_all_inv d0 : forall vs d, DInv d0 -> Forall (fun v => leaf_text_ok (strip v)) vs -> dict_push_all d0 vs = Ok d ->
  DInv d /\ dict_kinds d = dict_kinds d0.
Proof.
  intros vs. induction vs as [|v r IH] using rev_ind; intros d Hi Ht H.
  - unfold dict_push_all in H. cbn in H. injection H as <-. split; [exact Hi|reflexivity].
  - unfold dict_push_all in H. rewrite fold_left_app in H. cbn [fold_left] in H. apply bind_ok in H as (d1 & H1 & H2).
    apply Forall_app in Ht as [Ht1 Ht2]. inversion Ht2; subst. destruct (IH d1 Hi Ht1 H1) as [Hi1 Hk1].
    split; [eapply dict_push_inv; eassumption|]. rewrite (dict_push_kinds v d1 d Hi1 H2). exact Hk1.
Qed.

Theorem dict_history_batches k nl vk : forall ops cur d outs,
  Forall (fun op => match op with DPush v => leaf_text_ok (strip v) | DBuild => True end) ops -> Forall (fun v => leaf_text_ok (strip v)) cur ->
  dict_push_all (dict_new k vk nl) cur = Ok d -> dict_history d ops = Ok outs ->
  Forall2 (fun batch out => dict_one_shot (dict_new k vk nl) batch = Ok out) (dict_batches cur ops) outs.
Proof.
  induction ops as [|[v|] r IH]; intros cur d outs Hops Hcur Hd Hrun; cbn [dict_history dict_batches] in *.
  - injection Hrun as <-. constructor.
  - inversion Hops; subst. apply bind_ok in Hrun as (d' & Hp & Hrun).
    apply (IH (cur ++ [v]) d' outs); [assumption|apply Forall_app; split; [exact Hcur|constructor; [assumption|constructor]]|eapply dict_push_all_snoc; eassumption|exact Hrun].
  - inversion Hops; subst. apply bind_ok in Hrun as (a & Ha & Hrun). apply bind_ok in Hrun as (rest & Hrest & Hrun). injection Hrun as <-.
    destruct (dict_push_all_inv _ _ _ (DInv_new k vk nl) Hcur Hd) as [Hi Hk].
    constructor.
    + unfold dict_one_shot. rewrite Hd. exact Ha.
    + apply (IH [] (dict_reset d) rest); [assumption|constructor| |exact Hrest].
      rewrite (dict_reset_fresh d k nl vk); [reflexivity|]. rewrite Hk. unfold dict_kinds, dict_new. cbn. destruct nl; reflexivity.
Qed.
