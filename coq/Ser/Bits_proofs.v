From Verif Require Import Bits.
Require Import ZifyBool ZifyN ZifyNat.
Ltac Zify.zify_post_hook ::= Z.div_mod_to_equations.
Local Open Scope nat_scope.

Lemma set_nth_byte_length l i f : length (set_nth_byte l i f) = length l.
Proof. revert i; induction l as [|x l IH]; intros [|i]; cbn; auto. Qed.

Lemma nth_error_set_nth_byte l i j f : i < length l ->
  nth_error (set_nth_byte l i f) j =
  if Nat.eqb j i then option_map f (nth_error l i) else nth_error l j.
Proof.
  revert i j; induction l as [|x l IH]; intros i j Hi; [cbn in Hi; lia|].
  destruct i as [|i], j as [|j]; cbn [set_nth_byte nth_error Nat.eqb option_map]; auto.
  apply IH. cbn in Hi. lia.
Qed.

Lemma grow_length buf n : length (grow buf n) = Nat.max (length buf) n.
Proof. unfold grow. rewrite app_length, repeat_length. lia. Qed.

Lemma nth_error_grow buf n j : j < length buf -> nth_error (grow buf n) j = nth_error buf j.
Proof. intros H. unfold grow. apply nth_error_app1, H. Qed.

Lemma nth_error_grow_new buf n j : length buf <= j -> j < n -> nth_error (grow buf n) j = Some 0%N.
Proof.
  intros H1 H2. unfold grow. rewrite nth_error_app2 by lia.
  rewrite nth_error_repeat; [reflexivity|lia].
Qed.

Lemma set_bit_length buf idx v : length (set_bit buf idx v) = Nat.max (length buf) (S (idx / 8)).
Proof. unfold set_bit. rewrite set_nth_byte_length, grow_length. reflexivity. Qed.

(* the invariant of a validity / values buffer holding n bits: exactly ceil(n/8) bytes, bits at
   or beyond n are zero *)
Definition BufInv (buf : list N) (n : nat) : Prop :=
  length buf = (n + 7) / 8 /\ forall j, n <= j -> get_bit buf j = Some false \/ get_bit buf j = None.

Lemma get_bit_set_bit_same buf idx v : get_bit (set_bit buf idx v) idx = Some v.
Proof.
  unfold get_bit, set_bit. rewrite nth_error_set_nth_byte by (rewrite grow_length; lia).
  rewrite Nat.eqb_refl.
  assert (Hx : exists x, nth_error (grow buf (S (idx / 8))) (idx / 8) = Some x).
  { destruct (Nat.lt_ge_cases (idx / 8) (length buf)).
    - rewrite nth_error_grow by lia. destruct (nth_error buf (idx / 8)) eqn:E; [eauto|].
      apply nth_error_None in E. lia.
    - rewrite nth_error_grow_new by lia. eauto. }
  destruct Hx as [x ->]. cbn [option_map]. f_equal.
  destruct v; [apply N.setbit_eq|apply N.clearbit_eq].
Qed.

Lemma get_bit_set_bit_other buf idx v j : j <> idx -> j / 8 < length buf \/ j / 8 <= idx / 8 ->
  get_bit (set_bit buf idx v) j =
  if Nat.ltb (j / 8) (length buf) then get_bit buf j else Some false.
Proof.
  intros Hne Hj. unfold get_bit, set_bit. rewrite nth_error_set_nth_byte by (rewrite grow_length; lia).
  destruct (Nat.eqb_spec (j / 8) (idx / 8)) as [E|E].
  - rewrite E.
    assert (Hbit : N.of_nat (j mod 8) <> N.of_nat (idx mod 8)).
    { intros Hc. apply Nnat.Nat2N.inj in Hc. apply Hne.
      rewrite (Nat.div_mod j 8), (Nat.div_mod idx 8) by lia. lia. }
    destruct (Nat.ltb_spec (idx / 8) (length buf)) as [Hlt|Hge].
    + rewrite nth_error_grow by lia. destruct (nth_error buf (idx / 8)) as [x|] eqn:Ex.
      * cbn [option_map]. f_equal. destruct v; [apply N.setbit_neq|apply N.clearbit_neq]; congruence.
      * apply nth_error_None in Ex. lia.
    + rewrite nth_error_grow_new by lia. cbn [option_map]. f_equal.
      destruct v; [rewrite N.setbit_neq by congruence|rewrite N.clearbit_neq by congruence]; apply N.bits_0.
  - destruct (Nat.ltb_spec (j / 8) (length buf)) as [Hlt|Hge].
    + rewrite nth_error_grow by lia. reflexivity.
    + rewrite nth_error_grow_new by lia. cbv beta iota. rewrite N.bits_0. reflexivity.
Qed.

Lemma bits_from_ext data data' start n :
  (forall j, start <= j < start + n -> get_bit data' j = get_bit data j) ->
  bits_from data' start n = bits_from data start n.
Proof.
  revert start; induction n as [|n IH]; intros start H; cbn [bits_from]; [reflexivity|].
  rewrite H by lia. rewrite IH; [reflexivity|]. intros j Hj. apply H. lia.
Qed.

Lemma bits_from_snoc data start n l v :
  bits_from data start n = Some l -> get_bit data (start + n) = Some v ->
  bits_from data start (S n) = Some (l ++ [v]).
Proof.
  revert start l; induction n as [|n IH]; intros start l H Hv.
  - cbn [bits_from] in H |- *. inversion H; subst. rewrite Nat.add_0_r in Hv. rewrite Hv. reflexivity.
  - cbn [bits_from] in H. change (bits_from data start (S (S n))) with
      (match get_bit data start, bits_from data (S start) (S n) with
       | Some b0, Some r => Some (b0 :: r) | _, _ => None end).
    destruct (get_bit data start) as [b0|]; [|discriminate].
    destruct (bits_from data (S start) n) as [r|] eqn:Er; [|discriminate]. inversion H; subst l.
    rewrite (IH (S start) r Er); [reflexivity|]. replace (S start + n) with (start + S n) by lia. exact Hv.
Qed.

(* one more bit: the buffer invariant is kept and the bits read back are the old bits plus v *)
Lemma set_bit_push buf n l v :
  BufInv buf n -> bits_from buf 0 n = Some l ->
  BufInv (set_bit buf n v) (S n) /\ bits_from (set_bit buf n v) 0 (S n) = Some (l ++ [v]).
Proof.
  intros [Hlen Hz] Hl. split; [split|].
  - rewrite set_bit_length, Hlen. lia.
  - intros j Hj.
    destruct (Nat.lt_ge_cases (j / 8) (length (set_bit buf n v))) as [Hin|Hout].
    + left. rewrite set_bit_length in Hin.
      rewrite get_bit_set_bit_other by lia.
      destruct (Nat.ltb_spec (j / 8) (length buf)); [|reflexivity].
      destruct (Hz j ltac:(lia)) as [E|E]; [exact E|].
      unfold get_bit in E. destruct (nth_error buf (j / 8)) eqn:En; [discriminate|]. apply nth_error_None in En. lia.
    + right. unfold get_bit. destruct (nth_error (set_bit buf n v) (j / 8)) eqn:En; [|reflexivity].
      assert (j / 8 < length (set_bit buf n v)) by (apply nth_error_Some; congruence). lia.
  - apply bits_from_snoc; [|apply get_bit_set_bit_same].
    rewrite <- Hl. apply bits_from_ext. intros j Hj.
    rewrite get_bit_set_bit_other by lia.
    destruct (Nat.ltb_spec (j / 8) (length buf)); [reflexivity|]. lia.
Qed.

Lemma push_bits_spec bits : forall buf n l,
  BufInv buf n -> bits_from buf 0 n = Some l ->
  BufInv (push_bits_from buf n bits) (n + length bits) /\
  bits_from (push_bits_from buf n bits) 0 (n + length bits) = Some (l ++ bits).
Proof.
  induction bits as [|v r IH]; intros buf n l Hi Hl; cbn [push_bits_from length].
  - rewrite Nat.add_0_r, app_nil_r. split; assumption.
  - destruct (set_bit_push buf n l v Hi Hl) as [Hi' Hl'].
    destruct (IH _ _ _ Hi' Hl') as [Hi'' Hl''].
    replace (n + S (length r)) with (S n + length r) by lia.
    rewrite <- app_assoc in Hl''. split; assumption.
Qed.

Lemma BufInv_nil : BufInv [] 0.
Proof. split; [reflexivity|]. intros j _. right. unfold get_bit. destruct (j / 8); reflexivity. Qed.

(* reading a packed buffer gives back exactly the bits that were pushed *)
Theorem bits_of_pack bits : bits_of {| bm_off := 0; bm_data := pack_bits bits |} (length bits) = Some bits.
Proof.
  unfold bits_of, pack_bits. cbn [bm_off bm_data].
  destruct (push_bits_spec bits [] 0 [] BufInv_nil eq_refl) as [_ H]. exact H.
Qed.

(* pushing one more bit onto a packed buffer is packing the longer list: the incremental writer of
   the builders refines list append *)
Theorem set_bit_pack bits v : set_bit (pack_bits bits) (length bits) v = pack_bits (bits ++ [v]).
Proof.
  unfold pack_bits.
  assert (G : forall bs buf n, push_bits_from buf n (bs ++ [v]) = set_bit (push_bits_from buf n bs) (n + length bs) v).
  { induction bs as [|x r IH]; intros buf n; cbn [push_bits_from app length].
    - rewrite Nat.add_0_r. reflexivity.
    - rewrite IH. f_equal. lia. }
  rewrite G. reflexivity.
Qed.
