//! C18: every conversion error names the field that caused it. For generated schemas a node is
//! chosen (any data type, under any kind of parent), a fault is injected exactly there - while
//! serializing (a value the node's builder refuses, a null into a non-nullable node, an integer out
//! of range) and while deserializing (a request the node's reader does not support, an error raised
//! by the visitor at that node) - and the annotations of the returned error (parsed from its
//! Display text) are compared with the path and data type text the Coq model assigns to the node.
use crate::arrgen::{self, Inject, Val, IK};
use crate::c09::yfield_coq;
use crate::coqfmt::{self as cf, guarded, Out};
use crate::ctx::Ctx;
use crate::rng::Rng;
use marrow::datatypes::{DataType, Field};
use serde::de::{DeserializeSeed, Deserializer, EnumAccess, IgnoredAny, MapAccess, SeqAccess, VariantAccess, Visitor};
use serde_json::json;
use std::collections::BTreeMap;

/// annotations of `Error: msg (k: "v", k2: "v2")`, parsed from the end of the Display text
pub fn parse_annotations(text: &str) -> BTreeMap<String, String> {
    fn parse_from(s: &str) -> Option<BTreeMap<String, String>> {
        let mut out = BTreeMap::new();
        let mut cs = s.chars().peekable();
        if cs.next()? != '(' { return None; }
        loop {
            let mut key = String::new();
            loop { let c = cs.next()?; if c == ':' { break; } if !(c.is_ascii_lowercase() || c == '_') { return None; } key.push(c); }
            if cs.next()? != ' ' || cs.next()? != '"' { return None; }
            let mut val = String::new();
            loop {
                let c = cs.next()?;
                match c {
                    '"' => break,
                    '\\' => match cs.next()? { 'n' => val.push('\n'), 'r' => val.push('\r'), 't' => val.push('\t'), '0' => val.push('\0'), '\'' => val.push('\''), '"' => val.push('"'), '\\' => val.push('\\'),
                        'u' => { if cs.next()? != '{' { return None; } let mut code = 0u32; loop { let d = cs.next()?; if d == '}' { break; } code = code * 16 + d.to_digit(16)?; } val.push(char::from_u32(code)?); }
                        _ => return None },
                    c => val.push(c),
                }
            }
            out.insert(key, val);
            match cs.next()? { ')' => break, ',' => { if cs.next()? != ' ' { return None; } } _ => return None }
        }
        if cs.next().is_some() { return None; }
        Some(out)
    }
    let mut idx = text.len();
    while let Some(p) = text[..idx].rfind(" (") { if let Some(m) = parse_from(&text[p + 1..]) { return m; } idx = p; }
    BTreeMap::new()
}

fn children(f: &Field) -> Vec<Field> {
    use DataType as T;
    match &f.data_type {
        T::List(c) | T::LargeList(c) | T::FixedSizeList(c, _) => vec![(**c).clone()],
        T::Struct(fs) => fs.clone(),
        T::Map(e, _) => match &e.data_type { T::Struct(kv) if kv.len() == 2 => kv.clone(), _ => vec![] },
        T::Union(fs, _) => fs.iter().map(|(_, c)| c.clone()).collect(),
        _ => vec![],
    }
}

pub fn pick_route(rng: &mut Rng, f: &Field) -> Vec<usize> {
    let mut route = vec![];
    let mut cur = f.clone();
    loop {
        let cs = children(&cur);
        if cs.is_empty() || rng.chance(1, 3) { return route; }
        let i = rng.below(cs.len());
        route.push(i);
        cur = cs[i].clone();
    }
}
pub fn node<'a>(f: &'a Field, route: &[usize]) -> Field { let mut cur = f.clone(); for &i in route { let cs = children(&cur); if i >= cs.len() { break; } cur = cs[i].clone(); } cur }

fn refused_value(f: &Field) -> Val {
    use DataType as T;
    match &f.data_type {
        T::Null | T::Binary | T::LargeBinary | T::BinaryView | T::FixedSizeBinary(_) | T::List(_) | T::LargeList(_) | T::FixedSizeList(..) | T::Struct(_) | T::Map(..) | T::Union(..) => Val::Bool(true),
        _ => Val::Seq(vec![]),
    }
}

/// a row that is valid everywhere except that the node at `route` receives `at_target`
fn spine(rng: &mut Rng, f: &Field, route: &[usize], at_target: &mut dyn FnMut(&mut Rng, &Field) -> Val) -> Val {
    use DataType as T;
    let mut none = Inject { countdown: -1, what: None };
    let Some((&i, rest)) = route.split_first() else { return at_target(rng, f) };
    match &f.data_type {
        T::List(c) | T::LargeList(c) => Val::Seq(vec![spine(rng, c, rest, at_target), strip(arrgen::gen_val(rng, c, &mut none))]),
        T::FixedSizeList(c, n) => { let mut v = vec![spine(rng, c, rest, at_target)]; for _ in 1..*n { v.push(strip(arrgen::gen_val(rng, c, &mut none))); } Val::Seq(v) }
        T::Struct(fs) => Val::Struct(fs.iter().enumerate().map(|(k, c)| (c.name.clone(), if k == i { spine(rng, c, rest, at_target) } else { strip(arrgen::gen_val(rng, c, &mut none)) })).collect(), 0),
        T::Map(e, _) => { let T::Struct(kv) = &e.data_type else { return Val::None };
            let k = if i == 0 { spine(rng, &kv[0], rest, at_target) } else { strip(arrgen::gen_val(rng, &kv[0], &mut none)) };
            let v = if i == 1 { spine(rng, &kv[1], rest, at_target) } else { strip(arrgen::gen_val(rng, &kv[1], &mut none)) };
            Val::Map(vec![(k, v)]) }
        T::Union(fs, _) => { let (_, c) = &fs[i]; Val::NewtypeVariant(i as u32, c.name.clone(), Box::new(spine(rng, c, rest, at_target))) }
        _ => at_target(rng, f),
    }
}
/// remove Some / newtype wrappers at the top so that a nullable sibling is present
fn strip(v: Val) -> Val { v }

fn yroute(route: &[usize]) -> String { cf::list(route, |i| format!("{}%nat", i)) }

fn emit(ctx: &mut Ctx, field: &Field, route: &[usize], ser: bool, what: &str, err_text: &str) {
    let ann = parse_annotations(err_text);
    let obs_f = ann.get("field").cloned();
    let obs_d = ann.get("data_type").cloned();
    let target = node(field, route);
    ctx.count(&format!("{}:{}", if ser { "ser" } else { "de" }, what));
    ctx.count(&format!("node_type:{}", format!("{:?}", target.data_type).split(|c| c == '(' || c == ' ').next().unwrap_or("?")));
    ctx.count(&format!("depth:{}", route.len()));
    let Some(yf) = yfield_coq(field) else { return };
    let coq = format!("{{| c_field := {}; c_route := {}; c_ser := {}; c_obs_field := {}; c_obs_dt := {} |}}", yf, yroute(route), cf::boolean(ser), cf::option(&obs_f, |s| cf::text(s)), cf::option(&obs_d, |s| cf::text(s)));
    let idx = ctx.add_case(coq, json!({"field": format!("{:?}", field), "route": route, "side": if ser { "serialize" } else { "deserialize" }, "fault": what, "error": err_text}), !route.is_empty());
    if obs_f.is_none() { ctx.fail(idx, "no_field_annotation", format!("{} fault at route {:?}: the error names no field: {}", what, route, err_text)); }
    if obs_d.is_none() { ctx.fail(idx, "no_data_type_annotation", format!("{} fault at route {:?}: the error names no data type: {}", what, route, err_text)); }
}

// ------------------------------------------------------------------------------------------
// deserialization probe: walks to the node at `route`, then provokes an error there

#[derive(Clone, Copy)]
struct PathProbe<'a> { field: &'a Field, route: &'a [usize], mode: u8 }

struct Raising;
impl<'de> Visitor<'de> for Raising {
    type Value = bool;
    fn expecting(&self, f: &mut std::fmt::Formatter) -> std::fmt::Result { write!(f, "nothing") }
    fn visit_bool<E: serde::de::Error>(self, _: bool) -> Result<bool, E> { Err(E::custom("raised by the visitor")) }
    fn visit_i64<E: serde::de::Error>(self, _: i64) -> Result<bool, E> { Err(E::custom("raised by the visitor")) }
    fn visit_u64<E: serde::de::Error>(self, _: u64) -> Result<bool, E> { Err(E::custom("raised by the visitor")) }
    fn visit_f64<E: serde::de::Error>(self, _: f64) -> Result<bool, E> { Err(E::custom("raised by the visitor")) }
    fn visit_str<E: serde::de::Error>(self, _: &str) -> Result<bool, E> { Err(E::custom("raised by the visitor")) }
    fn visit_bytes<E: serde::de::Error>(self, _: &[u8]) -> Result<bool, E> { Err(E::custom("raised by the visitor")) }
    fn visit_none<E: serde::de::Error>(self) -> Result<bool, E> { Err(E::custom("raised by the visitor")) }
    fn visit_unit<E: serde::de::Error>(self) -> Result<bool, E> { Err(E::custom("raised by the visitor")) }
    fn visit_seq<A: SeqAccess<'de>>(self, _: A) -> Result<bool, A::Error> { Err(serde::de::Error::custom("raised by the visitor")) }
    fn visit_map<A: MapAccess<'de>>(self, _: A) -> Result<bool, A::Error> { Err(serde::de::Error::custom("raised by the visitor")) }
    fn visit_enum<A: EnumAccess<'de>>(self, _: A) -> Result<bool, A::Error> { Err(serde::de::Error::custom("raised by the visitor")) }
}

impl<'de, 'a> DeserializeSeed<'de> for PathProbe<'a> {
    type Value = bool; // true = the target was reached (an error is expected instead)
    fn deserialize<D: Deserializer<'de>>(self, d: D) -> Result<bool, D::Error> {
        if self.route.is_empty() {
            use DataType as T;
            return match self.mode {
                0 => d.deserialize_identifier(Raising),
                1 => d.deserialize_any(Raising),
                // the typed request a derived Deserialize impl makes for this kind of column; the visitor raises
                _ => match &self.field.data_type {
                    T::Union(..) => d.deserialize_enum("E", &[], Raising),
                    T::List(_) | T::LargeList(_) | T::FixedSizeList(..) | T::Binary | T::LargeBinary | T::BinaryView | T::FixedSizeBinary(_) => d.deserialize_seq(Raising),
                    T::Struct(_) => d.deserialize_struct("S", &[], Raising),
                    T::Map(..) => d.deserialize_map(Raising),
                    T::Utf8 | T::LargeUtf8 | T::Utf8View | T::Dictionary(..) | T::Decimal128(..) => d.deserialize_str(Raising),
                    T::Boolean => d.deserialize_bool(Raising),
                    T::Float32 | T::Float64 => d.deserialize_f64(Raising),
                    T::Int8 | T::Int16 | T::Int32 | T::Int64 | T::UInt8 | T::UInt16 | T::UInt32 | T::UInt64 | T::Date64 | T::Time64(_) | T::Timestamp(..) | T::Duration(_) => d.deserialize_i64(Raising),
                    T::Date32 | T::Time32(_) => d.deserialize_i32(Raising),
                    _ => d.deserialize_any(Raising),
                },
            };
        }
        d.deserialize_any(self)
    }
}
impl<'de, 'a> Visitor<'de> for PathProbe<'a> {
    type Value = bool;
    fn expecting(&self, f: &mut std::fmt::Formatter) -> std::fmt::Result { write!(f, "a container on the way to the target") }
    fn visit_none<E>(self) -> Result<bool, E> { Ok(false) }
    fn visit_unit<E>(self) -> Result<bool, E> { Ok(false) }
    fn visit_some<D: Deserializer<'de>>(self, d: D) -> Result<bool, D::Error> { d.deserialize_any(self) }
    fn visit_seq<A: SeqAccess<'de>>(self, mut a: A) -> Result<bool, A::Error> {
        let cs = children(self.field);
        let Some(c) = cs.first() else { return Ok(false) };
        match a.next_element_seed(PathProbe { field: c, route: &self.route[1..], mode: self.mode })? { Some(r) => { while a.next_element::<IgnoredAny>()?.is_some() {} Ok(r) } None => Ok(false) }
    }
    fn visit_map<A: MapAccess<'de>>(self, mut a: A) -> Result<bool, A::Error> {
        let cs = children(self.field);
        let i = self.route[0];
        let mut reached = false;
        if matches!(self.field.data_type, DataType::Map(..)) {
            // the first entry: key (0) or value (1)
            if i == 0 { match a.next_key_seed(PathProbe { field: &cs[0], route: &self.route[1..], mode: self.mode })? { Some(r) => { reached = r; a.next_value::<IgnoredAny>()?; } None => return Ok(false) } }
            else { match a.next_key::<IgnoredAny>()? { Some(_) => { reached = a.next_value_seed(PathProbe { field: &cs[1], route: &self.route[1..], mode: self.mode })?; } None => return Ok(false) } }
            while a.next_entry::<IgnoredAny, IgnoredAny>()?.is_some() {}
            return Ok(reached);
        }
        let mut k = 0usize;
        while let Some(_) = a.next_key::<IgnoredAny>()? {
            if k == i { reached = a.next_value_seed(PathProbe { field: &cs[i], route: &self.route[1..], mode: self.mode })?; } else { a.next_value::<IgnoredAny>()?; }
            k += 1;
        }
        Ok(reached)
    }
    fn visit_enum<A: EnumAccess<'de>>(self, a: A) -> Result<bool, A::Error> {
        let cs = children(self.field);
        let (_, access) = a.variant_seed(std::marker::PhantomData::<IgnoredAny>)?;
        let i = self.route[0];
        access.newtype_variant_seed(PathProbe { field: &cs[i], route: &self.route[1..], mode: self.mode })
    }
}

pub fn run(ctx: &mut Ctx) {
    ctx.runner = "RunC18".into();
    ctx.shard_size = 300;
    ctx.rule = "generated one-column schemas (every supported data type, nesting depth <= 3) and a node chosen at random depth (every data type as the innermost field under struct, list, large list, fixed-size list, map key, map value and union variant parents; the distribution is in the evidence); a fault is injected exactly at that node while the rest of the row is valid: serialization - a value the node's builder refuses, a null into a non-nullable node, an integer one past the range; deserialization of arrays produced from valid rows - a request the node's reader does not implement, an error raised by the visitor at that node; the annotations parsed from the Display text of the error (keys field and data_type) are compared inside Coq with the path and data type text of the node in the model (ser_at / de_at). Non-trivial = the node is below the top level; distinct by (schema, route, side, observed annotations). A directed sweep covers every leaf data type (38, incl. Decimal128, all temporal units, dictionaries) below every kind of parent x nullable or not x 4 faults (refused kind, null, out of range, unparsable text) x first batch / second batch of a reused builder x every deserialization mode".into();
    let n = if ctx.thorough { 30000 } else { 2500 };
    for _ in 0..n {
        let mut rng = ctx.rng.fork();
        let d = 1 + rng.below(3);
        let nm = *rng.pick(&["c", "", "x y", "é"]); let mut field = arrgen::gen_field(&mut rng, nm, d);
        if matches!(field.data_type, DataType::Float16) { field.data_type = DataType::Float32; }
        let route = pick_route(&mut rng, &field);
        let (fault, reused, mode) = (rng.below(3), rng.chance(1, 2), rng.below(3) as u8);
        probe(ctx, &mut rng, &field, &route, fault, reused, mode);
    }
    // directed: every leaf data type below every kind of parent, every fault, first batch and the
    // second batch of a reused builder, every deserialization mode
    let mut rng = ctx.rng.fork();
    for leaf in all_leaves() {
        for parent in 0..8usize {
            for nullable in [false, true] {
                let Some((field, route)) = under_parent(parent, &leaf, nullable) else { continue };
                for fault in 0..4usize { for reused in [false, true] {
                    ctx.count("directed:leaf_x_parent_x_fault_x_batch");
                    probe(ctx, &mut rng, &field, &route, fault, reused, (fault % 3) as u8);
                } }
            }
        }
    }
}

pub fn all_leaves() -> Vec<DataType> {
    use DataType as T; use marrow::datatypes::TimeUnit as U;
    vec![T::Null, T::Boolean, T::Int8, T::Int16, T::Int32, T::Int64, T::UInt8, T::UInt16, T::UInt32, T::UInt64, T::Float32, T::Float64,
         T::Date32, T::Date64, T::Time32(U::Second), T::Time32(U::Millisecond), T::Time64(U::Microsecond), T::Time64(U::Nanosecond),
         T::Timestamp(U::Second, None), T::Timestamp(U::Millisecond, Some("UTC".into())), T::Timestamp(U::Microsecond, None), T::Timestamp(U::Nanosecond, Some("UTC".into())),
         T::Duration(U::Second), T::Duration(U::Millisecond), T::Duration(U::Microsecond), T::Duration(U::Nanosecond),
         T::Decimal128(5, 2), T::Decimal128(38, 0), T::Decimal128(10, -2),
         T::Utf8, T::LargeUtf8, T::Utf8View, T::Binary, T::LargeBinary, T::BinaryView, T::FixedSizeBinary(2),
         T::Dictionary(Box::new(T::Int8), Box::new(T::Utf8)), T::Dictionary(Box::new(T::UInt32), Box::new(T::LargeUtf8))]
}

pub fn under_parent(parent: usize, leaf: &DataType, nullable: bool) -> Option<(Field, Vec<usize>)> {
    use DataType as T;
    let mk = |n: &str, dt: DataType, nl: bool| Field { name: n.into(), data_type: dt, nullable: nl, metadata: Default::default() };
    let nl = nullable || matches!(leaf, T::Null);
    let l = |n: &str| mk(n, leaf.clone(), nl);
    Some(match parent {
        0 => (l("c"), vec![]),
        1 => (mk("c", T::Struct(vec![mk("a", T::Int32, true), l("b")]), false), vec![1]),
        2 => (mk("c", T::List(Box::new(l("element"))), true), vec![0]),
        3 => (mk("c", T::LargeList(Box::new(l("item"))), false), vec![0]),
        4 => (mk("c", T::FixedSizeList(Box::new(l("element")), 2), false), vec![0]),
        5 => { if !matches!(leaf, T::Utf8 | T::LargeUtf8 | T::Int8 | T::Int16 | T::Int32 | T::Int64 | T::UInt8 | T::UInt16 | T::UInt32 | T::UInt64) || nullable { return None; }
               (mk("c", T::Map(Box::new(mk("entries", T::Struct(vec![mk("key", leaf.clone(), false), mk("value", T::Int32, true)]), false)), false), false), vec![0]) }
        6 => (mk("c", T::Map(Box::new(mk("entries", T::Struct(vec![mk("key", T::Utf8, false), l("value")]), false)), false), false), vec![1]),
        _ => (mk("c", T::Union(vec![(0, mk("V0", T::Null, true)), (1, l("V1"))], marrow::datatypes::UnionMode::Dense), false), vec![1]),
    })
}

/// text no parser of a temporal / decimal builder accepts
fn bad_text(f: &Field) -> Option<Val> {
    use DataType as T;
    match &f.data_type { T::Date32 | T::Date64 | T::Time32(_) | T::Time64(_) | T::Timestamp(..) | T::Duration(_) | T::Decimal128(..) => Some(Val::Str("no such value".into())), _ => None }
}

fn probe(ctx: &mut Ctx, rng: &mut Rng, field: &Field, route: &[usize], fault: usize, reused: bool, mode: u8) {
        let field = field.clone(); let route = route.to_vec();
        let target = node(&field, &route);
        let col = |v: Val| Val::Struct(vec![(field.name.clone(), v)], 0);
        let mut none = Inject { countdown: -1, what: None };
        // ---- serialization faults
        let (what, row) = match fault {
            1 if !target.nullable && !matches!(target.data_type, DataType::Null | DataType::Union(..)) => ("null_into_non_nullable", spine(rng, &field, &route, &mut |_, _| Val::None)),
            2 if matches!(target.data_type, DataType::Int8 | DataType::Int16 | DataType::Int32 | DataType::UInt8 | DataType::UInt16 | DataType::UInt32) => ("integer_out_of_range", spine(rng, &field, &route, &mut |_, _| Val::Int(IK::I64, 1 << 40))),
            3 if bad_text(&target).is_some() => ("unparsable_text", spine(rng, &field, &route, &mut |_, f| bad_text(f).unwrap_or(Val::None))),
            _ => ("refused_kind", spine(rng, &field, &route, &mut |_, f| refused_value(f))),
        };
        let valid_rows: Vec<Val> = (0..2).map(|_| col(spine(rng, &field, &route, &mut |r, f| arrgen::gen_val(r, f, &mut Inject { countdown: -1, what: None })))).collect();
        let mut rows = valid_rows.clone(); rows.push(col(row));
        // a null refused by a dictionary column is refused by its key builder (child 0 of the dictionary builder)
        let ser_route: Vec<usize> = if what == "null_into_non_nullable" && matches!(target.data_type, DataType::Dictionary(..)) { let mut r = route.clone(); r.push(0); r } else { route.clone() };
        // half of the faults are injected into the second batch of a reused ArrayBuilder
        
        let ser_result = if reused {
            guarded(|| -> Result<Vec<marrow::array::Array>, String> {
                let mut b = serde_arrow::ArrayBuilder::from_marrow(std::slice::from_ref(&field)).map_err(|e| e.to_string())?;
                b.extend(&valid_rows).map_err(|e| e.to_string())?;
                b.to_marrow().map_err(|e| e.to_string())?;
                b.extend(&rows).map_err(|e| e.to_string())?;
                b.to_marrow().map_err(|e| e.to_string())
            })
        } else { guarded(|| serde_arrow::to_marrow(std::slice::from_ref(&field), &rows).map_err(|e| e.to_string())) };
        if reused { ctx.count("ser:second_batch_of_reused_builder"); }
        match ser_result {
            Out::Err(e) => emit(ctx, &field, &ser_route, true, what, &e),
            Out::Ok(_) => ctx.count("ser:fault_not_refused"),
            Out::Panic(p) => { let idx = ctx.add_case(format!("{{| c_field := mkY [] YNull true [] None; c_route := []; c_ser := true; c_obs_field := Some (b \"$.\"); c_obs_dt := Some (b \"Null\") |}}"), json!({"field": format!("{:?}", field), "panic": p}), true); ctx.fail(idx, "panic", format!("to_marrow panics: {}", p)); }
        }
        let _ = &mut none;
        // ---- deserialization faults on arrays of valid rows
        let Out::Ok(arrays) = guarded(|| serde_arrow::to_marrow(std::slice::from_ref(&field), &valid_rows).map_err(|e| e.to_string())) else { ctx.count("de:skipped_rows_rejected"); return };
        let view = arrays[0].as_view();
        
        let top = Field { name: "$".into(), data_type: DataType::Struct(vec![field.clone()]), nullable: false, metadata: Default::default() };
        let mut full_route = vec![0usize]; full_route.extend(route.iter().copied());
        let res = guarded(|| -> Result<bool, String> {
            let de = serde_arrow::Deserializer::from_marrow(std::slice::from_ref(&field), std::slice::from_ref(&view)).map_err(|e| e.to_string())?;
            let item = de.get(0).ok_or_else(|| "no item".to_string())?;
            PathProbe { field: &top, route: &full_route, mode }.deserialize(item).map_err(|e| e.to_string())
        });
        match res {
            Out::Err(e) => emit(ctx, &field, &route, false, match mode { 0 => "unsupported_request", 1 => "raised_by_visitor_any", _ => "raised_by_visitor_typed" }, &e),
            Out::Ok(_) => ctx.count("de:target_not_reached"),
            Out::Panic(p) => { let idx = ctx.add_case(format!("{{| c_field := mkY [] YNull true [] None; c_route := []; c_ser := false; c_obs_field := Some (b \"$.<empty>\"); c_obs_dt := Some (b \"Null\") |}}"), json!({"field": format!("{:?}", field), "panic": p}), true); ctx.fail(idx, "panic", format!("deserialization panics: {}", p)); }
        }
}
