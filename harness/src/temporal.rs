//! Typed text reads of temporal columns (shared by C02 and C05): hand-built Time32 / Time64 / Timestamp views holding boundary
//! values - the last in-range time of day, the first out-of-range one, negative and extreme raw values; timestamps before the epoch
//! with a sub-second fraction - read into `String` through `from_marrow`.  A raw time outside [0, 24h) cannot be represented by the
//! requested text and must be an error (never wrap); a timestamp must read as a text that chrono parses back to the same instant.
use crate::coqfmt::{guarded, Out};
use crate::ctx::Ctx;
use marrow::datatypes::{DataType, Field, TimeUnit};
use marrow::view::{TimeView, TimestampView, View};
use serde::Deserialize;

#[derive(Deserialize)]
struct Rec { item: String }

fn per_second(u: TimeUnit) -> i128 { match u { TimeUnit::Second => 1, TimeUnit::Millisecond => 1_000, TimeUnit::Microsecond => 1_000_000, TimeUnit::Nanosecond => 1_000_000_000 } }

fn read_text(field: &Field, view: &View) -> Out<Vec<String>> {
    guarded(|| serde_arrow::from_marrow::<Vec<Rec>>(std::slice::from_ref(field), std::slice::from_ref(view)).map(|v| v.into_iter().map(|r| r.item).collect()).map_err(|e| e.to_string()))
}

pub fn run(ctx: &mut Ctx, class_prefix: &str) {
    // ---- times of day
    for (unit, wide) in [(TimeUnit::Second, false), (TimeUnit::Millisecond, false), (TimeUnit::Microsecond, true), (TimeUnit::Nanosecond, true)] {
        let day = 86_400i128 * per_second(unit);
        let mut raws: Vec<i128> = vec![0, 1, day / 2, day - 1, day, day + 1, 2 * day - 1, 25 * 3600 * per_second(unit), -1, -day];
        if wide { raws.extend([i64::MAX as i128, i64::MIN as i128]); } else { raws.extend([i32::MAX as i128, i32::MIN as i128]); }
        for raw in raws {
            if !wide && (raw > i32::MAX as i128 || raw < i32::MIN as i128) { continue; }
            let dt = if wide { DataType::Time64(unit) } else { DataType::Time32(unit) };
            let field = Field { name: "item".into(), data_type: dt.clone(), nullable: false, metadata: Default::default() };
            let v32 = [raw as i32]; let v64 = [raw as i64];
            let view = if wide { View::Time64(TimeView { unit, validity: None, values: &v64 }) } else { View::Time32(TimeView { unit, validity: None, values: &v32 }) };
            let r = read_text(&field, &view);
            ctx.count(&format!("temporal_text:time:{}", r.class()));
            ctx.add_eval(&format!("ttime{:?}{}", dt, raw), true);
            let in_range = (0..day).contains(&raw);
            match (&r, in_range) {
                (Out::Ok(t), false) => ctx.fail(0, &format!("{}_out_of_range_time_read_as_text", class_prefix), format!("{:?} raw value {} (outside one day) reads as {:?} instead of an error", dt, raw, t)),
                (Out::Ok(t), true) => {
                    use chrono::Timelike;
                    match t[0].parse::<chrono::NaiveTime>() {
                        Ok(x) => { let got = x.num_seconds_from_midnight() as i128 * per_second(unit) + x.nanosecond() as i128 / (1_000_000_000 / per_second(unit)); if got != raw { ctx.fail(0, &format!("{}_time_text_wrong", class_prefix), format!("{:?} raw {} reads as {:?} = {}", dt, raw, t[0], got)); } }
                        Err(e) => ctx.fail(0, &format!("{}_time_text_wrong", class_prefix), format!("{:?} raw {} reads as {:?}: {}", dt, raw, t[0], e)),
                    }
                }
                (Out::Err(e), true) => ctx.fail(0, &format!("{}_time_text_wrong", class_prefix), format!("{:?} raw {} (a valid time of day) is refused: {}", dt, raw, e)),
                (Out::Err(_), false) => {}
                (Out::Panic(p), _) => ctx.fail(0, "panic", format!("{:?} raw {}: {}", dt, raw, p)),
            }
        }
    }
    // ---- timestamps: before / after the epoch, with and without a sub-second fraction
    for unit in [TimeUnit::Second, TimeUnit::Millisecond, TimeUnit::Microsecond, TimeUnit::Nanosecond] {
        let ps = per_second(unit);
        let mut raws: Vec<i128> = vec![0, 1, -1, ps, -ps, ps + 1, -ps - 1, -ps - ps / 2, -3 * ps / 2, 3 * ps / 2, -ps + 1, 86_400 * ps - 1, -86_400 * ps - 1, 1_700_000_000 * ps + ps / 3, -1_700_000_000 * ps - ps / 3];
        raws.sort(); raws.dedup();
        for tz in [None, Some("UTC".to_string())] {
            for &raw in &raws {
                let dt = DataType::Timestamp(unit, tz.clone());
                let field = Field { name: "item".into(), data_type: dt.clone(), nullable: false, metadata: Default::default() };
                let v64 = [raw as i64];
                let view = View::Timestamp(TimestampView { unit, timezone: tz.clone(), validity: None, values: &v64 });
                let r = read_text(&field, &view);
                ctx.count(&format!("temporal_text:timestamp:{}", r.class()));
                ctx.add_eval(&format!("tts{:?}{}", dt, raw), true);
                match &r {
                    Out::Ok(t) => {
                        let parsed: Result<chrono::DateTime<chrono::Utc>, String> = if tz.is_some() { t[0].parse::<chrono::DateTime<chrono::Utc>>().map_err(|e| e.to_string()) } else { t[0].parse::<chrono::NaiveDateTime>().map(|x| x.and_utc()).map_err(|e| e.to_string()) };
                        match parsed {
                            Ok(x) => {
                                let got: Option<i128> = match unit { TimeUnit::Second => Some(x.timestamp() as i128), TimeUnit::Millisecond => Some(x.timestamp_millis() as i128), TimeUnit::Microsecond => Some(x.timestamp_micros() as i128), TimeUnit::Nanosecond => x.timestamp_nanos_opt().map(|n| n as i128) };
                                if got != Some(raw) { ctx.fail(0, &format!("{}_timestamp_text_wrong", class_prefix), format!("{:?} raw {} reads as {:?} which denotes {:?}", dt, raw, t[0], got)); }
                            }
                            Err(e) => ctx.fail(0, &format!("{}_timestamp_text_wrong", class_prefix), format!("{:?} raw {} reads as {:?}: {}", dt, raw, t[0], e)),
                        }
                    }
                    Out::Err(e) => ctx.fail(0, &format!("{}_timestamp_text_wrong", class_prefix), format!("{:?} raw {} is refused: {}", dt, raw, e)),
                    Out::Panic(p) => ctx.fail(0, "panic", format!("{:?} raw {}: {}", dt, raw, p)),
                }
            }
        }
    }
}
