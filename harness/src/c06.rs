//! C06: whenever tracing a schema from samples succeeds, the same samples must serialize with the
//! traced schema and decode to themselves (closure). The traced fields and the samples go through
//! the C01 case judge: decode(arrays) = interp(samples), wf_batch, builder-model comparison.
use crate::arrgen::Val;
use crate::c01::ser_case;
use crate::c07::trace;
use crate::coqfmt::Out;
use crate::ctx::Ctx;
use crate::tracegen::{self as tg, TOpts};

fn has_enum_null(v: &Val) -> bool { let _ = v; false }

pub fn closure_case(ctx: &mut Ctx, samples: &[Val], o: &TOpts, label: &str) {
    let r = trace(samples, o);
    match r {
        Out::Ok(fields) => {
            ctx.count(&format!("{}:traced", label));
            // closure: the traced schema must accept its own samples
            let accepted = crate::coqfmt::guarded(|| serde_arrow::to_marrow(&fields, samples).map(|_| ()).map_err(|e| e.to_string()));
            let mut failure = None;
            if let Out::Err(e) = &accepted {
                let class = if e.contains("Cannot serialize enum with data as string") && samples.iter().any(has_unit_payload_variant) { "unit_payload_variant_traced_as_string" } else if e.contains("serialize_unit/serialize_none is not supported") && e.contains("Union(..)") { "excluded_null_for_enum" } else if o.guess_dates && e.contains("arse") && samples.iter().any(has_doubtful_date_string) { "excluded_guess_dates" } else if o.coerce && e.contains("out of range") { "excluded_u64_above_i64" } else if o.to_string && o.dict && e.contains("Dictionary") { "to_string_with_dictionary" } else { "traced_schema_rejects_samples" };
                ctx.count(&format!("closure_failure:{}", class));
                if class.starts_with("excluded") { ctx.add_eval(&format!("{:?}{:?}", o, samples), false); return; }
                failure = Some((class, format!("options {:?}: the traced schema rejects its own samples: {}", o, e)));
            }
            let idx = ser_case(ctx, &fields, samples, label, None);
            if let Some((class, what)) = failure { ctx.fail(idx, class, what); }
            let _ = has_enum_null;
        }
        Out::Err(_) => { ctx.count(&format!("{}:not_traced", label)); ctx.add_eval(&format!("{:?}{:?}", o, samples), false); }
        Out::Panic(p) => { ctx.count(&format!("{}:panic", label)); let idx = ser_case(ctx, &[], &[], label, None); ctx.fail(idx, "panic", format!("from_samples panics: {} on {:?}", p, samples)); }
    }
}

/// a data-carrying enum variant whose payload is the unit value: `enum E { A, B(()) }`, B(())
/// the documented exclusion for guess_dates: a string that only LOOKS like a date / time (digits with '-' or ':') but that chrono, which the
/// temporal builders use, does not read as a date, a naive or UTC datetime, or a time. Collections in which every such string is genuine are
/// not excluded: a traced temporal type must then accept them all
fn has_doubtful_date_string(v: &Val) -> bool {
    fn doubtful(s: &str) -> bool {
        let looks = s.chars().next().map_or(false, |c| c.is_ascii_digit() || c == '+' || c == '-') && (s.contains('-') || s.contains(':'));
        looks && s.parse::<chrono::NaiveDate>().is_err() && s.parse::<chrono::NaiveDateTime>().is_err() && s.parse::<chrono::DateTime<chrono::Utc>>().is_err() && s.parse::<chrono::NaiveTime>().is_err()
    }
    match v {
        Val::Str(s) => doubtful(s),
        Val::Some(x) | Val::Newtype(x) | Val::NewtypeVariant(_, _, x) => has_doubtful_date_string(x),
        Val::Seq(xs) | Val::Tuple(xs) | Val::TupleStruct(xs) | Val::TupleVariant(_, _, xs) => xs.iter().any(has_doubtful_date_string),
        Val::Struct(fs, _) | Val::StructVariant(_, _, fs) => fs.iter().any(|(_, x)| has_doubtful_date_string(x)),
        Val::Map(es) => es.iter().any(|(k, x)| has_doubtful_date_string(k) || has_doubtful_date_string(x)),
        _ => false,
    }
}
fn has_unit_payload_variant(v: &Val) -> bool {
    match v {
        Val::NewtypeVariant(_, _, p) => matches!(**p, Val::Unit | Val::UnitStruct) || has_unit_payload_variant(p),
        Val::Some(x) | Val::Newtype(x) => has_unit_payload_variant(x),
        Val::Seq(l) | Val::Tuple(l) | Val::TupleStruct(l) | Val::TupleVariant(_, _, l) => l.iter().any(has_unit_payload_variant),
        Val::Struct(fs, _) | Val::StructVariant(_, _, fs) => fs.iter().any(|(_, x)| has_unit_payload_variant(x)),
        Val::Map(kvs) => kvs.iter().any(|(k, x)| has_unit_payload_variant(k) || has_unit_payload_variant(x)),
        _ => false,
    }
}

pub fn run(ctx: &mut Ctx) {
    ctx.runner = "RunC01".into();
    ctx.shard_size = 120;
    ctx.rule = "sample collections (random nested shapes: options, possibly empty lists, structs with optional fields missing in some samples, string-keyed maps with varying key sets, tuples, partially observed enums with unit/newtype/struct/tuple variants; 1-6 samples; a second stream mixes leaf kinds at one position to exercise the coercions) under random option sets and, on a fixed family of 40 sample sets, all 2^9 option sets; every collection whose tracing succeeds is serialized with the traced schema through to_marrow: the traced schema must accept it, the arrays must be a well-formed batch of the traced fields and decode to interp(samples) (judged inside Coq, C01 oracle), and agree with the builder model where that applies. Non-trivial = traced schema has a container; distinct by (schema, samples, result)".into();
    let n = if ctx.thorough { 12000 } else { 900 };
    for i in 0..n {
        let mut rng = ctx.rng.fork();
        let mixed = i % 3 == 2;
        let d = 1 + rng.below(3); let shape = tg::gen_root(&mut rng, d, mixed);
        let k = *rng.pick(&[1usize, 2, 3, 3, 4, 6]);
        let samples: Vec<Val> = (0..k).map(|_| tg::gen_value(&mut rng, &shape, false)).collect();
        let o = TOpts::random(&mut rng);
        closure_case(ctx, &samples, &o, if mixed { "mixed" } else { "shaped" });
    }
    // directed family: partially observed enums (the first variants never seen) below nullable parents
    {
        use crate::arrgen::IK;
        let var = |i: u32, v: Val| Val::NewtypeVariant(i, format!("V{}", i), Box::new(v));
        let rec = |v: Val| Val::Struct(vec![("e".into(), v)], 0);
        let families: Vec<Vec<Val>> = vec![
            vec![Val::Struct(vec![("o".into(), Val::Some(Box::new(rec(var(1, Val::Int(IK::I32, 1))))))], 0), Val::Struct(vec![("o".into(), Val::None)], 0)],
            vec![Val::Struct(vec![("o".into(), Val::None)], 0), Val::Struct(vec![("o".into(), Val::Some(Box::new(rec(var(2, Val::Str("x".into()))))))], 0)],
            vec![Val::Struct(vec![("l".into(), Val::Seq(vec![Val::Some(Box::new(rec(var(1, Val::Bool(true))))), Val::None]))], 0)],
            vec![Val::Struct(vec![("s".into(), rec(var(3, Val::Int(IK::U8, 1))))], 0), Val::Struct(vec![], 0)],
            vec![Val::Struct(vec![("o".into(), Val::Some(Box::new(rec(Val::UnitVariant(1, "B".into())))))], 0), Val::Struct(vec![("o".into(), Val::None)], 0)],
        ];
        for fam in &families { for b in [0u32, 1, 2, 256, 257, 511, 3, 17] { closure_case(ctx, fam, &TOpts::from_bits(b | 1), "unseen_variant_below_nullable"); } }
    }
    // directed family: every ordered pair of string-like kinds (plain text, naive / UTC datetime, date, time, null, optional text) at one
    // position - a field and a list element - under the coercion-relevant option sets with guess_dates on: whichever temporal type is
    // guessed for the position must accept every string that led to it
    {
        let kinds = [12usize, 13, 14, 15, 16, 19, 21];
        let opts: Vec<TOpts> = tg::opts_pool_coercion().into_iter().filter(|o| o.guess_dates).collect();
        for &k1 in &kinds { for &k2 in &kinds {
            let mut rng = ctx.rng.fork();
            let (a, b) = (tg::leaf(k1, &mut rng), tg::leaf(k2, &mut rng));
            let as_field = vec![Val::Struct(vec![("t".into(), a.clone())], 0), Val::Struct(vec![("t".into(), b.clone())], 0)];
            let as_items = vec![Val::Struct(vec![("l".into(), Val::Seq(vec![a.clone(), b.clone()]))], 0)];
            for o in &opts { closure_case(ctx, &as_field, o, "guessed_dates_pair"); closure_case(ctx, &as_items, o, "guessed_dates_pair"); }
        } }
    }
    // directed family: every kind of null marker (None, unit, unit struct) next to every kind of scalar or
    // container at one position, in both orders
    {
        use crate::arrgen::IK;
        let nulls = [Val::None, Val::Unit, Val::UnitStruct];
        let others = vec![Val::Bool(true), Val::Int(IK::I8, -1), Val::Int(IK::U64, 7), Val::F32(0), Val::F64(0), Val::Char('x'), Val::Str("s".into()), Val::Bytes(vec![1, 2]),
            Val::Seq(vec![Val::Int(IK::I32, 1)]), Val::Struct(vec![("q".into(), Val::Bool(false))], 0), Val::Map(vec![(Val::Str("k".into()), Val::Int(IK::I32, 1))]), Val::Tuple(vec![Val::Bool(true), Val::Str("t".into())])];
        for n in &nulls { for x in &others { for swap in [false, true] {
            let (a, b2) = if swap { (x.clone(), n.clone()) } else { (n.clone(), x.clone()) };
            let samples = vec![Val::Struct(vec![("p".into(), a)], 0), Val::Struct(vec![("p".into(), b2)], 0)];
            for b in [0u32, 1, 4, 128, 511] { closure_case(ctx, &samples, &TOpts::from_bits(b), "null_marker_next_to_value"); }
        } } }
    }
    // directed family: enum variants whose payload was only ever a null marker, next to unit variants, under all option sets
    {
        let nv = |i: u32, v: Val| Val::NewtypeVariant(i, format!("V{}", i), Box::new(v));
        let rec = |v: Val| Val::Struct(vec![("e".into(), v)], 0);
        let families: Vec<Vec<Val>> = vec![
            vec![rec(nv(0, Val::None))],
            vec![rec(nv(0, Val::None)), rec(Val::UnitVariant(1, "V1".into()))],
            vec![rec(Val::UnitVariant(0, "V0".into())), rec(nv(1, Val::Unit))],
            vec![rec(nv(0, Val::None)), rec(nv(0, Val::Some(Box::new(Val::Int(crate::arrgen::IK::I32, 1)))))],
            vec![rec(Val::TupleVariant(0, "V0".into(), vec![])), rec(Val::UnitVariant(1, "V1".into()))],
        ];
        for fam in &families { for b in 0..512u32 { closure_case(ctx, fam, &TOpts::from_bits(b), "enum_payload_always_null"); } }
    }
    // directed family: tuples (and tuple structs, tuple variants) of DIFFERENT lengths at one position - what an untagged enum with
    // tuple variants of different arity presents: the elements a shorter tuple lacks are missing values of the longer ones
    {
        use crate::arrgen::IK;
        let i = |z: i128| Val::Int(IK::I32, z);
        let rec = |v: Val| Val::Struct(vec![("t".into(), v)], 0);
        let families: Vec<Vec<Val>> = vec![
            vec![rec(Val::Tuple(vec![i(1), i(2)])), rec(Val::Tuple(vec![i(3)]))],
            vec![rec(Val::Tuple(vec![i(3)])), rec(Val::Tuple(vec![i(1), Val::Str("x".into())]))],
            vec![rec(Val::Tuple(vec![])), rec(Val::Tuple(vec![i(1), i(2), i(3)])), rec(Val::Tuple(vec![i(4)]))],
            vec![rec(Val::TupleStruct(vec![i(1), i(2)])), rec(Val::Tuple(vec![i(3)])), rec(Val::None)],
            vec![rec(Val::Seq(vec![Val::Tuple(vec![i(1)]), Val::Tuple(vec![i(1), Val::Bool(true)])]))],
            vec![rec(Val::TupleVariant(0, "V0".into(), vec![i(1), i(2)])), rec(Val::TupleVariant(0, "V0".into(), vec![i(1)]))],
            vec![rec(Val::Some(Box::new(Val::Tuple(vec![i(1), Val::Tuple(vec![i(2), i(3)])])))), rec(Val::Some(Box::new(Val::Tuple(vec![i(1), Val::Tuple(vec![i(2)])]))))],
        ];
        for fam in &families { for b in [0u32, 1, 2, 4, 128, 511] { closure_case(ctx, fam, &TOpts::from_bits(b), "tuples_of_different_length"); } }
    }
    // all 2^9 option sets on a fixed family
    let fam = if ctx.thorough { 40 } else { 6 };
    let mut frng = crate::rng::Rng::new(777);
    for _ in 0..fam {
        let shape = tg::gen_root(&mut frng, 2, true);
        let samples: Vec<Val> = (0..3).map(|_| tg::gen_value(&mut frng, &shape, false)).collect();
        for b in 0..512u32 { closure_case(ctx, &samples, &TOpts::from_bits(b), "all_options"); }
    }
}
