//! Collects the cases of one run and writes the Coq case files and the run report.
use crate::rng::Rng;
use serde_json::{json, Value};
use std::collections::{BTreeMap, HashSet};
use std::fs;
use std::io::Write;
use std::path::PathBuf;

pub struct CaseRec {
    pub coq: String,
    pub desc: Value,
}

pub struct OracleFailure {
    pub case: usize,
    pub class: String,
    pub what: String,
}

pub struct Ctx {
    pub prop: String,
    pub thorough: bool,
    pub seed: u64,
    pub out: PathBuf,
    pub only: Option<usize>,
    pub rng: Rng,
    pub runner: String,
    pub shard_size: usize,
    pub cases: Vec<CaseRec>,
    pub failures: Vec<OracleFailure>,
    pub dist: BTreeMap<String, u64>,
    pub distinct: HashSet<u64>,
    pub nontrivial: u64,
    pub evaluations: u64,
    pub rule: String,
    pub extra: BTreeMap<String, Value>,
    pub preamble: String,
}

fn hash_str(s: &str) -> u64 {
    let mut h: u64 = 0xcbf29ce484222325;
    for b in s.bytes() {
        h ^= b as u64;
        h = h.wrapping_mul(0x100000001b3);
    }
    h
}

impl Ctx {
    pub fn new(prop: &str, thorough: bool, seed: u64, out: PathBuf, only: Option<usize>) -> Self {
        Ctx {
            prop: prop.to_string(),
            thorough,
            seed,
            out,
            only,
            rng: Rng::new(seed),
            runner: String::new(),
            shard_size: 400,
            cases: vec![],
            failures: vec![],
            dist: BTreeMap::new(),
            distinct: HashSet::new(),
            nontrivial: 0,
            evaluations: 0,
            rule: String::new(),
            extra: BTreeMap::new(),
            preamble: String::new(),
        }
    }

    pub fn count(&mut self, key: &str) {
        *self.dist.entry(key.to_string()).or_insert(0) += 1;
    }

    /// register a case for the Coq side; `nontrivial` by the property's own rule; returns index
    pub fn add_case(&mut self, coq: String, desc: Value, nontrivial: bool) -> usize {
        self.evaluations += 1;
        if nontrivial && self.distinct.insert(hash_str(&coq)) {
            self.nontrivial += 1;
        }
        self.cases.push(CaseRec { coq, desc });
        self.cases.len() - 1
    }

    /// count an evaluation that is only checked on the Rust side (no Coq case)
    pub fn add_eval(&mut self, key: &str, nontrivial: bool) {
        self.evaluations += 1;
        if nontrivial && self.distinct.insert(hash_str(key)) {
            self.nontrivial += 1;
        }
    }

    pub fn fail(&mut self, case: usize, class: &str, what: String) {
        self.failures.push(OracleFailure { case, class: class.to_string(), what });
    }

    pub fn finish(self) {
        fs::create_dir_all(&self.out).unwrap();
        // case shards
        let mut shards = vec![];
        let total = self.cases.len();
        let mut start = 0usize;
        let mut k = 0usize;
        while start < total {
            let end = (start + self.shard_size).min(total);
            let name = format!("cases_{}.v", k);
            let mut f = fs::File::create(self.out.join(&name)).unwrap();
            writeln!(f, "From Verif Require Import {}.", self.runner).unwrap();
            writeln!(f, "Open Scope string_scope.").unwrap();
            if !self.preamble.is_empty() {
                writeln!(f, "{}", self.preamble).unwrap();
            }
            writeln!(f, "Definition cases : list Case := [").unwrap();
            for (i, c) in self.cases[start..end].iter().enumerate() {
                if i > 0 {
                    writeln!(f, ";").unwrap();
                }
                write!(f, "{}", c.coq).unwrap();
            }
            writeln!(f, "\n].").unwrap();
            writeln!(f, "Eval vm_compute in (TagCorr, failing corr cases).").unwrap();
            writeln!(f, "Eval vm_compute in (TagOracle, failing oracle cases).").unwrap();
            writeln!(f, "Eval vm_compute in (TagInfo, info cases).").unwrap();
            shards.push(json!({"file": name, "start": start, "count": end - start}));
            start = end;
            k += 1;
        }
        // descriptions
        let mut f = fs::File::create(self.out.join("cases_desc.jsonl")).unwrap();
        for c in &self.cases {
            writeln!(f, "{}", c.desc).unwrap();
        }
        let samples: Vec<Value> = {
            let n = self.cases.len();
            let mut v = vec![];
            if n > 0 {
                for i in [0, n / 3, (2 * n) / 3, n - 1] {
                    v.push(self.cases[i].desc.clone());
                }
            }
            v
        };
        let report = json!({
            "property": self.prop,
            "tier": if self.thorough { "thorough" } else { "quick" },
            "seed": self.seed,
            "runner": self.runner,
            "shards": shards,
            "evaluations": self.evaluations,
            "distinct_nontrivial": self.nontrivial,
            "rule": self.rule,
            "distribution": self.dist,
            "samples": samples,
            "extra": self.extra,
            "oracle_failures": self.failures.iter().map(|f| json!({
                "case": f.case, "class": f.class, "what": f.what,
                "desc": self.cases.get(f.case).map(|c| c.desc.clone()).unwrap_or(Value::Null),
            })).collect::<Vec<_>>(),
        });
        fs::write(self.out.join("report.json"), serde_json::to_string_pretty(&report).unwrap()).unwrap();
    }
}
