//! C07 (and the tracer-model tie of C06/C08): sample collections traced through the public
//! `from_samples`; the traced schema (or the failure) is compared with the Coq tracer model; the
//! permutation / repetition law is evaluated directly on the implementation.
use crate::arrgen::{self, Val};
use crate::coqfmt::{self as cf, guarded, Out};
use crate::ctx::Ctx;
use crate::rng::Rng;
use crate::tracegen::{self as tg, TOpts};
use marrow::datatypes::{DataType, Field};
use serde_arrow::schema::SchemaLike;
use serde_json::json;

pub fn trace(samples: &[Val], o: &TOpts) -> Out<Vec<Field>> {
    guarded(|| Vec::<Field>::from_samples(samples, o.to_options()).map_err(|e| e.to_string()))
}

/// canonical form for the order law: struct fields that are not map-sorted may come in first-seen order
pub fn canon(f: &Field) -> String {
    fn go(f: &Field, out: &mut String) {
        out.push_str(&format!("{:?}:{}:{:?}:", f.name, f.nullable, { let mut m: Vec<_> = f.metadata.iter().collect(); m.sort(); m }));
        match &f.data_type {
            DataType::Struct(fs) => { let mut parts: Vec<String> = fs.iter().map(|c| { let mut s = String::new(); go(c, &mut s); s }).collect(); if !f.metadata.values().any(|v| v == "TupleAsStruct") { parts.sort(); } out.push_str(&format!("struct{{{}}}", parts.join(","))); }
            DataType::List(c) => { out.push_str("list<"); go(c, out); out.push('>'); }
            DataType::LargeList(c) => { out.push_str("llist<"); go(c, out); out.push('>'); }
            DataType::Map(c, _) => { out.push_str("map<"); go(c, out); out.push('>'); }
            DataType::Union(fs, _) => { out.push_str("union<"); for (t, c) in fs { out.push_str(&format!("{}=", t)); go(c, out); out.push(';'); } out.push('>'); }
            other => out.push_str(&format!("{:?}", other)),
        }
    }
    let mut s = String::new(); go(f, &mut s); s
}
fn canon_schema(r: &Out<Vec<Field>>) -> String {
    match r { Out::Ok(fs) => { let mut v: Vec<String> = fs.iter().map(canon).collect(); v.sort(); format!("ok[{}]", v.join("|")) } Out::Err(_) => "err".into(), Out::Panic(_) => "panic".into() }
}

fn result_coq(r: &Out<Vec<Field>>) -> Option<String> {
    Some(match r { Out::Ok(fs) => { let mut v = vec![]; for f in fs { v.push(tg::sfield_coq(f)?); } format!("(Ok [{}])", v.join("; ")) } Out::Err(_) => "Err".into(), Out::Panic(_) => "(Panic PExternal)".into() })
}

/// one case for the Coq side + the order/repetition law on the implementation
pub fn trace_case(ctx: &mut Ctx, samples: &[Val], o: &TOpts, label: &str, perms: &[Vec<usize>], to_coq: bool) {
    let r = trace(samples, o);
    ctx.count(&format!("{}:{}", label, r.class()));
    let mut fails: Vec<(&str, String)> = vec![];
    if let Out::Panic(p) = &r { fails.push(("panic", format!("from_samples panics: {}", p))); }
    let base = canon_schema(&r);
    for p in perms {
        let permuted: Vec<Val> = p.iter().map(|&i| samples[i].clone()).collect();
        let rp = trace(&permuted, o);
        let c = canon_schema(&rp);
        if c != base {
            let both_ok = matches!((&r, &rp), (Out::Ok(_), Out::Ok(_)));
            if both_ok { fails.push(("order_changes_schema", format!("order {:?} gives a different schema: {} vs {}", p, c, base))); }
            // with allow_to_string the success of a whole collection may depend on its order (the property's own caveat); two samples of a
            // nested shape contribute several leaf values to one position, so their swap reorders a longer collection
            else if !o.to_string || perms.len() <= 2 && samples.len() == 2 && !label.starts_with("nested") { fails.push(("order_changes_success", format!("order {:?}: {} vs {} (allow_to_string = {})", p, rp.class(), r.class(), o.to_string))); }
        }
    }
    // repetition changes nothing
    if !samples.is_empty() {
        let mut twice = samples.to_vec(); twice.extend(samples.iter().cloned());
        let rt = trace(&twice, o);
        if canon_schema(&rt) != base { fails.push(("repetition_changes_result", format!("tracing the collection twice over: {} vs {}", canon_schema(&rt), base))); }
    }
    let nontrivial = samples.len() >= 2;
    let desc = json!({"label": label, "options": format!("{:?}", o), "samples": format!("{:?}", samples), "impl": match &r { Out::Ok(f) => format!("Ok({:?})", f), Out::Err(e) => format!("Err({})", e), Out::Panic(p) => format!("Panic({})", p) }});
    if to_coq {
        match result_coq(&r) {
            Some(rc) => { let coq = format!("{{| c_opts := {}; c_samples := {}; c_impl := {} |}}", o.coq(), cf::list(samples, arrgen::val_coq), rc); let idx = ctx.add_case(coq, desc, nontrivial); for (c, w) in fails { ctx.fail(idx, c, w); } }
            None => { let coq = format!("{{| c_opts := {}; c_samples := {}; c_impl := Ok [] |}}", o.coq(), cf::list(samples, arrgen::val_coq)); let idx = ctx.add_case(coq, desc, nontrivial); ctx.fail(idx, "schema_outside_tracer_range", "the traced schema uses a data type or metadata tracing never produces".into()); for (c, w) in fails { ctx.fail(idx, c, w); } }
        }
    } else {
        ctx.add_eval(&format!("{:?}{:?}", o, samples), nontrivial);
        if !fails.is_empty() {
            let coq = format!("{{| c_opts := {}; c_samples := {}; c_impl := {} |}}", o.coq(), cf::list(samples, arrgen::val_coq), result_coq(&r).unwrap_or("Err".into()));
            let idx = ctx.add_case(coq, desc, nontrivial);
            for (c, w) in fails { ctx.fail(idx, c, w); }
        }
    }
}

fn all_perms(n: usize) -> Vec<Vec<usize>> {
    fn go(cur: &mut Vec<usize>, used: &mut Vec<bool>, n: usize, out: &mut Vec<Vec<usize>>) { if cur.len() == n { out.push(cur.clone()); return; } for i in 0..n { if !used[i] { used[i] = true; cur.push(i); go(cur, used, n, out); cur.pop(); used[i] = false; } } }
    let mut out = vec![]; go(&mut vec![], &mut vec![false; n], n, &mut out); out.into_iter().skip(1).collect()
}
fn rec(v: Val) -> Val { Val::Struct(vec![("a".to_string(), v)], 0) }

pub fn nested_case(ctx: &mut Ctx, rng: &mut Rng, label: &str, mixed: bool) {
    let d = 1 + rng.below(3); let shape = tg::gen_root(rng, d, mixed);
    let n = *rng.pick(&[1usize, 2, 2, 3, 3, 4, 6]);
    let samples: Vec<Val> = (0..n).map(|_| tg::gen_value(rng, &shape, false)).collect();
    let o = TOpts::random(rng);
    let perms: Vec<Vec<usize>> = if n <= 3 { all_perms(n) } else { (0..4).map(|_| { let mut p: Vec<usize> = (0..n).collect(); rng.shuffle(&mut p); p }).collect() };
    trace_case(ctx, &samples, &o, label, &perms, true);
}

pub fn run(ctx: &mut Ctx) {
    ctx.runner = "RunC07".into();
    ctx.shard_size = 400;
    ctx.rule = "exhaustive: all ordered pairs over the 25-kind leaf alphabet (bool, 8 integer widths, 2 float widths, char, plain / datetime-like / utc-datetime-like / date-like / time-like strings, bytes, unit, None, Some(x), unit struct) x the 16 coercion-relevant option sets (coerce_numbers, allow_to_string, guess_dates, allow_null_fields), each wrapped in a one-field record, both orders and the doubled collection traced through the public from_samples and compared (schema, or failure) with the Coq tracer model; all triples in all 6 orders (thorough; quick: a seeded third) judged by the order/repetition law on the implementation; random nested shapes (options, lists, structs with missing fields, string-keyed maps, tuples, enums with unit/newtype/struct/tuple variants, mixed leaf kinds) with 1-6 samples in all (<= 3 samples) or 4 seeded permutations under random option sets. Non-trivial = at least two samples; distinct by (options, samples, result)".into();
    let pool = tg::opts_pool_coercion();
    let mut rng = ctx.rng.fork();
    // pairs: exhaustive, compared with the model
    for o in &pool { for a in 0..tg::LEAF_KINDS { for b in 0..tg::LEAF_KINDS {
        let samples = vec![rec(tg::leaf(a, &mut rng)), rec(tg::leaf(b, &mut rng))];
        trace_case(ctx, &samples, o, "pair", &[vec![1, 0]], true);
    } } }
    // triples: all 6 orders on the implementation; a sample of them also through the model
    let perms3 = all_perms(3);
    let mut k = 0u64;
    for o in &pool { for a in 0..tg::LEAF_KINDS { for b in a..tg::LEAF_KINDS { for c in b..tg::LEAF_KINDS {
        k += 1;
        if !ctx.thorough && (k + ctx.seed) % 3 != 0 { continue; }
        let samples = vec![rec(tg::leaf(a, &mut rng)), rec(tg::leaf(b, &mut rng)), rec(tg::leaf(c, &mut rng))];
        trace_case(ctx, &samples, o, "triple", &perms3, k % 23 == 0);
    } } } }
    ctx.extra.insert("exhaustive".into(), json!(true));
    ctx.extra.insert("exhaustive_domain".into(), json!("ordered pairs of the leaf alphabet x 16 option sets (model-compared); unordered triples x 6 orders (thorough: all; quick: a third)"));
    // shape clashes: every ordered pair (and every triple with a leading None) over an alphabet of SHAPES at one position -
    // scalar, string, unit, None, empty / non-empty sequence, tuples of three different lengths, struct, empty / non-empty map, unit / newtype variant -
    // under both settings of map_as_struct: most pairs cannot be merged, and which ones can must not depend on the order
    // (each ensure_* transition upgrades exactly from Unknown / a null-only primitive)
    {
        use crate::arrgen::IK;
        let shapes: Vec<Val> = vec![
            Val::Int(IK::I32, 7), Val::Str("x".into()), Val::Bool(true), Val::Unit, Val::None, Val::Some(Box::new(Val::Int(IK::I32, 1))),
            Val::Seq(vec![]), Val::Seq(vec![Val::Int(IK::I32, 1)]), Val::Tuple(vec![Val::Int(IK::I32, 1), Val::Bool(false)]), Val::Tuple(vec![Val::Int(IK::I32, 1)]), Val::TupleStruct(vec![Val::Int(IK::I32, 1), Val::Bool(true), Val::None]),
            Val::Struct(vec![("x".to_string(), Val::Int(IK::I32, 1))], 0),
            Val::Map(vec![]), Val::Map(vec![(Val::Str("x".into()), Val::Int(IK::I32, 1))]), Val::Map(vec![(Val::Int(IK::I32, 3), Val::Bool(true))]),
            Val::UnitVariant(0, "A".into()), Val::NewtypeVariant(1, "B".into(), Box::new(Val::Int(IK::I32, 1))),
        ];
        for bits in [0b000000001u32, 0b000000011, 0b001100001, 0b001100011] {
            let o = TOpts::from_bits(bits);
            for a in &shapes { for b in &shapes {
                trace_case(ctx, &[rec(a.clone()), rec(b.clone())], &o, "shape_pair", &[vec![1, 0]], true);
                trace_case(ctx, &[rec(Val::None), rec(a.clone()), rec(b.clone())], &o, "shape_triple", &perms3, true);
            } }
        }
    }
    // nested shapes
    let n = if ctx.thorough { 12000 } else { 1200 };
    for i in 0..n { let mut r = ctx.rng.fork(); nested_case(ctx, &mut r, if i % 2 == 0 { "nested" } else { "nested_mixed" }, i % 2 == 1); }
}
