//! C02 / C12 / C17 reader side: valid views (canonical arrays produced by the writer, windows of
//! them with Arrow's slice layout, arrow-rs built and sliced arrays) are read through
//! deserialize_any with a recording probe; the reads are judged inside Coq against decode (the
//! specification of the logical content) and, for slices, against the unsliced reads.
use crate::arrgen::{self, Inject, Val};
use crate::coqfmt::{self as cf, guarded, Out};
use crate::ctx::Ctx;
use crate::probe::{rval_coq, AnyProbe, RVal};
use crate::viewgen::{slice_view, view_coq};
use marrow::datatypes::{DataType, Field};
use marrow::view::View;
use serde::de::DeserializeSeed;
use serde_arrow::Deserializer;
use serde_json::json;

/// read row `idx` of a one-column deserializer through deserialize_any
pub fn read_at(field: &Field, view: &View, idx: usize) -> Out<Option<RVal>> {
    let dt = DataType::Struct(vec![field.clone()]);
    guarded(|| -> Result<Option<RVal>, String> {
        let de = Deserializer::from_marrow(std::slice::from_ref(field), std::slice::from_ref(view)).map_err(|e| e.to_string())?;
        let Some(item) = de.get(idx) else { return Ok(None) };
        let r = AnyProbe { dt: Some(&dt) }.deserialize(item).map_err(|e| e.to_string())?;
        match r { RVal::Map(mut kv) if kv.len() == 1 => Ok(Some(kv.remove(0).1)), other => Err(format!("unexpected record shape {:?}", other)) }
    })
}

fn read_coq(r: &Out<Option<RVal>>) -> String { r.coq(|o| cf::option(o, rval_coq)) }

pub fn view_case(ctx: &mut Ctx, field: &Field, view: &View, label: &str, whole: Option<(&View, usize)>) -> usize {
    let len = match guarded(|| Deserializer::from_marrow(std::slice::from_ref(field), std::slice::from_ref(view)).map(|d| d.len()).map_err(|e| e.to_string())) { Out::Ok(l) => l, _ => 0 };
    let mut reads = vec![];
    let mut fails = vec![];
    for i in 0..=len {
        let r = read_at(field, view, i);
        if let Out::Panic(p) = &r { fails.push(("panic", format!("reading row {} panics: {}", i, p))); }
        if let Some((w, o)) = whole {
            if i < len {
                let rw = read_at(field, w, o + i);
                let same = match (&r, &rw) { (Out::Ok(a), Out::Ok(b)) => a == b, (Out::Err(_), Out::Err(_)) => true, _ => false };
                if !same { fails.push(("slice_differs_from_window", format!("row {} of the slice at offset {}: {:?} but the whole array gives {:?} at row {}", i, o, r.class(), rw.class(), o + i))); }
            }
        }
        reads.push((i, r));
    }
    ctx.count(&format!("{}:{}", label, if reads.iter().all(|(_, r)| matches!(r, Out::Ok(_))) { "ok" } else { "not_all_ok" }));
    let coq = format!("{{| c_field := {}; c_view := {}; c_reads := {} |}}", arrgen::field_coq(field), view_coq(view), cf::list(&reads, |(i, r)| format!("({}%nat, {})", i, read_coq(r))));
    let desc = json!({"kind": label, "field": format!("{:?}", (&field.name, &field.data_type, field.nullable)), "view": format!("{:?}", view), "reads": reads.iter().map(|(i, r)| format!("{}: {}", i, match r { Out::Ok(v) => format!("{:?}", v), Out::Err(e) => format!("Err({})", e), Out::Panic(p) => format!("Panic({})", p) })).collect::<Vec<_>>() });
    let nontrivial = whole.is_some() || matches!(field.data_type, DataType::Struct(_) | DataType::List(_) | DataType::LargeList(_) | DataType::Map(..) | DataType::Union(..) | DataType::FixedSizeList(..) | DataType::Dictionary(..));
    let idx = ctx.add_case(coq, desc, nontrivial);
    for (c, w) in fails { ctx.fail(idx, c, w); }
    idx
}

pub fn run(ctx: &mut Ctx) {
    ctx.runner = "RunC02".into();
    ctx.shard_size = 150;
    let prop = ctx.prop.clone();
    ctx.rule = "one-column arrays of every supported (nested) data type produced by the writer from random rows, read back row by row (and one row past the end) through deserialize_any with a recording probe; windows (offset, length) of those arrays - plus a directed family of validity patterns around bitmap byte boundaries (a single null / a single valid row at positions 8, 9, 16, last) for 14 nullable kinds read through windows starting inside a byte - with the layout of an Arrow slice (non-zero first offsets, unreferenced child ranges, validity bit offsets 1..15, windowed union type ids/offsets), slices of slices, and arrays built and sliced with arrow-rs then converted by marrow; each read is judged inside Coq against present(decode view)[i] and, for slices, against the read of the whole array at offset+i. C12 tier: all windows of arrays of length <= 9 (quick: a third of them). Non-trivial = nested type or a proper window; distinct by (field, view, reads)".into();
    let n = if ctx.thorough { 4000 } else { 260 };
    for g in 0..n {
        let mut rng = ctx.rng.fork();
        let d = rng.below(3);
        let mut field = arrgen::gen_field(&mut rng, "c", d);
        if matches!(field.data_type, DataType::Float16) { field.data_type = DataType::Float32; }
        let nrows = *rng.pick(&[0usize, 1, 2, 3, 5, 8, 9, 12, 17]);
        let mut none = Inject { countdown: -1, what: None };
        let rows: Vec<Val> = (0..nrows).map(|_| Val::Struct(vec![("c".to_string(), arrgen::gen_val(&mut rng, &field, &mut none))], 0)).collect();
        let Out::Ok(arrays) = guarded(|| serde_arrow::to_marrow(std::slice::from_ref(&field), &rows).map_err(|e| e.to_string())) else { ctx.count("skipped:rows_rejected"); continue };
        let whole = arrays[0].as_view();
        view_case(ctx, &field, &whole, "whole", None);
        // a foreign but equivalent layout: every union with its children in the reverse order (children are identified by
        // name, type ids renumbered): every row must read as in the writer's own layout
        if crate::foreign::has_union(&field) {
            let (rf, ra) = (crate::foreign::rev_field(&field), crate::foreign::rev_array(&arrays[0]));
            let rv = ra.as_view();
            ctx.count("foreign_layout:unions_reversed");
            let idx = view_case(ctx, &rf, &rv, "unions_reversed", None);
            for i in 0..nrows {
                let (a, b) = (read_at(&field, &whole, i), read_at(&rf, &rv, i));
                let same = match (&a, &b) { (Out::Ok(x), Out::Ok(y)) => x == y, (Out::Err(_), Out::Err(_)) => true, _ => false };
                if !same { ctx.fail(idx, "foreign_layout_changes_values", format!("row {}: {} in the writer's layout, {} with the union children reversed", i, a.class(), b.class())); }
            }
        }
        // windows
        let exhaustive = prop == "C12" && nrows <= 9;
        let mut windows: Vec<(usize, usize)> = vec![];
        if exhaustive { for o in 0..=nrows { for l in 0..=(nrows - o) { if ctx.thorough || (o + l + g) % 3 == 0 { windows.push((o, l)); } } } }
        else { for _ in 0..3 { let o = rng.below(nrows + 1); let l = rng.below(nrows - o + 1); windows.push((o, l)); } }
        for (o, l) in windows {
            let s = slice_view(&whole, o, l);
            view_case(ctx, &field, &s, "window", Some((&whole, o)));
            // slice of a slice
            if l >= 2 && rng.chance(1, 3) { let o2 = rng.below(l); let l2 = rng.below(l - o2 + 1); let s2 = slice_view(&s, o2, l2); view_case(ctx, &field, &s2, "window_of_window", Some((&whole, o + o2))); }
        }
        // arrow-rs: build, slice with the library, convert with marrow
        if g % 2 == 0 && nrows > 0 {
            let afield = std::sync::Arc::new(match arrow_schema::Field::try_from(&field) { Ok(f) => f, Err(_) => continue });
            let Out::Ok(arr) = guarded(|| serde_arrow::to_arrow(&[afield.clone()], &rows).map_err(|e| e.to_string())) else { ctx.count("skipped:to_arrow_rejected"); continue };
            let o = rng.below(nrows + 1); let l = rng.below(nrows - o + 1);
            let sliced = arr[0].slice(o, l);
            match guarded(|| View::try_from(&*sliced).map_err(|e| e.to_string())) {
                Out::Ok(v) => {
                    let mine = slice_view(&whole, o, l);
                    ctx.count(if view_coq(&v) == view_coq(&mine) { "arrow_slice_layout:as_modelled" } else { "arrow_slice_layout:differs_from_model" });
                    view_case(ctx, &field, &v, "arrow_slice", Some((&whole, o)));
                }
                _ => ctx.count("skipped:marrow_view_conversion"),
            }
        }
    }
    // directed: validity patterns around byte boundaries of the bitmap (a single null, or a single valid row, at
    // positions 7 / 8 / 9 / 15 / 16 / last) for every nullable kind, read through windows that start inside a
    // byte and end right after the marked row or at the end of the array
    {
        use DataType as T;
        let mk = |n: &str, dt: DataType, nl: bool| Field { name: n.into(), data_type: dt, nullable: nl, metadata: Default::default() };
        let kinds: Vec<DataType> = vec![
            T::Boolean, T::Int32, T::Utf8, T::LargeBinary, T::Utf8View, T::FixedSizeBinary(2), T::Date64, T::Decimal128(5, 2),
            T::Dictionary(Box::new(T::Int8), Box::new(T::Utf8)),
            T::Struct(vec![mk("a", T::Int8, false), mk("b", T::Utf8, true)]),
            T::List(Box::new(mk("element", T::Int16, false))), T::LargeList(Box::new(mk("element", T::Utf8, true))),
            T::FixedSizeList(Box::new(mk("element", T::Int8, false)), 2),
            T::Map(Box::new(mk("entries", T::Struct(vec![mk("key", T::Utf8, false), mk("value", T::Int32, true)]), false)), false),
        ];
        let mut rng = ctx.rng.fork();
        for dt in &kinds {
            let field = mk("c", dt.clone(), true);
            for nrows in [10usize, 18] {
                for p in [8usize, 9, 16, nrows - 1] {
                    if p >= nrows { continue; }
                    for single_null in [true, false] {
                        let mut none = Inject { countdown: -1, what: None };
                        let rows: Vec<Val> = (0..nrows).map(|i| {
                            let null = (i == p) == single_null;
                            let v = if null { Val::None } else { loop { let v = arrgen::gen_val(&mut rng, &field, &mut none); if !matches!(v, Val::None | Val::Unit) { break v; } } };
                            Val::Struct(vec![("c".to_string(), v)], 0) }).collect();
                        let Out::Ok(arrays) = guarded(|| serde_arrow::to_marrow(std::slice::from_ref(&field), &rows).map_err(|e| e.to_string())) else { ctx.count("skipped:directed_rows_rejected"); continue };
                        let whole = arrays[0].as_view();
                        for o in [1usize, 7, 9] {
                            if o > p { continue; }
                            for e in [p + 1, nrows] {
                                let s = slice_view(&whole, o, e - o);
                                ctx.count("directed:bitmap_byte_boundary_window");
                                view_case(ctx, &field, &s, "window", Some((&whole, o)));
                            }
                        }
                    }
                }
            }
        }
    }
    // typed text reads of temporal columns at their boundaries (shared family, harness/src/temporal.rs)
    crate::temporal::run(ctx, "read");
}
