//! Shared by C06 / C07 / C08: tracing options, sample generators (heterogeneous JSON-like data,
//! partially observed enums, maps with varying key sets, nested options, empty lists), and the
//! printer of traced schemas as Coq `SField` terms.
use crate::arrgen::{Val, IK, IKS};
use crate::coqfmt as cf;
use crate::rng::Rng;
use marrow::datatypes::{DataType, Field, TimeUnit, UnionMode};
use serde_arrow::schema::TracingOptions;

#[derive(Clone, Copy, Debug, PartialEq, Eq)]
pub struct TOpts { pub allow_null: bool, pub map_as_struct: bool, pub large_list: bool, pub large_utf8: bool, pub dict: bool, pub coerce: bool, pub to_string: bool, pub guess_dates: bool, pub enums_str: bool }

impl TOpts {
    pub fn default() -> Self { TOpts { allow_null: false, map_as_struct: true, large_list: true, large_utf8: true, dict: false, coerce: false, to_string: false, guess_dates: false, enums_str: false } }
    pub fn from_bits(b: u32) -> Self { TOpts { allow_null: b & 1 != 0, map_as_struct: b & 2 != 0, large_list: b & 4 != 0, large_utf8: b & 8 != 0, dict: b & 16 != 0, coerce: b & 32 != 0, to_string: b & 64 != 0, guess_dates: b & 128 != 0, enums_str: b & 256 != 0 } }
    pub fn bits(&self) -> u32 { (self.allow_null as u32) | (self.map_as_struct as u32) << 1 | (self.large_list as u32) << 2 | (self.large_utf8 as u32) << 3 | (self.dict as u32) << 4 | (self.coerce as u32) << 5 | (self.to_string as u32) << 6 | (self.guess_dates as u32) << 7 | (self.enums_str as u32) << 8 }
    pub fn random(rng: &mut Rng) -> Self { if rng.chance(1, 4) { Self::default() } else { let mut o = Self::from_bits(rng.below(512) as u32); if rng.chance(1, 2) { o.allow_null = true; } o } }
    pub fn to_options(&self) -> TracingOptions {
        TracingOptions::default().allow_null_fields(self.allow_null).map_as_struct(self.map_as_struct).sequence_as_large_list(self.large_list).strings_as_large_utf8(self.large_utf8)
            .string_dictionary_encoding(self.dict).coerce_numbers(self.coerce).allow_to_string(self.to_string).guess_dates(self.guess_dates).enums_without_data_as_strings(self.enums_str)
    }
    pub fn coq(&self) -> String {
        format!("{{| o_allow_null := {}; o_map_as_struct := {}; o_large_list := {}; o_large_utf8 := {}; o_dict := {}; o_coerce := {}; o_to_string := {}; o_guess_dates := {}; o_enums_str := {} |}}",
            self.allow_null, self.map_as_struct, self.large_list, self.large_utf8, self.dict, self.coerce, self.to_string, self.guess_dates, self.enums_str)
    }
}

/// traced schema -> Coq SField; None when the field is outside what tracing can produce
pub fn sfield_coq(f: &Field) -> Option<String> {
    use DataType as T;
    let prim = |p: &str| Some(format!("(SPrim {})", p));
    let dt = match &f.data_type {
        T::Null => prim("PNull"), T::Boolean => prim("PBool"),
        T::Int8 => prim("(PI I8)"), T::Int16 => prim("(PI I16)"), T::Int32 => prim("(PI I32)"), T::Int64 => prim("(PI I64)"),
        T::UInt8 => prim("(PI U8)"), T::UInt16 => prim("(PI U16)"), T::UInt32 => prim("(PI U32)"), T::UInt64 => prim("(PI U64)"),
        T::Float32 => prim("PFloat32"), T::Float64 => prim("PFloat64"), T::LargeUtf8 => prim("(PStr true)"), T::Utf8 => prim("(PStr false)"),
        T::Timestamp(TimeUnit::Millisecond, None) => prim("(PTs false)"),
        T::Timestamp(TimeUnit::Millisecond, Some(tz)) if tz == "UTC" => prim("(PTs true)"),
        T::Time64(TimeUnit::Nanosecond) => prim("PTime64Ns"), T::Date32 => prim("PDate32T"), T::LargeBinary => prim("PLargeBinary"),
        T::Dictionary(k, v) if **k == T::UInt32 && **v == T::LargeUtf8 => Some("(SDictU32 true)".into()),
        T::Dictionary(k, v) if **k == T::UInt32 && **v == T::Utf8 => Some("(SDictU32 false)".into()),
        T::LargeList(c) => Some(format!("(SList true {})", sfield_coq(c)?)), T::List(c) => Some(format!("(SList false {})", sfield_coq(c)?)),
        T::Struct(fs) => { let mut v = vec![]; for c in fs { v.push(sfield_coq(c)?); } Some(format!("(SStruct [{}])", v.join("; "))) }
        T::Map(entries, false) => match &entries.data_type { T::Struct(kv) if kv.len() == 2 && entries.name == "entries" && !entries.nullable && entries.metadata.is_empty() => Some(format!("(SMap {} {})", sfield_coq(&kv[0])?, sfield_coq(&kv[1])?)), _ => None },
        T::Union(fs, UnionMode::Dense) => { let mut v = vec![]; for (i, (t, c)) in fs.iter().enumerate() { if *t as usize != i { return None; } v.push(sfield_coq(c)?); } Some(format!("(SUnion [{}])", v.join("; "))) }
        _ => None,
    }?;
    let strategy = match f.metadata.get("SERDE_ARROW:strategy").map(|s| s.as_str()) { None => "None", Some("MapAsStruct") => "(Some SMapAsStruct)", Some("TupleAsStruct") => "(Some STupleAsStruct)", Some("UnknownVariant") => "(Some SUnknownVariant)", Some(_) => return None };
    if f.metadata.len() > (strategy != "None") as usize { return None; }
    Some(format!("(mkSF {} {} {} {})", cf::text(&f.name), dt, cf::boolean(f.nullable), strategy))
}

// ------------------------------------------------------------------------------------------
// the leaf alphabet of C07

pub const LEAF_KINDS: usize = 25;
pub fn leaf_name(k: usize) -> &'static str {
    ["bool", "i8", "i16", "i32", "i64", "u8", "u16", "u32", "u64", "f32", "f64", "char", "str", "str_datetime", "str_utc_datetime", "str_date", "str_time", "bytes", "unit", "none", "some_i32", "some_str", "some_bool", "unit_struct", "some_none"][k]
}
pub fn leaf(k: usize, rng: &mut Rng) -> Val {
    let some = |v: Val| Val::Some(Box::new(v));
    match k {
        0 => Val::Bool(rng.chance(1, 2)), 1 => Val::Int(IK::I8, -3), 2 => Val::Int(IK::I16, 300), 3 => Val::Int(IK::I32, -70000), 4 => Val::Int(IK::I64, 1 << 40),
        5 => Val::Int(IK::U8, 200), 6 => Val::Int(IK::U16, 60000), 7 => Val::Int(IK::U32, 4_000_000_000), 8 => Val::Int(IK::U64, 1 << 50),
        9 => Val::F32(1.5f32.to_bits()), 10 => Val::F64(2.25f64.to_bits()), 11 => Val::Char('x'), 12 => Val::Str((*rng.pick(&["plain", "", "x y", "12:3", "2020-13"])).to_string()),
        13 => Val::Str("2020-12-24T08:30:00".into()), 14 => Val::Str((*rng.pick(&["2020-12-24T08:30:00Z", "2020-12-24 08:30:00+00:00", "2020-12-24T08:30:00.123+0000"])).to_string()),
        15 => Val::Str((*rng.pick(&["2020-12-24", "-0044-03-15", "+12345-1-2"])).to_string()), 16 => Val::Str((*rng.pick(&["08:30:00", "8:3:0.5"])).to_string()),
        17 => Val::Bytes(vec![1, 2, 3]), 18 => Val::Unit, 19 => Val::None, 20 => some(Val::Int(IK::I32, 7)), 21 => some(Val::Str("s".into())), 22 => some(Val::Bool(true)), 23 => Val::UnitStruct, _ => some(Val::None),
    }
}

// ------------------------------------------------------------------------------------------
// nested shapes

#[derive(Clone, Debug)]
pub enum Shape { Leaf(Vec<usize>), Opt(Box<Shape>), List(Box<Shape>), Struct(Vec<(String, Shape, bool)>), Map(Box<Shape>), Tuple(Vec<Shape>), Enum(Vec<(String, Payload)>) }
#[derive(Clone, Debug)]
pub enum Payload { Unit, Newtype(Shape), Struct(Vec<(String, Shape, bool)>), Tuple(Vec<Shape>) }

const FIELD_NAMES: [&str; 9] = ["a", "b", "c", "id", "name", "x.y", "", "é", "value"];

pub fn gen_shape(rng: &mut Rng, depth: usize, mixed: bool) -> Shape {
    if depth == 0 || rng.chance(2, 5) {
        let k = rng.below(18);
        let mut ks = vec![k];
        if mixed && rng.chance(1, 3) { ks.push(rng.below(18)); if rng.chance(1, 3) { ks.push(rng.below(25)); } }
        return Shape::Leaf(ks);
    }
    match rng.below(9) {
        0 => Shape::Opt(Box::new(gen_shape(rng, depth - 1, mixed))),
        1 | 2 => Shape::List(Box::new(gen_shape(rng, depth - 1, mixed))),
        3 | 4 => Shape::Struct(gen_fields(rng, depth, mixed)),
        5 => Shape::Map(Box::new(gen_shape(rng, depth - 1, mixed))),
        6 => Shape::Tuple((0..1 + rng.below(3)).map(|_| gen_shape(rng, depth - 1, mixed)).collect()),
        _ => { let n = 1 + rng.below(4); Shape::Enum((0..n).map(|i| (format!("V{}", i), match rng.below(5) { 0 | 1 => Payload::Unit, 2 => Payload::Newtype(gen_shape(rng, depth - 1, mixed)), 3 => Payload::Struct(gen_fields(rng, depth, mixed)), _ => Payload::Tuple((0..1 + rng.below(2)).map(|_| gen_shape(rng, depth - 1, mixed)).collect()) })).collect()) }
    }
}
fn gen_fields(rng: &mut Rng, depth: usize, mixed: bool) -> Vec<(String, Shape, bool)> {
    let n = 1 + rng.below(3);
    let mut names: Vec<&str> = FIELD_NAMES.to_vec(); rng.shuffle(&mut names);
    (0..n).map(|i| (names[i].to_string(), gen_shape(rng, depth - 1, mixed), rng.chance(1, 4))).collect()
}

/// a value of the shape; `vary` lets records drop optional fields, lists be empty, enums pick any variant
pub fn gen_value(rng: &mut Rng, s: &Shape, full: bool) -> Val {
    match s {
        Shape::Leaf(ks) => leaf(if full { ks[0] } else { *rng.pick(ks) }, rng),
        Shape::Opt(x) => if !full && rng.chance(1, 3) { Val::None } else { Val::Some(Box::new(gen_value(rng, x, full))) },
        Shape::List(x) => { let n = if full { 1 + rng.below(2) } else { *rng.pick(&[0usize, 0, 1, 2, 3]) }; Val::Seq((0..n).map(|_| gen_value(rng, x, full)).collect()) }
        Shape::Struct(fs) => { let vals = gen_field_values(rng, fs, full); if !full && rng.chance(1, 6) { Val::Map(vals.into_iter().map(|(k, v)| (Val::Str(k), v)).collect()) } else { Val::Struct(vals, 0) } }
        Shape::Map(x) => { let keys = ["k1", "k2", "k3", "zz", "a"]; let n = if full { 2 } else { rng.below(4) }; let mut ks: Vec<&str> = keys.to_vec(); rng.shuffle(&mut ks); Val::Map((0..n).map(|i| (Val::Str(ks[i].to_string()), gen_value(rng, x, full))).collect()) }
        Shape::Tuple(xs) => { let v: Vec<Val> = xs.iter().map(|x| gen_value(rng, x, full)).collect(); if rng.chance(1, 2) { Val::Tuple(v) } else { Val::TupleStruct(v) } }
        Shape::Enum(vs) => { let i = rng.below(vs.len()); variant_value(rng, i, &vs[i], full) }
    }
}
pub fn variant_value(rng: &mut Rng, i: usize, v: &(String, Payload), full: bool) -> Val {
    match &v.1 {
        Payload::Unit => Val::UnitVariant(i as u32, v.0.clone()),
        Payload::Newtype(x) => Val::NewtypeVariant(i as u32, v.0.clone(), Box::new(gen_value(rng, x, full))),
        Payload::Struct(fs) => Val::StructVariant(i as u32, v.0.clone(), gen_field_values(rng, fs, full)),
        Payload::Tuple(xs) => Val::TupleVariant(i as u32, v.0.clone(), xs.iter().map(|x| gen_value(rng, x, full)).collect()),
    }
}
fn gen_field_values(rng: &mut Rng, fs: &[(String, Shape, bool)], full: bool) -> Vec<(String, Val)> {
    let mut out = vec![];
    for (n, x, optional) in fs { if *optional && !full && rng.chance(1, 3) { continue; } out.push((n.clone(), gen_value(rng, x, full))); }
    out
}

/// a record-shaped top level (from_samples needs struct-like roots)
pub fn gen_root(rng: &mut Rng, depth: usize, mixed: bool) -> Shape {
    match rng.below(10) { 0 => Shape::Map(Box::new(gen_shape(rng, depth.saturating_sub(1), mixed))), 1 => Shape::Tuple((0..1 + rng.below(3)).map(|_| gen_shape(rng, depth.saturating_sub(1), mixed)).collect()), 2 => gen_shape(rng, depth, mixed), _ => Shape::Struct(gen_fields(rng, depth.max(1), mixed)) }
}

pub fn opts_pool_coercion() -> Vec<TOpts> {
    // the 16 coercion-relevant option sets: coerce_numbers, allow_to_string, guess_dates, allow_null_fields
    (0..16u32).map(|b| { let mut o = TOpts::default(); o.coerce = b & 1 != 0; o.to_string = b & 2 != 0; o.guess_dates = b & 4 != 0; o.allow_null = b & 8 != 0; o }).collect()
}

pub fn all_int_kinds() -> [IK; 8] { IKS }
