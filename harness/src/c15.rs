//! C15: Decimal128 parse / float / format vs coq/Codec/DecimalCodec.v
use crate::coqfmt::{self as cf, guarded, Out};
use crate::ctx::Ctx;
use crate::rng::Rng;
use bigdecimal::BigDecimal;
use marrow::array::Array;
use marrow::datatypes::{DataType, Field};
use marrow::view::{DecimalView, View};
use serde::{Deserialize, Serialize};
use serde_json::json;
use std::str::FromStr;

#[derive(Serialize)]
struct ItemS<'a> { item: &'a str }
#[derive(Serialize)]
struct ItemF64 { item: f64 }
#[derive(Serialize)]
struct ItemF32 { item: f32 }
#[derive(Deserialize)]
struct ItemString { item: String }

fn field(p: u8, s: i8) -> Field {
    Field { name: "item".into(), data_type: DataType::Decimal128(p, s), nullable: false, metadata: Default::default() }
}

fn first_decimal(arrays: Vec<Array>) -> Result<i128, String> {
    match arrays.into_iter().next() {
        Some(Array::Decimal128(a)) => a.values.first().copied().ok_or_else(|| "no value".to_string()),
        other => Err(format!("unexpected array {:?}", other)),
    }
}

pub fn parse(p: u8, s: i8, text: &str) -> Out<i128> {
    guarded(|| first_decimal(serde_arrow::to_marrow(&[field(p, s)], &[ItemS { item: text }]).map_err(|e| e.to_string())?))
}
pub fn float64(p: u8, s: i8, v: f64) -> Out<i128> {
    guarded(|| first_decimal(serde_arrow::to_marrow(&[field(p, s)], &[ItemF64 { item: v }]).map_err(|e| e.to_string())?))
}
pub fn float32(p: u8, s: i8, v: f32) -> Out<i128> {
    guarded(|| first_decimal(serde_arrow::to_marrow(&[field(p, s)], &[ItemF32 { item: v }]).map_err(|e| e.to_string())?))
}
pub fn format(p: u8, s: i8, v: i128) -> Out<String> {
    guarded(|| {
        let vals = [v];
        let views = [View::Decimal128(DecimalView { precision: p, scale: s, validity: None, values: &vals })];
        let items: Vec<ItemString> = serde_arrow::from_marrow(&[field(p, s)], &views).map_err(|e| e.to_string())?;
        Ok::<_, String>(items.into_iter().next().unwrap().item)
    })
}

const P_POOL: [u8; 12] = [1, 2, 3, 5, 10, 18, 37, 38, 39, 64, 65, 255];
const S_POOL: [i8; 18] = [-128, -127, -39, -38, -25, -24, -3, -1, 0, 1, 2, 5, 24, 38, 61, 62, 126, 127];

fn gen_digits(rng: &mut Rng, n: usize) -> String {
    (0..n).map(|i| if i == 0 && rng.chance(1, 3) { '0' } else { (b'0' + rng.below(10) as u8) as char }).collect()
}

fn gen_text(rng: &mut Rng) -> (String, &'static str) {
    // malformed classes
    if rng.chance(1, 6) {
        let pool = ["", "+", "-", ".", "+.", "-.", "1e3", "1E3", "abc", "1.2.3", "--1", "+-1", "1-", " 1", "1 ", "0x10", "1,5", "NaN", "inf", "١٢", "1_000", "+", "..", "-.e", ".e1", "1.+2", "\u{0}", "1\u{0}"];
        return (pool[rng.below(pool.len())].to_string(), "malformed");
    }
    let sign = match rng.below(4) { 0 => "+", 1 => "-", _ => "" };
    let nint = *rng.pick(&[0usize, 0, 1, 1, 2, 3, 5, 10, 19, 37, 38, 39, 40, 45, 66, 130, 260]);
    let nfrac = *rng.pick(&[0usize, 0, 1, 2, 3, 5, 10, 25, 38, 40, 63, 130]);
    let dot = nfrac > 0 || rng.chance(1, 4);
    let mut ip = gen_digits(rng, nint);
    let mut fp = gen_digits(rng, nfrac);
    match rng.below(6) { 0 => ip = "0".repeat(nint), 1 => fp = "0".repeat(nfrac), 2 => { ip = format!("{}{}", "0".repeat(rng.below(4)), ip) } 3 => { fp = format!("{}{}", fp, "0".repeat(rng.below(4))) } _ => {} }
    let t = format!("{}{}{}{}", sign, ip, if dot { "." } else { "" }, fp);
    let class = if ip.is_empty() && fp.is_empty() { "digitless" } else if ip.is_empty() { "no_int_part" } else if dot && fp.is_empty() { "trailing_dot" } else if dot { "int_and_frac" } else { "int_only" };
    (t, class)
}

fn plain_decimal(t: &str) -> bool {
    let u = t.strip_prefix('+').or_else(|| t.strip_prefix('-')).unwrap_or(t);
    let mut parts = u.splitn(2, '.');
    let a = parts.next().unwrap_or("");
    let b = parts.next().unwrap_or("");
    (!a.is_empty() || !b.is_empty()) && a.bytes().all(|c| c.is_ascii_digit()) && b.bytes().all(|c| c.is_ascii_digit())
}

fn pow10(p: u32) -> bigdecimal::num_bigint::BigInt { bigdecimal::num_bigint::BigInt::from(10).pow(p) }

fn case_parse(ctx: &mut Ctx, p: u8, s: i8, text: &str, label: &str) {
    let out = parse(p, s, text);
    let mut fails = vec![];
    // referee: BigDecimal
    let expect: Option<bigdecimal::num_bigint::BigInt> = if plain_decimal(text) {
        let canon = { let u = text.trim_start_matches('+'); let u = if u.starts_with('.') { format!("0{}", u) } else if u.starts_with("-.") { format!("-0{}", &u[1..]) } else { u.to_string() }; if u.ends_with('.') { format!("{}0", u) } else { u } };
        BigDecimal::from_str(&canon).ok().map(|d| d.with_scale_round(s as i64, bigdecimal::RoundingMode::Down).as_bigint_and_exponent().0)
    } else { None };
    match (&out, &expect) {
        (Out::Ok(v), Some(e)) => if bigdecimal::num_bigint::BigInt::from(*v) != *e { fails.push(("parse_wrong_value", format!("Decimal128({},{}) {:?} stored as {} but trunc(value*10^scale) = {}", p, s, text, v, e))); }
        (Out::Ok(v), None) => fails.push(("parse_accepts_non_number", format!("Decimal128({},{}) accepts {:?} as {}", p, s, text, v))),
        (Out::Err(e), Some(x)) => { let fits = { let a = if *x < 0.into() { -x.clone() } else { x.clone() }; a < pow10(p as u32) && a <= bigdecimal::num_bigint::BigInt::from(i128::MAX) }; if fits { fails.push(("parse_rejects_representable", format!("Decimal128({},{}) rejects {:?} (= {} scaled): {}", p, s, text, x, e))); } }
        (Out::Panic(m), _) => fails.push(("panic", format!("Decimal128({},{}) parsing {:?} panics: {}", p, s, text, m))),
        _ => {}
    }
    if let Out::Ok(v) = &out { if p <= 38 && v.unsigned_abs() >= 10u128.pow(p as u32) { fails.push(("parse_exceeds_precision", format!("Decimal128({},{}) {:?} stored as {}", p, s, text, v))); } }
    ctx.count(&format!("parse:{}:{}", label, out.class()));
    let coq = format!("CParse {}%nat {} {} {}", p, cf::z(s), cf::text(text), out.coq(|v| cf::z(v)));
    let desc = json!({"kind": "parse", "precision": p, "scale": s, "text": text, "impl": match &out { Out::Ok(v) => json!({"ok": v.to_string()}), Out::Err(e) => json!({"err": e}), Out::Panic(m) => json!({"panic": m}) }});
    let idx = ctx.add_case(coq, desc, true);
    for (c, w) in fails { ctx.fail(idx, c, w); }
}

fn case_format(ctx: &mut Ctx, s: i8, v: i128, label: &str) {
    let out = format(38, s, v);
    let mut fails = vec![];
    match &out {
        Out::Ok(t) => {
            // referee: BigDecimal parses the text back to v * 10^-s
            match BigDecimal::from_str(t) {
                Ok(d) => { let want = BigDecimal::new(v.into(), s as i64); if d != want { fails.push(("format_wrong_value", format!("{} at scale {} formatted as {:?}", v, s, t))); } }
                Err(e) => fails.push(("format_not_a_number", format!("{} at scale {} formatted as {:?}: {}", v, s, t, e))),
            }
            if !plain_decimal(t) { fails.push(("format_not_plain_decimal", format!("{:?}", t))); }
            // round trip through the parser of a column wide enough
            if let Out::Ok(back) = parse(38, s, t) { if back != v && v.unsigned_abs() < 10u128.pow(38) { fails.push(("format_parse_roundtrip", format!("{} at scale {} -> {:?} -> {}", v, s, t, back))); } }
            else if v.unsigned_abs() < 10u128.pow(38) { fails.push(("format_parse_roundtrip", format!("{} at scale {} -> {:?} does not parse back", v, s, t))); }
        }
        Out::Err(e) => fails.push(("format_error", format!("{} at scale {}: {}", v, s, e))),
        Out::Panic(m) => fails.push(("panic", format!("formatting {} at scale {} panics: {}", v, s, m))),
    }
    ctx.count(&format!("format:{}:{}", label, out.class()));
    let coq = format!("CFormat {} {} {}", cf::z(v), cf::z(s), out.coq(|t| cf::text(t)));
    let desc = json!({"kind": "format", "scale": s, "value": v.to_string(), "impl": match &out { Out::Ok(t) => json!({"ok": t}), Out::Err(e) => json!({"err": e}), Out::Panic(m) => json!({"panic": m}) }});
    let idx = ctx.add_case(coq, desc, true);
    for (c, w) in fails { ctx.fail(idx, c, w); }
}

fn case_float(ctx: &mut Ctx, p: u8, s: i8, v: f64, as32: bool) {
    let (out, scaled): (Out<i128>, Option<i128>) = if as32 {
        let x = (v as f32) * 10f32.powi(s as i32);
        (float32(p, s, v as f32), if x.is_finite() && x.abs() < 1.7014118346046923e38 { Some(x as i128) } else { None })
    } else {
        let x = v * 10f64.powi(s as i32);
        (float64(p, s, v), if x.is_finite() && x.abs() < 1.7014118346046923e38 { Some(x as i128) } else { None })
    };
    let mut fails = vec![];
    match &out {
        Out::Ok(z) => {
            if p <= 38 && z.unsigned_abs() >= 10u128.pow(p as u32) { fails.push(("float_exceeds_precision", format!("Decimal128({},{}) float {:e} stored as {}", p, s, v, z))); }
            if !v.is_finite() { fails.push(("float_non_finite_accepted", format!("Decimal128({},{}) float {:?} stored as {}", p, s, v, z))); }
        }
        Out::Panic(m) => fails.push(("panic", format!("Decimal128({},{}) float {:e} panics: {}", p, s, v, m))),
        // the same precision limit as for text: a finite float whose scaled, truncated value has at most `precision` digits is accepted
        Out::Err(e) => { if let Some(z) = scaled { if v.is_finite() && (1..=38).contains(&p) && z.unsigned_abs() < 10u128.pow(p as u32) { fails.push(("float_within_precision_rejected", format!("Decimal128({},{}) float {:e} (scaled and truncated: {}) is rejected: {}", p, s, v, z, e))); } } }
    }
    ctx.count(&format!("float:{}", out.class()));
    let coq = format!("CFloat {}%nat {} {}", p, cf::option(&scaled, |z| cf::z(z)), out.coq(|z| cf::z(z)));
    let desc = json!({"kind": if as32 { "f32" } else { "f64" }, "precision": p, "scale": s, "value": format!("{:e}", v), "scaled_trunc": scaled.map(|z| z.to_string()), "impl": match &out { Out::Ok(z) => json!({"ok": z.to_string()}), Out::Err(e) => json!({"err": e}), Out::Panic(m) => json!({"panic": m}) }});
    let idx = ctx.add_case(coq, desc, true);
    for (c, w) in fails { ctx.fail(idx, c, w); }
}

pub fn run(ctx: &mut Ctx) {
    ctx.runner = "RunC15".into();
    ctx.rule = "Decimal128 string parsing (through to_marrow), float conversion and formatting (through from_marrow as String). Exhaustive part: all 38 precisions x a scale grid x a fixed numeral family, and the parameter corner pool (precision up to 255, scale -128..127). Random part: numerals with 0-260 integer and 0-130 fraction digits in every spelling class (sign, leading/trailing zeros, missing integer or fraction part, digit-less, malformed), random i128 incl. extremes at every scale for formatting, floats incl. NaN/inf/huge. Every case is non-trivial; distinct by (parameters, input, result)".into();
    let family = ["0", "1", "-1", "5", "12.5", "-12.5", "0.05", "999", "1000", "0.999", "99999.99999", "-0.0", "00012.3400", ".5", "5.", "123456789012345678901234567890123456789", "0.000000000000000000000000000000000000001", "", "-", "."];
    // exhaustive precision x scale grid on the numeral family
    let scales: Vec<i8> = if ctx.thorough { (-128..=127).collect() } else { vec![-128, -40, -5, -3, -1, 0, 1, 2, 3, 10, 37, 38, 39, 127] };
    for p in 1..=38u8 { for &s in &scales { for t in family.iter() {
        if !ctx.thorough && (p as usize + (s as i32 + 128) as usize + t.len()) % 3 != 0 { continue; }
        case_parse(ctx, p, s, t, "grid");
    } } }
    // mantissas at the boundaries of the machine integer widths and of the digit counts (2^31, 2^32, 2^63, 2^64, 2^127, 10^k - 1, 10^k
    // for k = 9, 10, 18, 19, 20, 37, 38), each +-1, in every precision that can hold them and one that cannot, with the point in
    // several places and with either sign: an implementation may parse through a narrower integer type on some path
    {
        let two = |e: u32| bigdecimal::num_bigint::BigInt::from(2).pow(e);
        let mut anchors: Vec<bigdecimal::num_bigint::BigInt> = vec![two(31), two(32), two(63), two(64), two(127)];
        for k in [9u32, 10, 18, 19, 20, 37, 38] { anchors.push(pow10(k)); }
        let mut mantissas: Vec<String> = vec![];
        for a in &anchors { for d in [-1i32, 0, 1] { let v = a + d; if v > bigdecimal::num_bigint::BigInt::from(0) { mantissas.push(v.to_string()); } } }
        for m in &mantissas {
            let nd = m.len();
            for p in [nd.saturating_sub(1).max(1), nd, (nd + 1).min(38), 38] {
                if p > 38 { continue; }
                for sc in [0usize, 1, nd / 2, nd.saturating_sub(1)] {
                    if sc >= nd && sc != 0 { continue; }
                    let text = if sc == 0 { m.clone() } else { format!("{}.{}", &m[..nd - sc], &m[nd - sc..]) };
                    for sign in ["", "-"] {
                        if !ctx.thorough && (p + sc + sign.len()) % 2 == 1 { continue; }
                        case_parse(ctx, p as u8, sc as i8, &format!("{}{}", sign, text), "width_boundary");
                    }
                }
            }
        }
    }
    // parameter corners
    for &p in &P_POOL { for &s in &S_POOL { for t in ["1", "-0.5", "", "12345678901234567890123456789012345678901234567890123456789012345678901234567890", "0.00000000000000000000000000000000000000000000000000000000000000000000001"] { case_parse(ctx, p, s, t, "corner"); } } }
    // formatting: extremes at every scale
    let vals: Vec<i128> = vec![0, 1, -1, 9, 10, -10, 12345, -12345, i128::MAX, i128::MIN, i128::MIN + 1, 10i128.pow(38) - 1, -(10i128.pow(38) - 1), 10i128.pow(38), 10i128.pow(37)];
    for s in -128..=127i32 { for (k, &v) in vals.iter().enumerate() { if ctx.thorough || (s + k as i32) % 4 == 0 || s.abs() > 120 || s.abs() < 3 { case_format(ctx, s as i8, v, "extremes"); } } }
    let n = if ctx.thorough { 60000 } else { 2500 };
    for _ in 0..n {
        let mut rng = ctx.rng.fork();
        let p = if rng.chance(4, 5) { 1 + rng.below(38) as u8 } else { *rng.pick(&P_POOL) };
        let s = if rng.chance(1, 2) { rng.range(-6, 8) as i8 } else if rng.chance(1, 2) { rng.range(-128, 127) as i8 } else { *rng.pick(&S_POOL) };
        match rng.below(10) {
            0..=5 => { let (t, class) = gen_text(&mut rng); case_parse(ctx, p, s, &t, class); }
            6 | 7 => {
                let v: i128 = match rng.below(5) { 0 => rng.range(-1000, 1000) as i128, 1 => (rng.next_u64() as i128) * (rng.next_u64() as i128 >> 1) * if rng.chance(1, 2) { -1 } else { 1 }, 2 => i128::MAX - rng.below(3) as i128, 3 => i128::MIN + rng.below(3) as i128, _ => { let d = rng.below(39) as u32; let m = 10i128.pow(d); let x = ((rng.next_u64() as u128 * rng.next_u64() as u128) % m as u128) as i128; if rng.chance(1, 2) { -x } else { x } } };
                case_format(ctx, s, v, "random");
            }
            _ => {
                let v: f64 = match rng.below(9) { 0 => f64::NAN, 1 => f64::INFINITY, 2 => f64::NEG_INFINITY, 3 => 1e30, 4 => -1e40, 5 => 1234.5, 6 => (rng.range(-100000, 100000) as f64) / 100.0, 7 => f64::from_bits(rng.next_u64()), _ => rng.range(-999, 999) as f64 };
                case_float(ctx, p, s, v, rng.chance(1, 3));
            }
        }
    }
}
