//! C14: temporal conversions vs coq/Codec/Span.v (durations) and coq/Codec/Calendar.v (dates, times, timestamps)
use crate::coqfmt::{self as cf, guarded, Out};
use crate::ctx::Ctx;
use crate::rng::Rng;
use marrow::array::Array;
use marrow::datatypes::{DataType, Field, TimeUnit};
use marrow::view::{PrimitiveView, TimeView, TimestampView, View};
use serde::{Deserialize, Serialize};
use serde_json::json;

#[derive(Serialize)]
struct ItemS<'a> { item: &'a str }
#[derive(Deserialize)]
struct ItemString { item: String }

pub const UNITS: [TimeUnit; 4] = [TimeUnit::Second, TimeUnit::Millisecond, TimeUnit::Microsecond, TimeUnit::Nanosecond];
pub fn unit_coq(u: TimeUnit) -> &'static str {
    match u { TimeUnit::Second => "Second", TimeUnit::Millisecond => "Millisecond", TimeUnit::Microsecond => "Microsecond", TimeUnit::Nanosecond => "Nanosecond" }
}
fn per_second(u: TimeUnit) -> i128 { match u { TimeUnit::Second => 1, TimeUnit::Millisecond => 1_000, TimeUnit::Microsecond => 1_000_000, TimeUnit::Nanosecond => 1_000_000_000 } }

fn field(dt: DataType) -> Field { Field { name: "item".into(), data_type: dt, nullable: false, metadata: Default::default() } }

/// write one string into a column of the given type, return the stored integer
pub fn write_str(dt: DataType, text: &str) -> Out<i64> {
    guarded(|| {
        let arrays = serde_arrow::to_marrow(&[field(dt)], &[ItemS { item: text }]).map_err(|e| e.to_string())?;
        match arrays.into_iter().next() {
            Some(Array::Duration(a)) => Ok(a.values[0]),
            Some(Array::Date32(a)) => Ok(a.values[0] as i64),
            Some(Array::Date64(a)) => Ok(a.values[0]),
            Some(Array::Time32(a)) => Ok(a.values[0] as i64),
            Some(Array::Time64(a)) => Ok(a.values[0]),
            Some(Array::Timestamp(a)) => Ok(a.values[0]),
            other => Err(format!("unexpected array {:?}", other)),
        }
    })
}

/// read one integer of a column of the given type as a String
pub fn read_str(dt: DataType, v: i64) -> Out<String> {
    guarded(|| {
        let v64 = [v];
        let v32 = [v as i32];
        let view = match &dt {
            DataType::Duration(u) => View::Duration(TimeView { unit: *u, validity: None, values: &v64 }),
            DataType::Date32 => View::Date32(PrimitiveView { validity: None, values: &v32 }),
            DataType::Date64 => View::Date64(PrimitiveView { validity: None, values: &v64 }),
            DataType::Time32(u) => View::Time32(TimeView { unit: *u, validity: None, values: &v32 }),
            DataType::Time64(u) => View::Time64(TimeView { unit: *u, validity: None, values: &v64 }),
            DataType::Timestamp(u, tz) => View::Timestamp(TimestampView { unit: *u, timezone: tz.clone(), validity: None, values: &v64 }),
            _ => return Err("unsupported".to_string()),
        };
        let items: Vec<ItemString> = serde_arrow::from_marrow(&[field(dt.clone())], &[view]).map_err(|e| e.to_string())?;
        Ok(items.into_iter().next().unwrap().item)
    })
}

// ------------------------------------------------------------------------------------------
// durations

/// independent referee: exact value of an ISO span in units of 1/10^k seconds
fn span_referee(text: &str, unit: TimeUnit) -> Option<Option<i64>> {
    // returns None if the text is not in the referee's grammar; Some(None) if it is but out of range / interval style
    let b = text.as_bytes();
    let mut i = 0;
    let mut neg = false;
    if i < b.len() && (b[i] == b'+' || b[i] == b'-') { neg = b[i] == b'-'; i += 1; }
    if i >= b.len() || !(b[i] == b'P' || b[i] == b'p') { return None; }
    i += 1;
    let mut total: i128 = 0; // seconds
    let mut frac: (i128, u32) = (0, 0);
    let mut in_time = false;
    let mut interval = false;
    let mut order = 0;
    while i < b.len() {
        if (b[i] == b'T' || b[i] == b't') && !in_time { in_time = true; i += 1; order = 10; continue; }
        let st = i;
        while i < b.len() && b[i].is_ascii_digit() { i += 1; }
        if st == i { return None; }
        let digits = &text[st..i];
        let mut fdigits = "";
        if i < b.len() && b[i] == b'.' { let fs = i + 1; i += 1; while i < b.len() && b[i].is_ascii_digit() { i += 1; } if fs == i { return None; } fdigits = &text[fs..i]; }
        if i >= b.len() { return None; }
        let c = b[i].to_ascii_uppercase(); i += 1;
        let val: Option<i128> = if digits.len() <= 30 { digits.parse::<i128>().ok() } else { None };
        let (rank, mult): (i32, i128) = match (in_time, c) { (false, b'Y') => (1, -1), (false, b'M') => (2, -1), (false, b'W') => (3, 604800), (false, b'D') => (4, 86400), (true, b'H') => (11, 3600), (true, b'M') => (12, 60), (true, b'S') => (13, 1), _ => return None };
        if rank <= order { return None; }
        order = rank;
        if !fdigits.is_empty() && c != b'S' { return None; }
        let Some(val) = val else { return Some(None) };
        if val > u64::MAX as i128 { return Some(None); }
        if mult < 0 { if val != 0 { interval = true; } } else { total += val * mult; }
        if c == b'S' && !fdigits.is_empty() { let k = fdigits.len().min(27); frac = (fdigits[..k].parse::<i128>().ok()?, k as u32); }
    }
    if interval { return Some(None); }
    let ps = per_second(unit);
    let scaled = total * ps + (frac.0 * ps) / 10i128.pow(frac.1);
    let signed = if neg { -scaled } else { scaled };
    Some(i64::try_from(signed).ok())
}

fn gen_span(rng: &mut Rng) -> (String, &'static str) {
    if rng.chance(1, 8) {
        let pool = ["", "P", "PT", "-P", "PT5", "5S", "PT.5S", "PT5.S", "PT1H2", "P1D2H", "PT1S1M", "P1Y", "P2M", "P1Y2M3DT4H", "PT-5S", "P T5S", "PT5S ", "pt5s", "P1W1D", "P1D1W", "PT1.5M", "PT5,5S", "++PT1S", "P0Y0M1D", "P00Y1D", "P1DT", "PT0S"];
        return (pool[rng.below(pool.len())].to_string(), "pool");
    }
    let big = ["0", "1", "59", "60", "999", "86400", "9223372036854775807", "9223372036854775808", "9223372036854775", "9223372036854776", "15250284452471", "15250284452472", "106751991167300", "106751991167301", "2562047788015215", "2562047788015216", "153722867280912930", "153722867280912931", "99999999999999999", "99999999999999999999"];
    let mut s = String::new();
    match rng.below(4) { 0 => s.push('-'), 1 => s.push('+'), _ => {} }
    s.push(if rng.chance(9, 10) { 'P' } else { 'p' });
    let num = |rng: &mut Rng| -> String { if rng.chance(2, 3) { rng.range(0, 1000).to_string() } else { big[rng.below(big.len())].to_string() } };
    if rng.chance(1, 4) { s.push_str(&num(rng)); s.push('W'); }
    if rng.chance(1, 3) { s.push_str(&num(rng)); s.push(if rng.chance(9, 10) { 'D' } else { 'd' }); }
    let mut class = "date_only";
    if rng.chance(4, 5) {
        s.push(if rng.chance(9, 10) { 'T' } else { 't' });
        class = "with_time";
        if rng.chance(1, 3) { s.push_str(&num(rng)); s.push('H'); }
        if rng.chance(1, 3) { s.push_str(&num(rng)); s.push('M'); }
        if rng.chance(3, 4) {
            s.push_str(&num(rng));
            if rng.chance(1, 2) {
                s.push('.');
                let k = *rng.pick(&[1usize, 2, 3, 4, 6, 8, 9, 10, 12, 18, 19, 20, 31, 40]);
                for _ in 0..k { s.push((b'0' + if rng.chance(1, 3) { 0 } else if rng.chance(1, 2) { 9 } else { rng.below(10) as u8 }) as char); }
                class = "with_fraction";
            }
            s.push(if rng.chance(9, 10) { 'S' } else { 's' });
        }
    }
    (s, class)
}

fn case_dur_parse(ctx: &mut Ctx, unit: TimeUnit, text: &str, label: &str) {
    let out = write_str(DataType::Duration(unit), text);
    let mut fails = vec![];
    match (&out, span_referee(text, unit)) {
        (Out::Ok(v), Some(Some(e))) => if *v != e { fails.push(("duration_wrong_value", format!("Duration({}) {:?} stored as {} but the span denotes {}", unit, text, v, e))); },
        (Out::Ok(v), Some(None)) => fails.push(("duration_out_of_range_accepted", format!("Duration({}) {:?} stored as {}", unit, text, v))),
        (Out::Err(e), Some(Some(x))) => fails.push(("duration_rejects_representable", format!("Duration({}) {:?} (= {}) rejected: {}", unit, text, x, e))),
        (Out::Panic(m), _) => fails.push(("panic", format!("Duration({}) parsing {:?} panics: {}", unit, text, m))),
        _ => {}
    }
    ctx.count(&format!("dur_parse:{}:{}", label, out.class()));
    let coq = format!("CDurParse {} {} {}", unit_coq(unit), cf::text(text), out.coq(|v| cf::z(v)));
    let desc = json!({"kind": "duration_parse", "unit": unit.to_string(), "text": text, "impl": out_json(&out)});
    let idx = ctx.add_case(coq, desc, true);
    for (c, w) in fails { ctx.fail(idx, c, w); }
}

fn out_json<T: std::fmt::Display>(o: &Out<T>) -> serde_json::Value {
    match o { Out::Ok(v) => json!({"ok": v.to_string()}), Out::Err(e) => json!({"err": e}), Out::Panic(m) => json!({"panic": m}) }
}

fn case_dur_format(ctx: &mut Ctx, unit: TimeUnit, v: i64, label: &str) {
    let out = read_str(DataType::Duration(unit), v);
    let mut fails = vec![];
    match &out {
        Out::Ok(t) => {
            // the string parses back (crate parser, and jiff's SignedDuration within its range) to the same value
            match write_str(DataType::Duration(unit), t) { Out::Ok(b) if b == v => {}, other => fails.push(("duration_roundtrip", format!("Duration({}) {} -> {:?} -> {}", unit, v, t, match other { Out::Ok(b) => b.to_string(), Out::Err(e) => e, Out::Panic(p) => p }))) }
            // jiff referee: its parser takes i64 components only, so the magnitude 2^63 (i64::MIN seconds) is outside its grammar
            if !(unit == TimeUnit::Second && v == i64::MIN) { match t.parse::<jiff::SignedDuration>() {
                Ok(d) => { let got = d.as_nanos() / (1_000_000_000 / per_second(unit)); if got != v as i128 { fails.push(("duration_jiff_disagrees", format!("{} -> {:?} -> jiff {}", v, t, got))); } }
                Err(e) => fails.push(("duration_jiff_rejects", format!("{} -> {:?}: {}", v, t, e))),
            } }
        }
        Out::Err(e) => fails.push(("duration_format_error", format!("Duration({}) {}: {}", unit, v, e))),
        Out::Panic(m) => fails.push(("panic", format!("Duration({}) reading {} as string panics: {}", unit, v, m))),
    }
    ctx.count(&format!("dur_format:{}:{}", label, out.class()));
    let coq = format!("CDurFormat {} {} {}", unit_coq(unit), cf::z(v), out.coq(|t| cf::text(t)));
    let desc = json!({"kind": "duration_format", "unit": unit.to_string(), "value": v, "impl": out_json(&out)});
    let idx = ctx.add_case(coq, desc, true);
    for (c, w) in fails { ctx.fail(idx, c, w); }
}

// ------------------------------------------------------------------------------------------
// dates, times, timestamps

const YEARS: [i64; 27] = [-262144, -262143, -100000, -10000, -9999, -1000, -400, -1, 0, 1, 4, 100, 400, 1582, 1600, 1677, 1900, 1969, 1970, 1971, 2000, 2024, 2038, 2100, 2262, 9999, 10000];
const YEARS_HI: [i64; 3] = [100000, 262142, 262143];

fn gen_year(rng: &mut Rng) -> i64 {
    match rng.below(4) { 0 => *rng.pick(&YEARS), 1 => if rng.chance(1, 3) { *rng.pick(&YEARS_HI) } else { rng.range(1600, 2300) }, 2 => rng.range(-3000, 3000), _ => rng.range(1950, 2050) }
}
fn gen_md(rng: &mut Rng) -> (i64, i64) {
    let m = if rng.chance(14, 15) { rng.range(1, 12) } else { *rng.pick(&[0i64, 13]) };
    let d = match rng.below(6) { 0 => *rng.pick(&[28i64, 29, 30, 31]), 1 => *rng.pick(&[0i64, 32, 1, 31, 29, 30]), _ => rng.range(1, 28) };
    (m, d)
}
fn year_str(rng: &mut Rng, y: i64) -> String {
    if y < 0 { format!("-{:0w$}", -y, w = *rng.pick(&[4usize, 4, 5, 6])) }
    else if y > 9999 { format!("+{}", y) }
    else if rng.chance(1, 6) { format!("+{:0w$}", y, w = *rng.pick(&[4usize, 5, 6])) }
    else { format!("{:04}", y) }
}
fn date_str(rng: &mut Rng, y: i64, m: i64, d: i64) -> String {
    let one = rng.chance(1, 8);
    if one { format!("{}-{}-{}", year_str(rng, y), m, d) } else { format!("{}-{:02}-{:02}", year_str(rng, y), m, d) }
}
/// returns (h, mi, s, nanos, text)
fn gen_time(rng: &mut Rng) -> (i64, i64, i64, i64, String) {
    let h = if rng.chance(19, 20) { rng.range(0, 23) } else { 24 };
    let mi = if rng.chance(19, 20) { rng.range(0, 59) } else { 60 };
    let s = match rng.below(20) { 0 => 60, 1 => 61, 2 => 59, _ => rng.range(0, 59) };
    let k = *rng.pick(&[0usize, 0, 1, 2, 3, 4, 6, 7, 9, 10, 12]);
    let digits: String = (0..k).map(|_| (b'0' + if rng.chance(1, 3) { 9 } else if rng.chance(1, 3) { 0 } else { rng.below(10) as u8 }) as char).collect();
    let mut nanos_s: String = digits.chars().take(9).collect();
    while nanos_s.len() < 9 { nanos_s.push('0'); }
    let nanos: i64 = nanos_s.parse().unwrap();
    let text = if k == 0 { format!("{:02}:{:02}:{:02}", h, mi, s) } else { format!("{:02}:{:02}:{:02}.{}", h, mi, s, digits) };
    (h, mi, s, nanos, text)
}

fn case_date_write(ctx: &mut Ctx, bits: u8, y: i64, m: i64, d: i64, text: &str) {
    let (dt, factor, lo, hi) = if bits == 32 { (DataType::Date32, 1i64, i32::MIN as i64, i32::MAX as i64) } else { (DataType::Date64, 86_400_000i64, i64::MIN, i64::MAX) };
    let out = write_str(dt, text);
    ctx.count(&format!("date{}_write:{}", bits, out.class()));
    let coq = format!("CDateW {} {} {} {} {} {} {}", cf::z(factor), cf::z(lo), cf::z(hi), cf::z(y), cf::z(m), cf::z(d), out.coq(|v| cf::z(v)));
    let desc = json!({"kind": format!("date{}_write", bits), "text": text, "fields": [y, m, d], "impl": out_json(&out)});
    let idx = ctx.add_case(coq, desc, true);
    if let Out::Panic(p) = &out { ctx.fail(idx, "panic", format!("Date{} writing {:?} panics: {}", bits, text, p)); }
}

fn case_time_write(ctx: &mut Ctx, unit: TimeUnit, h: i64, mi: i64, s: i64, nanos: i64, text: &str) {
    let (dt, lo, hi) = match unit { TimeUnit::Second | TimeUnit::Millisecond => (DataType::Time32(unit), i32::MIN as i64, i32::MAX as i64), _ => (DataType::Time64(unit), i64::MIN, i64::MAX) };
    let out = write_str(dt, text);
    ctx.count(&format!("time_write:{}", out.class()));
    let mut fails = vec![];
    if let Out::Ok(v) = &out { if *v < 0 || *v as i128 >= 86400 * per_second(unit) { fails.push(("time_out_of_day", format!("Time({}) {:?} stored as {} which is not a time of day", unit, text, v))); } }
    if let Out::Panic(p) = &out { fails.push(("panic", format!("Time({}) writing {:?} panics: {}", unit, text, p))); }
    let coq = format!("CTimeW {} {} {} {} {} {} {} {}", unit_coq(unit), cf::z(lo), cf::z(hi), cf::z(h), cf::z(mi), cf::z(s), cf::z(nanos), out.coq(|v| cf::z(v)));
    let desc = json!({"kind": "time_write", "unit": unit.to_string(), "text": text, "impl": out_json(&out)});
    let idx = ctx.add_case(coq, desc, true);
    for (c, w) in fails { ctx.fail(idx, c, w); }
}

fn case_ts_write(ctx: &mut Ctx, unit: TimeUnit, utc: bool, f: (i64, i64, i64, i64, i64, i64, i64), text: &str) {
    let dt = DataType::Timestamp(unit, if utc { Some("UTC".to_string()) } else { None });
    let out = write_str(dt, text);
    ctx.count(&format!("ts_write:{}:{}", if utc { "utc" } else { "naive" }, out.class()));
    let coq = format!("CTsW {} {} {} {} {} {} {} {} {}", unit_coq(unit), cf::z(f.0), cf::z(f.1), cf::z(f.2), cf::z(f.3), cf::z(f.4), cf::z(f.5), cf::z(f.6), out.coq(|v| cf::z(v)));
    let desc = json!({"kind": "timestamp_write", "unit": unit.to_string(), "utc": utc, "text": text, "impl": out_json(&out)});
    let idx = ctx.add_case(coq, desc, true);
    if let Out::Panic(p) = &out { ctx.fail(idx, "panic", format!("Timestamp({}) writing {:?} panics: {}", unit, text, p)); }
    // referee for RFC 3339 texts: the stored integer is chrono's instant for the text, in the column's unit
    if utc { if let (Ok(x), Out::Ok(v)) = (chrono::DateTime::parse_from_rfc3339(text), &out) {
        let x = x.with_timezone(&chrono::Utc);
        let want: Option<i128> = match unit { TimeUnit::Second => Some(x.timestamp() as i128), TimeUnit::Millisecond => Some(x.timestamp_millis() as i128), TimeUnit::Microsecond => Some(x.timestamp_micros() as i128), TimeUnit::Nanosecond => x.timestamp_nanos_opt().map(|n| n as i128) };
        if let Some(w) = want { if w != *v as i128 { ctx.fail(idx, "chrono_disagrees", format!("Timestamp({}, UTC) written from {:?} stores {} but the instant is {}", unit, text, v, w)); } }
    } }
}

fn case_read(ctx: &mut Ctx, dt: DataType, v: i64, label: &str) {
    let out = read_str(dt.clone(), v);
    ctx.count(&format!("{}_read:{}", label, out.class()));
    let mut fails = vec![];
    match &out {
        Out::Ok(t) => {
            // referees: the chrono type (and jiff within years -9999..9999) parses the string back to the same value
            let back = write_str(dt.clone(), t);
            let canonical = match &dt { DataType::Date64 => v % 86_400_000 == 0, _ => true };
            match back { Out::Ok(b) if b == v || !canonical => {}, other => fails.push(("read_write_roundtrip", format!("{:?} {} -> {:?} -> {}", dt, v, t, match other { Out::Ok(b) => b.to_string(), Out::Err(e) => e, Out::Panic(p) => p }))) }
            match &dt {
                DataType::Date32 => { match t.parse::<chrono::NaiveDate>() { Ok(d) => { if (d - chrono::NaiveDate::from_ymd_opt(1970, 1, 1).unwrap()).num_days() != v { fails.push(("chrono_disagrees", format!("Date32 {} -> {:?}", v, t))); } } Err(e) => fails.push(("chrono_rejects", format!("Date32 {} -> {:?}: {}", v, t, e))) }
                    if let Ok(d) = t.parse::<jiff::civil::Date>() { let days = (d - jiff::civil::date(1970, 1, 1)).get_days() as i64; if days != v { fails.push(("jiff_disagrees", format!("Date32 {} -> {:?} -> {}", v, t, days))); } } else if (-3_000_000..2_900_000).contains(&v) { fails.push(("jiff_rejects", format!("Date32 {} -> {:?}", v, t))); } }
                DataType::Time32(u) | DataType::Time64(u) => { match t.parse::<chrono::NaiveTime>() { Ok(x) => { use chrono::Timelike; let got = x.num_seconds_from_midnight() as i128 * per_second(*u) + x.nanosecond() as i128 / (1_000_000_000 / per_second(*u)); if got != v as i128 { fails.push(("chrono_disagrees", format!("Time({}) {} -> {:?}", u, v, t))); } } Err(e) => fails.push(("chrono_rejects", format!("Time {} -> {:?}: {}", v, t, e))) }
                    if t.parse::<jiff::civil::Time>().is_err() { fails.push(("jiff_rejects", format!("Time {} -> {:?}", v, t))); } }
                DataType::Timestamp(u, None) => { match t.parse::<chrono::NaiveDateTime>() { Ok(x) => { let x = x.and_utc(); let got: Option<i128> = match u { TimeUnit::Second => Some(x.timestamp() as i128), TimeUnit::Millisecond => Some(x.timestamp_millis() as i128), TimeUnit::Microsecond => Some(x.timestamp_micros() as i128), TimeUnit::Nanosecond => x.timestamp_nanos_opt().map(|n| n as i128) }; if got != Some(v as i128) { fails.push(("chrono_disagrees", format!("Timestamp({}) {} -> {:?} -> {:?}", u, v, t, got))); } } Err(e) => fails.push(("chrono_rejects", format!("Timestamp {} -> {:?}: {}", v, t, e))) } }
                DataType::Timestamp(u, Some(_)) => { match t.parse::<chrono::DateTime<chrono::Utc>>() { Ok(x) => { let got: Option<i128> = match u { TimeUnit::Second => Some(x.timestamp() as i128), TimeUnit::Millisecond => Some(x.timestamp_millis() as i128), TimeUnit::Microsecond => Some(x.timestamp_micros() as i128), TimeUnit::Nanosecond => x.timestamp_nanos_opt().map(|n| n as i128) }; if got != Some(v as i128) { fails.push(("chrono_disagrees", format!("Timestamp({}, UTC) {} -> {:?} -> {:?}", u, v, t, got))); } } Err(e) => fails.push(("chrono_rejects", format!("Timestamp UTC {} -> {:?}: {}", v, t, e))) }
                    if let Ok(ts) = t.parse::<jiff::Timestamp>() { let got = ts.as_nanosecond() / (1_000_000_000 / per_second(*u)); if got != v as i128 { fails.push(("jiff_disagrees", format!("Timestamp({}, UTC) {} -> {:?} -> {}", u, v, t, got))); } } }
                _ => {}
            }
        }
        Out::Err(_) => {}
        Out::Panic(p) => fails.push(("panic", format!("{:?} reading {} as string panics: {}", dt, v, p))),
    }
    let coq = match &dt {
        DataType::Date32 => format!("CDateR 1%Z {} {}", cf::z(v), out.coq(|t| cf::text(t))),
        DataType::Date64 => format!("CDateR 86400000%Z {} {}", cf::z(v), out.coq(|t| cf::text(t))),
        DataType::Time32(u) | DataType::Time64(u) => format!("CTimeR {} {} {}", unit_coq(*u), cf::z(v), out.coq(|t| cf::text(t))),
        DataType::Timestamp(u, tz) => format!("CTsR {} {} {} {}", unit_coq(*u), cf::boolean(tz.is_some()), cf::z(v), out.coq(|t| cf::text(t))),
        _ => unreachable!(),
    };
    let desc = json!({"kind": format!("{}_read", label), "data_type": format!("{:?}", dt), "value": v, "impl": out_json(&out)});
    let idx = ctx.add_case(coq, desc, true);
    for (c, w) in fails { ctx.fail(idx, c, w); }
}

fn temporal_cases(ctx: &mut Ctx) {
    // reads: extremes per type
    let ext64 = [0i64, 1, -1, i64::MAX, i64::MIN, i64::MAX - 1, i64::MIN + 1, 86_399, 86_400, -86_400, 86_400_000, -86_400_000, 86_399_999, 86_400_000_000_000 - 1, 86_400_000_000_000, 253402300799, 253402300800, -62167219200, -62167219201, 8210266876799, 8210266876800, -8334601228800, -8334601228801];
    let ext32 = [0i64, 1, -1, i32::MAX as i64, i32::MIN as i64, 95_026_236, 95_026_237, -96_465_658, -96_465_659, 2_932_896, 2_932_897, -719_528, -719_529, 86_399, 86_400, 86_399_999, 86_400_000];
    for &v in &ext32 { case_read(ctx, DataType::Date32, v, "date32"); case_read(ctx, DataType::Time32(TimeUnit::Second), v, "time"); case_read(ctx, DataType::Time32(TimeUnit::Millisecond), v, "time"); }
    for &v in &ext64 {
        case_read(ctx, DataType::Date64, v, "date64");
        case_read(ctx, DataType::Time64(TimeUnit::Microsecond), v, "time"); case_read(ctx, DataType::Time64(TimeUnit::Nanosecond), v, "time");
        for &u in &UNITS { case_read(ctx, DataType::Timestamp(u, None), v, "ts"); case_read(ctx, DataType::Timestamp(u, Some("utc".into())), v, "ts"); }
    }
    let n = if ctx.thorough { 60000 } else { 3000 };
    for _ in 0..n {
        let mut rng = ctx.rng.fork();
        match rng.below(8) {
            0 => { let y = gen_year(&mut rng); let (m, d) = gen_md(&mut rng); let t = date_str(&mut rng, y, m, d); case_date_write(ctx, if rng.chance(1, 2) { 32 } else { 64 }, y, m, d, &t); }
            1 => { let (h, mi, s, nanos, t) = gen_time(&mut rng); case_time_write(ctx, *rng.pick(&UNITS), h, mi, s, nanos, &t); }
            2 | 3 => {
                let y = gen_year(&mut rng); let (m, d) = gen_md(&mut rng); let (h, mi, s, nanos, tt) = gen_time(&mut rng);
                if s >= 60 { continue; } // leap seconds in timestamps: see DESIGN.md (observation, not checked)
                let utc = rng.chance(1, 2);
                let ds = date_str(&mut rng, y, m, d);
                let text = if utc { format!("{}{}{}{}", ds, if rng.chance(3, 4) { "T" } else { " " }, tt, if rng.chance(1, 2) { "Z" } else { "+00:00" }) } else { format!("{}T{}", ds, tt) };
                case_ts_write(ctx, *rng.pick(&UNITS), utc, (y, m, d, h, mi, s, nanos), &text);
                // the same instant written with a NON-ZERO offset into a UTC column: the stored integer is that of the instant, not of
                // the local wall clock (the text is the local time of the offset, computed with chrono from the UTC fields)
                if utc && (1..=9999).contains(&y) {
                    if let Some(ndt) = chrono::NaiveDate::from_ymd_opt(y as i32, m as u32, d as u32).and_then(|x| x.and_hms_nano_opt(h as u32, mi as u32, s as u32, nanos as u32)) {
                        let off = *rng.pick(&[330i64, -480, 60, -1, 840, -720]);
                        if let Some(local) = ndt.checked_add_signed(chrono::Duration::minutes(off)) {
                            use chrono::Datelike;
                            if (1..=9999).contains(&local.year()) {
                                let text = format!("{}{}{:02}:{:02}", local.format("%Y-%m-%dT%H:%M:%S%.f"), if off < 0 { '-' } else { '+' }, off.abs() / 60, off.abs() % 60);
                                case_ts_write(ctx, *rng.pick(&UNITS), true, (y, m, d, h, mi, s, nanos), &text);
                            }
                        }
                    }
                }
            }
            4 => { let v = match rng.below(3) { 0 => rng.range(-800_000, 3_000_000), 1 => rng.range(-100_000_000, 100_000_000), _ => rng.range(i32::MIN as i64, i32::MAX as i64) }; case_read(ctx, DataType::Date32, v, "date32"); }
            5 => { let v = match rng.below(3) { 0 => rng.range(-800_000, 3_000_000) * 86_400_000, 1 => rng.range(-100_000_000, 100_000_000) * 86_400_000 + if rng.chance(1, 4) { rng.range(-86_399_999, 86_399_999) } else { 0 }, _ => rng.next_u64() as i64 }; case_read(ctx, DataType::Date64, v, "date64"); }
            6 => { let u = *rng.pick(&UNITS); let day = 86400 * per_second(u) as i64; let v = match rng.below(5) { 0 => rng.range(-5, 5), 1 => day + rng.range(-3, 3), 2 => rng.next_u64() as i64 >> 20, _ => rng.range(0, day - 1) };
                   let dt = match u { TimeUnit::Second | TimeUnit::Millisecond => DataType::Time32(u), _ => DataType::Time64(u) };
                   if matches!(dt, DataType::Time32(_)) && (v > i32::MAX as i64 || v < i32::MIN as i64) { continue; }
                   case_read(ctx, dt, v, "time"); }
            _ => { let u = *rng.pick(&UNITS); let v = match rng.below(4) { 0 => rng.range(-4_000_000_000, 4_000_000_000) * per_second(u) as i64 + rng.range(0, per_second(u) as i64 - 1).max(0), 1 => rng.next_u64() as i64, 2 => (rng.next_u64() as i64) >> rng.below(40), _ => rng.range(-1000, 1000) };
                   case_read(ctx, DataType::Timestamp(u, if rng.chance(1, 2) { Some("UTC".into()) } else { None }), v, "ts"); }
        }
    }
}

pub fn run(ctx: &mut Ctx) {
    ctx.runner = "RunC14".into();
    ctx.rule = "durations: ISO-8601 spans (week/day/hour/minute/second parts, 0-40 sub-second digits, signs, both letter cases, boundary magnitudes around i64 limits per unit, malformed pool) written to Duration(unit) for all four units, and i64 values incl. extremes read back as strings (parsed back by the crate and by jiff); every case non-trivial; distinct by (unit, input, result)".into();
    let extremes = [0i64, 1, -1, 999, 1000, -1000, 1_000_000_007, -1_000_000_007, i64::MAX, i64::MIN, i64::MIN + 1, i64::MAX - 1, 86_400_000_000_000, -86_400_000_000_001];
    for &u in &UNITS { for &v in &extremes { case_dur_format(ctx, u, v, "extremes"); } }
    for &u in &UNITS { for t in ["PT9223372036854775807S", "-PT9223372036854775808S", "PT9223372036854775.807S", "PT9223372036854775.808S", "-PT9223372036854775.808S", "-PT9223372036854775.809S", "PT9223372036.854775807S", "PT9223372036.854775808S", "-PT9223372036.854775808S", "P15250284452471W", "P15250284452472W", "P99999999999999999W", "PT0.0000000000000000000000000000001S", "PT1.9999999999999999999999999999999S", "PT9223372036854775.999S", "PT2562047788015215H30M7S", "PT2562047788015215H30M8S"] { case_dur_parse(ctx, u, t, "boundary"); } }
    let n = if ctx.thorough { 60000 } else { 3000 };
    for _ in 0..n {
        let mut rng = ctx.rng.fork();
        let u = *rng.pick(&UNITS);
        if rng.chance(2, 3) {
            let (t, class) = gen_span(&mut rng);
            case_dur_parse(ctx, u, &t, class);
        } else {
            let v = match rng.below(4) { 0 => rng.range(-100000, 100000), 1 => rng.next_u64() as i64, 2 => (rng.next_u64() >> rng.below(63)) as i64, _ => -((rng.next_u64() >> rng.below(63)) as i64) };
            case_dur_format(ctx, u, v, "random");
        }
    }
    temporal_cases(ctx);
}
