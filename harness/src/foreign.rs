//! Foreign but equivalent layouts of the crate's own arrays: every dense union with its children in the reverse order
//! (type ids renumbered 0..n, the type id column remapped). Children are identified by NAME, so a reader must return the
//! same values as for the layout the crate's writer produces (which always follows the declaration order).
use marrow::array::*;
use marrow::datatypes::{DataType, Field};

pub fn rev_field(f: &Field) -> Field {
    use DataType as T;
    let dt = match &f.data_type {
        T::Union(fs, mode) => T::Union(fs.iter().rev().enumerate().map(|(i, (_, c))| (i as i8, rev_field(c))).collect(), *mode),
        T::Struct(fs) => T::Struct(fs.iter().map(rev_field).collect()),
        T::List(c) => T::List(Box::new(rev_field(c))), T::LargeList(c) => T::LargeList(Box::new(rev_field(c))),
        T::FixedSizeList(c, n) => T::FixedSizeList(Box::new(rev_field(c)), *n),
        T::Map(e, s) => T::Map(Box::new(rev_field(e)), *s),
        other => other.clone(),
    };
    Field { name: f.name.clone(), data_type: dt, nullable: f.nullable, metadata: f.metadata.clone() }
}

pub fn rev_array(a: &Array) -> Array {
    use Array as A;
    match a {
        A::Union(u) => { let n = u.fields.len() as i8;
            A::Union(UnionArray { types: u.types.iter().map(|t| n - 1 - *t).collect(), offsets: u.offsets.clone(),
                fields: u.fields.iter().rev().enumerate().map(|(i, (_, m, c))| (i as i8, m.clone(), rev_array(c))).collect() }) }
        A::Struct(s) => A::Struct(StructArray { len: s.len, validity: s.validity.clone(), fields: s.fields.iter().map(|(m, c)| (m.clone(), rev_array(c))).collect() }),
        A::List(l) => A::List(ListArray { validity: l.validity.clone(), offsets: l.offsets.clone(), meta: l.meta.clone(), elements: Box::new(rev_array(&l.elements)) }),
        A::LargeList(l) => A::LargeList(ListArray { validity: l.validity.clone(), offsets: l.offsets.clone(), meta: l.meta.clone(), elements: Box::new(rev_array(&l.elements)) }),
        A::FixedSizeList(l) => A::FixedSizeList(FixedSizeListArray { len: l.len, n: l.n, validity: l.validity.clone(), meta: l.meta.clone(), elements: Box::new(rev_array(&l.elements)) }),
        A::Map(m) => A::Map(MapArray { validity: m.validity.clone(), offsets: m.offsets.clone(), meta: m.meta.clone(), keys: Box::new(rev_array(&m.keys)), values: Box::new(rev_array(&m.values)) }),
        other => other.clone(),
    }
}

pub fn has_union(f: &Field) -> bool {
    use DataType as T;
    match &f.data_type {
        T::Union(_, _) => true,
        T::Struct(fs) => fs.iter().any(has_union),
        T::List(c) | T::LargeList(c) | T::FixedSizeList(c, _) | T::Map(c, _) => has_union(c),
        _ => false,
    }
}
