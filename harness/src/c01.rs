//! C01 / C03: serialization against generated schemas; the arrays are dumped as Coq terms and
//! judged by the specification (decode / wf_arr / interp) and compared with the builder model.
use crate::arrgen::{self, Inject, Val};
use crate::coqfmt::{self as cf, guarded, Out};
use crate::ctx::Ctx;
use marrow::array::Array;
use marrow::datatypes::Field;
use serde_json::json;

pub fn ser_case(ctx: &mut Ctx, fields: &[Field], rows: &[Val], label: &str, injected: Option<String>) -> usize { ser_case_after(ctx, fields, None, rows, label, injected) }

/// the rows are the batch judged; with `earlier` they are pushed into an ArrayBuilder that has
/// already produced a batch from the earlier rows (state carried across batches must not leak)
pub fn ser_case_after(ctx: &mut Ctx, fields: &[Field], earlier: Option<&[Val]>, rows: &[Val], label: &str, injected: Option<String>) -> usize {
    let out: Out<Vec<Array>> = match earlier {
        None => guarded(|| serde_arrow::to_marrow(fields, rows).map_err(|e| e.to_string())),
        Some(first) => guarded(|| { let mut b = serde_arrow::ArrayBuilder::from_marrow(fields).map_err(|e| e.to_string())?; b.extend(first).map_err(|e| format!("earlier batch: {}", e))?; b.to_marrow().map_err(|e| e.to_string())?; b.extend(rows).map_err(|e| e.to_string())?; b.to_marrow().map_err(|e| e.to_string()) }),
    };
    if earlier.is_some() { ctx.count(&format!("after_an_earlier_batch:{}", out.class())); }
    ctx.count(&format!("{}:{}", label, out.class()));
    if let Some(w) = &injected { ctx.count(&format!("injected:{}:{}", w, out.class())); }
    let coq = format!("{{| c_fields := {}; c_rows := {}; c_impl := {} |}}",
        cf::list(fields, arrgen::field_coq), cf::list(rows, arrgen::val_coq), out.coq(|a| cf::list(a, arrgen::array_coq)));
    let desc = json!({"fields": format!("{:?}", fields.iter().map(|f| (&f.name, &f.data_type, f.nullable)).collect::<Vec<_>>()), "rows": format!("{:?}", rows), "injected": injected, "earlier_batch": earlier.map(|e| format!("{:?}", e)),
        "impl": match &out { Out::Ok(a) => json!({"ok": format!("{:?}", a)}), Out::Err(e) => json!({"err": e}), Out::Panic(p) => json!({"panic": p}) }});
    let nontrivial = fields.iter().any(|f| matches!(f.data_type, marrow::datatypes::DataType::Struct(_) | marrow::datatypes::DataType::List(_) | marrow::datatypes::DataType::LargeList(_) | marrow::datatypes::DataType::Map(..) | marrow::datatypes::DataType::Union(..) | marrow::datatypes::DataType::FixedSizeList(..) | marrow::datatypes::DataType::Dictionary(..))) || !matches!(out, Out::Ok(_));
    let idx = ctx.add_case(coq, desc, nontrivial);
    if let Out::Panic(p) = &out { ctx.fail(idx, "panic", format!("to_marrow panics: {}", p)); }
    if let Out::Ok(arrays) = &out {
        // referees for C03: the array's own data type equals the field's (child names, nullability, metadata, parameters);
        // arrow-rs accepts the converted array (validate_full)
        for (f, a) in fields.iter().zip(arrays.iter()) {
            if a.data_type() != f.data_type { ctx.fail(idx, "data_type_differs", format!("field {:?}: array has {:?}, field declares {:?}", f.name, a.data_type(), f.data_type)); }
            let conv = guarded(|| arrow_array::ArrayRef::try_from(a.clone()).map_err(|e| e.to_string()));
            match conv {
                Out::Ok(ar) => { if let Err(e) = arrow_array::Array::to_data(&*ar).validate_full() { ctx.fail(idx, "arrow_validate_full", format!("field {:?}: {}", f.name, e)); } }
                Out::Err(e) => ctx.fail(idx, "arrow_conversion_rejects", format!("field {:?}: {}", f.name, e)),
                Out::Panic(p) => ctx.fail(idx, "arrow_conversion_panics", format!("field {:?}: {}", f.name, p)),
            }
        }
    }
    if let (Some(w), Out::Ok(_)) = (&injected, &out) { ctx.fail(idx, "invalid_value_accepted", format!("injected {} but serialization succeeded", w)); }
    idx
}

pub fn run(ctx: &mut Ctx) {
    ctx.runner = "RunC01".into();
    ctx.shard_size = 120;
    ctx.rule = "random schemas (1-3 top-level fields, depth <= 3, all supported data types, nullable or not) x 0-17 rows (a quarter of the batches after an earlier batch of the same reused ArrayBuilder) in random presentations (integer widths, str/char/number into strings, bytes vs sequences, struct vs map vs tuple records, enum variants, Option/newtype layers, permuted/absent/extra fields); ~20% of the cases carry one injected invalid value (out of range, null into non-nullable, missing/duplicate field, wrong fixed count, unknown variant, wrong kind). Non-trivial = schema has a container or the outcome is not Ok; distinct by (schema, rows, result)".into();
    let n = if ctx.thorough { 20000 } else { 1200 };
    for i in 0..n {
        let mut rng = ctx.rng.fork();
        // the second half of the stream stays inside the builder model (Boolean, integers, floats, temporal kinds, strings, lists, structs)
        arrgen::CORE_ONLY.store(i >= n / 2, std::sync::atomic::Ordering::Relaxed);
        let fields = arrgen::gen_schema(&mut rng);
        let nrows = *rng.pick(&[0usize, 1, 1, 2, 3, 7, 8, 9, 17]);
        let inject = rng.chance(1, 5) && nrows > 0;
        let mut inj = Inject { countdown: if inject { rng.below(nrows * 3) as i32 } else { -1 }, what: None };
        let rows: Vec<Val> = (0..nrows).map(|_| arrgen::gen_record(&mut rng, &fields, &mut inj)).collect();
        // a quarter of the batches is produced by a builder that has already delivered a batch of valid rows
        let earlier: Option<Vec<Val>> = if rng.chance(1, 4) { let k = 1 + rng.below(3); let mut none = Inject { countdown: -1, what: None }; let first: Vec<Val> = (0..k).map(|_| arrgen::gen_record(&mut rng, &fields, &mut none)).collect();
            if serde_arrow::to_marrow(&fields, &first).is_ok() { Some(first) } else { None } } else { None };
        ser_case_after(ctx, &fields, earlier.as_deref(), &rows, if i >= n / 2 { "core" } else { "random" }, inj.what.clone());
    }
    arrgen::CORE_ONLY.store(false, std::sync::atomic::Ordering::Relaxed);
}
