//! C16: every public entry point on the adversarial remainder of its input space, under
//! catch_unwind (overflow checks and debug assertions are on in this build) with a per-call time
//! limit: extreme integers in temporal and decimal columns read as strings, zero-sized fixed types,
//! tuples longer or shorter than their struct, huge span components, extreme precision / scale,
//! empty and 128-variant unions, recursive and very deep types handed to tracing, inconsistent
//! serde call sequences (value without key, end without start, wrong element counts).
use crate::arrgen::{Val, IK};
use crate::coqfmt::{self as cf, guarded, Out};
use crate::ctx::Ctx;
use crate::probe::AnyProbe;
use marrow::array::*;
use marrow::datatypes::{DataType, Field, TimeUnit, UnionMode};
use serde::de::DeserializeSeed;
use serde::ser::{SerializeMap, SerializeSeq, SerializeStruct, SerializeTuple};
use serde::{Deserialize, Serialize};
use serde_arrow::schema::{SchemaLike, TracingOptions};
use serde_arrow::utils::Item;
use serde_json::json;
use std::time::Instant;

fn mk(name: &str, dt: DataType, nullable: bool) -> Field { Field { name: name.to_string(), data_type: dt, nullable, metadata: Default::default() } }

fn attempt<T, F: FnOnce() -> Result<T, String>>(ctx: &mut Ctx, group: &str, what: String, f: F) {
    let t0 = Instant::now();
    let r = guarded(f);
    let secs = t0.elapsed().as_secs_f64();
    ctx.count(&format!("{}:{}", group, r.class()));
    let panicked = matches!(r, Out::Panic(_));
    let slow = secs > 5.0;
    let coq = format!("{{| c_what := {}; c_panicked := {}; c_slow := {} |}}", cf::text(group), cf::boolean(panicked), cf::boolean(slow));
    let idx = ctx.add_case(coq, json!({"group": group, "what": what, "outcome": match &r { Out::Ok(_) => "ok".to_string(), Out::Err(e) => format!("err: {}", e), Out::Panic(p) => format!("panic: {}", p) }, "seconds": secs}), true);
    if let Out::Panic(p) = &r {
        let class = if group == "zero_sized:to_arrow_fixed_size_list" && p.contains("remainder with a divisor of zero") { "marrow_fixed_size_list_zero" } else { "panic" };
        ctx.fail(idx, class, format!("{}: {} panics: {}", group, what, p));
    }
    if slow { ctx.fail(idx, "hang", format!("{}: {} took {:.1} s", group, what, secs)); }
}

fn read_all(field: &Field, arr: &Array) -> Result<usize, String> {
    let view = arr.as_view();
    let strings = serde_arrow::from_marrow::<Vec<Item<Option<String>>>>(std::slice::from_ref(field), std::slice::from_ref(&view));
    let de = serde_arrow::Deserializer::from_marrow(std::slice::from_ref(field), std::slice::from_ref(&view)).map_err(|e| e.to_string())?;
    let mut n = 0;
    for item in &de { let _ = AnyProbe { dt: None }.deserialize(item); n += 1; }
    strings.map(|v| v.len() + n).map_err(|e| e.to_string())
}

// inconsistent serde call sequences
struct ValueWithoutKey(usize);
impl Serialize for ValueWithoutKey {
    fn serialize<S: serde::Serializer>(&self, s: S) -> Result<S::Ok, S::Error> {
        let mut m = s.serialize_map(Some(2))?;
        match self.0 {
            0 => { m.serialize_value(&1i32)?; }
            1 => { m.serialize_key("a")?; m.serialize_value(&1i32)?; m.serialize_value(&2i32)?; }
            2 => { m.serialize_key("b")?; m.serialize_value(&1i32)?; m.serialize_value(&2i32)?; m.serialize_value(&3i32)?; }
            3 => { m.serialize_key("a")?; m.serialize_key("b")?; m.serialize_value(&1i32)?; }
            _ => { m.serialize_key(&1i32)?; m.serialize_value(&1i32)?; }
        }
        m.end()
    }
}
struct WrongCounts(usize);
impl Serialize for WrongCounts {
    fn serialize<S: serde::Serializer>(&self, s: S) -> Result<S::Ok, S::Error> {
        match self.0 {
            0 => { let mut t = s.serialize_tuple(1)?; t.serialize_element(&1i32)?; t.serialize_element(&2i32)?; t.serialize_element(&3i32)?; t.serialize_element(&4i32)?; t.end() }
            1 => { let t = s.serialize_tuple(5)?; t.end() }
            2 => { let mut q = s.serialize_struct("S", 0)?; q.serialize_field("a", &1i32)?; q.serialize_field("a", &2i32)?; q.serialize_field("zzz", &3i32)?; q.end() }
            3 => { let q = s.serialize_seq(Some(100))?; q.end() }
            _ => { let mut q = s.serialize_seq(None)?; for i in 0..3 { q.serialize_element(&i)?; } q.end() }
        }
    }
}
struct HugeVariant(u32);
impl Serialize for HugeVariant { fn serialize<S: serde::Serializer>(&self, s: S) -> Result<S::Ok, S::Error> { s.serialize_unit_variant("E", self.0, "V") } }

#[derive(Serialize, Deserialize)] struct Rec { next: Option<Box<Rec>>, v: i32 }
#[derive(Serialize, Deserialize)] enum RecEnum { Leaf, Node(Box<RecEnum>, Box<RecEnum>) }
#[derive(Serialize, Deserialize)] struct Deep { v: Vec<Vec<Vec<Vec<Vec<Vec<Vec<Vec<Vec<Vec<Vec<Vec<Vec<Vec<Vec<Vec<Vec<Vec<Vec<Vec<Vec<Vec<Vec<Vec<Vec<i8>>>>>>>>>>>>>>>>>>>>>>>>> }
#[derive(Serialize, Deserialize)] struct Mutual { a: Option<Box<MutualB>> }
#[derive(Serialize, Deserialize)] struct MutualB { b: Vec<Mutual> }
#[derive(Serialize, Deserialize)] struct EmptyStruct {}
#[derive(Serialize, Deserialize)] enum EmptyEnum {}
#[derive(Serialize, Deserialize)] struct WithEmpty { e: Option<EmptyEnum>, u: (), s: EmptyStruct }

pub fn run(ctx: &mut Ctx) {
    ctx.runner = "RunC16".into();
    ctx.shard_size = 400;
    ctx.rule = "adversarial pool per policed spot, every call under catch_unwind (overflow checks on) with a 5 s limit: i32/i64/i128 extremes (MIN, MIN+1, -1, 0, 1, MAX-1, MAX) stored in Date32/Date64/Time32/Time64/Timestamp(4 units, none/UTC)/Duration(4 units)/Decimal128(precision 1/38 x scale -128/-1/0/1/127) read as strings and through deserialize_any; FixedSizeBinary(0) and FixedSizeList(_, 0) through to_marrow / to_arrow / to_record_batch / ArrayBuilder / from_marrow; tuples and tuple structs shorter and longer than the struct; span strings with 10^19-week components, 31-digit fractions, i64 extremes in every unit; Decimal128 with precision 0/39/255 and scale +-128 written from strings and floats; empty, 127- and 128-variant unions; recursive, mutually recursive, 25-deep and empty types through from_type with budgets 0/1/100/10000; inconsistent serde call sequences (value without key, extra values, key without value, non-string key, tuple longer than announced, struct field twice, sequence shorter than announced) through to_marrow, ArrayBuilder, from_samples; unit variants with index 10^6; reused ArrayBuilders: every leaf type (38) below every kind of parent, three batches of valid rows with an empty build in between, via to_marrow and to_arrow. Non-trivial: all; distinct by (group, input, outcome)".into();
    // 1. extremes read as strings
    let i32s = [i32::MIN, i32::MIN + 1, -1, 0, 1, i32::MAX - 1, i32::MAX];
    let i64s = [i64::MIN, i64::MIN + 1, -1, 0, 1, i64::MAX - 1, i64::MAX, -62135596800000, 253402300800000, 8210298412799999];
    let i128s = [i128::MIN, i128::MIN + 1, -1, 0, 1, i128::MAX - 1, i128::MAX, 10i128.pow(38), -(10i128.pow(38))];
    let units = [TimeUnit::Second, TimeUnit::Millisecond, TimeUnit::Microsecond, TimeUnit::Nanosecond];
    let mut cols: Vec<(Field, Array)> = vec![];
    cols.push((mk("item", DataType::Date32, true), Array::Date32(PrimitiveArray { validity: None, values: i32s.to_vec() })));
    cols.push((mk("item", DataType::Date64, true), Array::Date64(PrimitiveArray { validity: None, values: i64s.to_vec() })));
    for u in [TimeUnit::Second, TimeUnit::Millisecond] { cols.push((mk("item", DataType::Time32(u), true), Array::Time32(TimeArray { unit: u, validity: None, values: i32s.to_vec() }))); }
    for u in [TimeUnit::Microsecond, TimeUnit::Nanosecond] { cols.push((mk("item", DataType::Time64(u), true), Array::Time64(TimeArray { unit: u, validity: None, values: i64s.to_vec() }))); }
    for u in units { for tz in [None, Some("UTC".to_string()), Some("utc".to_string())] { cols.push((mk("item", DataType::Timestamp(u, tz.clone()), true), Array::Timestamp(TimestampArray { unit: u, timezone: tz, validity: None, values: i64s.to_vec() }))); } }
    for u in units { cols.push((mk("item", DataType::Duration(u), true), Array::Duration(TimeArray { unit: u, validity: None, values: i64s.to_vec() }))); }
    for p in [1u8, 38] { for s in [-128i8, -1, 0, 1, 24, 127] { cols.push((mk("item", DataType::Decimal128(p, s), true), Array::Decimal128(DecimalArray { precision: p, scale: s, validity: None, values: i128s.to_vec() }))); } }
    for (f, a) in &cols { attempt(ctx, "extremes_as_strings", format!("{:?}", f.data_type), || read_all(f, a)); }
    // 2. zero-sized fixed types
    let fsb0 = mk("c", DataType::FixedSizeBinary(0), true);
    let fsl0 = mk("c", DataType::FixedSizeList(Box::new(mk("element", DataType::Int8, false)), 0), true);
    for (name, f, rows) in [("fixed_size_binary", &fsb0, vec![Val::Bytes(vec![]), Val::None, Val::Seq(vec![])]), ("fixed_size_list", &fsl0, vec![Val::Seq(vec![]), Val::None, Val::Tuple(vec![])])] {
        for k in 0..=rows.len() {
            let recs: Vec<Val> = rows[..k].iter().map(|v| Val::Struct(vec![("c".into(), v.clone())], 0)).collect();
            attempt(ctx, &format!("zero_sized:to_marrow_{}", name), format!("{} rows", k), || serde_arrow::to_marrow(std::slice::from_ref(f), &recs).map(|a| a.len()).map_err(|e| e.to_string()));
            attempt(ctx, &format!("zero_sized:roundtrip_{}", name), format!("{} rows", k), || { let a = serde_arrow::to_marrow(std::slice::from_ref(f), &recs).map_err(|e| e.to_string())?; read_all(f, &a[0]) });
            let af = std::sync::Arc::new(arrow_schema::Field::try_from(f).map_err(|e| e.to_string()).unwrap());
            attempt(ctx, &format!("zero_sized:to_arrow_{}", name), format!("{} rows", k), || serde_arrow::to_arrow(&[af.clone()], &recs).map(|a| a.len()).map_err(|e| e.to_string()));
            attempt(ctx, &format!("zero_sized:to_record_batch_{}", name), format!("{} rows", k), || serde_arrow::to_record_batch(&[af.clone()], &recs).map(|b| b.num_rows()).map_err(|e| e.to_string()));
            if let Ok(f2) = arrow2::datatypes::Field::try_from(f) { attempt(ctx, &format!("zero_sized:to_arrow2_{}", name), format!("{} rows", k), || serde_arrow::to_arrow2(std::slice::from_ref(&f2), &recs).map(|a| a.len()).map_err(|e| e.to_string())); }
        }
    }
    attempt(ctx, "zero_sized:view_n0_with_data", "FixedSizeBinary(0) view with 3 data bytes".into(), || read_all(&fsb0, &Array::FixedSizeBinary(FixedSizeBinaryArray { n: 0, validity: None, data: vec![1, 2, 3] })));
    attempt(ctx, "zero_sized:view_negative_n", "FixedSizeBinary(-1) view".into(), || read_all(&mk("c", DataType::FixedSizeBinary(-1), true), &Array::FixedSizeBinary(FixedSizeBinaryArray { n: -1, validity: None, data: vec![1, 2, 3] })));
    // 3. tuples longer / shorter than the struct
    let st = mk("c", DataType::Struct(vec![mk("a", DataType::Int8, false), mk("b", DataType::Utf8, true)]), true);
    for n in 0..6usize {
        let elems: Vec<Val> = (0..n).map(|i| if i == 1 { Val::Str("x".into()) } else { Val::Int(IK::I8, i as i128) }).collect();
        for v in [Val::Tuple(elems.clone()), Val::TupleStruct(elems.clone())] {
            attempt(ctx, "tuple_vs_struct", format!("{} elements into a 2-field struct: {:?}", n, v), || serde_arrow::to_marrow(std::slice::from_ref(&st), &[Val::Struct(vec![("c".into(), v.clone())], 0)]).map(|a| a.len()).map_err(|e| e.to_string()));
            attempt(ctx, "tuple_vs_struct:top_level", format!("{} elements as the record itself", n), || serde_arrow::to_marrow(&[mk("a", DataType::Int8, false), mk("b", DataType::Utf8, true)], &[v.clone()]).map(|a| a.len()).map_err(|e| e.to_string()));
        }
    }
    // 3b. instants far from the epoch written as TEXT into every timestamp unit (the nanosecond range ends in 1677 / 2262, chrono's own
    // range at the years -262143 / +262142) and into the date columns: an error or an exact value, never an overflow
    {
        let texts = ["2300-01-01T00:00:00", "1500-01-01T00:00:00", "2262-04-11T23:47:16.854775807", "2262-04-11T23:47:16.854775808", "2262-04-12T00:00:00", "1677-09-21T00:12:43.145224192",
            "1677-09-21T00:12:43.145224191", "1677-09-20T00:00:00", "9999-12-31T23:59:59.999999999", "0000-01-01T00:00:00", "-0001-12-31T23:59:59", "+262142-12-31T23:59:59.999999999", "-262143-01-01T00:00:00",
            "+10000-01-01T00:00:00", "292277026596-12-04T15:30:07", "1970-01-01T00:00:00"];
        for u in units { for tz in [None, Some("UTC".to_string())] {
            let f = mk("c", DataType::Timestamp(u, tz.clone()), false);
            for t in texts {
                let t = if tz.is_some() { format!("{}Z", t) } else { t.to_string() };
                attempt(ctx, "far_instants_as_text", format!("{:?} <- {:?}", f.data_type, t), || serde_arrow::to_marrow(std::slice::from_ref(&f), &[Val::Struct(vec![("c".into(), Val::Str(t.clone()))], 0)]).map(|a| a.len()).map_err(|e| e.to_string()));
            }
        } }
        for dt in [DataType::Date32, DataType::Date64] {
            let f = mk("c", dt, false);
            for t in ["+262142-12-31", "-262143-01-01", "9999-12-31", "0000-01-01", "-0001-12-31", "+5881580-07-11", "-5877641-06-23", "+10000-01-01"] {
                attempt(ctx, "far_instants_as_text", format!("{:?} <- {:?}", f.data_type, t), || serde_arrow::to_marrow(std::slice::from_ref(&f), &[Val::Struct(vec![("c".into(), Val::Str(t.to_string()))], 0)]).map(|a| a.len()).map_err(|e| e.to_string()));
            }
        }
    }
    // 4. spans
    for u in units {
        let f = mk("c", DataType::Duration(u), false);
        for s in ["P99999999999999999999W", "P18446744073709551615W", "P18446744073709551616D", "PT0.0000000000000000000000000000001S", "PT9223372036854775807S", "PT9223372036854775808S", "-PT9223372036854775808S", "PT9223372036854775.999S", "PT18446744073709551615H18446744073709551615M18446744073709551615S", "P1W1D", "-P106751991167300DT15H30M7.999999999S", "PT0S", "pt1s", "+PT1S"] {
            attempt(ctx, "huge_spans", format!("{:?} <- {:?}", u, s), || serde_arrow::to_marrow(std::slice::from_ref(&f), &[Val::Struct(vec![("c".into(), Val::Str(s.to_string()))], 0)]).map(|a| a.len()).map_err(|e| e.to_string()));
        }
    }
    // 5. extreme precision / scale
    for p in [0u8, 1, 38, 39, 64, 65, 255] { for s in [-128i8, -127, -39, -1, 0, 1, 38, 62, 127] {
        let f = mk("c", DataType::Decimal128(p, s), true);
        for v in [Val::Str("1".into()), Val::Str("-1.5".into()), Val::Str("99999999999999999999999999999999999999".into()), Val::Str("0.00000000000000000000000000000000000001".into()), Val::F64(1.5f64.to_bits()), Val::F64(f64::MAX.to_bits()), Val::F32(f32::MIN_POSITIVE.to_bits())] {
            attempt(ctx, "extreme_decimal_parameters", format!("Decimal128({}, {}) <- {:?}", p, s, v), || serde_arrow::to_marrow(std::slice::from_ref(&f), &[Val::Struct(vec![("c".into(), v.clone())], 0)]).map(|a| a.len()).map_err(|e| e.to_string()));
        }
    } }
    // 6. unions
    for n in [0usize, 1, 127, 128, 129] {
        let f = mk("c", DataType::Union((0..n).map(|i| ((i % 128) as i8, mk(&format!("V{}", i), DataType::Null, true))).collect(), UnionMode::Dense), false);
        for idx in [0u32, 1, 126, 127, 128, 255, u32::MAX] {
            attempt(ctx, "union_sizes", format!("{} variants, variant index {}", n, idx), || serde_arrow::to_marrow(std::slice::from_ref(&f), &[Val::Struct(vec![("c".into(), Val::UnitVariant(idx, format!("V{}", idx)))], 0)]).map(|a| a.len()).map_err(|e| e.to_string()));
        }
        attempt(ctx, "union_sizes:empty_batch", format!("{} variants, no rows", n), || { let a = serde_arrow::to_marrow(std::slice::from_ref(&f), &Vec::<Val>::new()).map_err(|e| e.to_string())?; read_all(&f, &a[0]) });
    }
    // 7. tracing of recursive / deep / empty types
    for budget in [0usize, 1, 100, 10000] {
        let o = || TracingOptions::default().from_type_budget(budget).allow_null_fields(true);
        attempt(ctx, "from_type:recursive", format!("Rec, budget {}", budget), || Vec::<Field>::from_type::<Rec>(o()).map(|f| f.len()).map_err(|e| e.to_string()));
        attempt(ctx, "from_type:recursive", format!("RecEnum, budget {}", budget), || Vec::<Field>::from_type::<Item<RecEnum>>(o()).map(|f| f.len()).map_err(|e| e.to_string()));
        attempt(ctx, "from_type:recursive", format!("Mutual, budget {}", budget), || Vec::<Field>::from_type::<Mutual>(o()).map(|f| f.len()).map_err(|e| e.to_string()));
        attempt(ctx, "from_type:deep", format!("25 nested Vecs, budget {}", budget), || Vec::<Field>::from_type::<Deep>(o()).map(|f| f.len()).map_err(|e| e.to_string()));
        attempt(ctx, "from_type:empty", format!("empty struct / enum / unit, budget {}", budget), || Vec::<Field>::from_type::<WithEmpty>(o()).map(|f| f.len()).map_err(|e| e.to_string()));
        attempt(ctx, "from_type:empty", format!("EmptyStruct, budget {}", budget), || Vec::<Field>::from_type::<EmptyStruct>(o()).map(|f| f.len()).map_err(|e| e.to_string()));
    }
    let rec = Rec { next: Some(Box::new(Rec { next: Some(Box::new(Rec { next: None, v: 3 })), v: 2 })), v: 1 };
    attempt(ctx, "from_samples:recursive", "a 3-level Rec value".into(), || Vec::<Field>::from_samples(&[&rec], TracingOptions::default().allow_null_fields(true)).map(|f| f.len()).map_err(|e| e.to_string()));
    let mut deep = RecEnum::Leaf; for _ in 0..40 { deep = RecEnum::Node(Box::new(deep), Box::new(RecEnum::Leaf)); }
    attempt(ctx, "from_samples:recursive", "a 40-level RecEnum value".into(), || Vec::<Field>::from_samples(&[Item(&deep)], TracingOptions::default().allow_null_fields(true)).map(|f| f.len()).map_err(|e| e.to_string()));
    // 8. inconsistent serde call sequences
    let two = [mk("a", DataType::Int32, true), mk("b", DataType::Int32, true)];
    for k in 0..5 {
        attempt(ctx, "inconsistent_calls:to_marrow", format!("map sequence {}", k), || serde_arrow::to_marrow(&two, &[ValueWithoutKey(k)]).map(|a| a.len()).map_err(|e| e.to_string()));
        attempt(ctx, "inconsistent_calls:to_marrow", format!("count sequence {}", k), || serde_arrow::to_marrow(&two, &[WrongCounts(k)]).map(|a| a.len()).map_err(|e| e.to_string()));
        attempt(ctx, "inconsistent_calls:to_marrow_outer", format!("count sequence {} as the whole batch", k), || serde_arrow::to_marrow(&two, &WrongCounts(k)).map(|a| a.len()).map_err(|e| e.to_string()));
        attempt(ctx, "inconsistent_calls:builder", format!("map sequence {} twice, then build", k), || { let mut b = serde_arrow::ArrayBuilder::from_marrow(&two).map_err(|e| e.to_string())?; let _ = b.push(&ValueWithoutKey(k)); let _ = b.push(&ValueWithoutKey(k)); b.to_marrow().map(|a| a.len()).map_err(|e| e.to_string()) });
        attempt(ctx, "inconsistent_calls:from_samples", format!("map sequence {}", k), || Vec::<Field>::from_samples(&[ValueWithoutKey(k)], TracingOptions::default()).map(|f| f.len()).map_err(|e| e.to_string()));
        attempt(ctx, "inconsistent_calls:from_samples", format!("count sequence {}", k), || Vec::<Field>::from_samples(&[WrongCounts(k)], TracingOptions::default()).map(|f| f.len()).map_err(|e| e.to_string()));
        let nested = mk("c", DataType::Struct(two.to_vec()), true);
        attempt(ctx, "inconsistent_calls:nested", format!("map sequence {} at a nested struct", k), || serde_arrow::to_marrow(std::slice::from_ref(&nested), &[Item2(ValueWithoutKey(k))]).map(|a| a.len()).map_err(|e| e.to_string()));
    }
    // 9. variant indices far beyond any declared variant
    for idx in [200u32, 1_000_000] {
        attempt(ctx, "huge_variant_index:from_samples", format!("unit variant with index {}", idx), || Vec::<Field>::from_samples(&[Item(HugeVariant(idx))], TracingOptions::default().allow_null_fields(true)).map(|f| f.len()).map_err(|e| e.to_string()));
    }
    // reused builders: every leaf type below every kind of parent, three batches of valid rows (long and
    // short values) through one ArrayBuilder with an empty build in between, through to_marrow and to_arrow
    {
        let mut rng = ctx.rng.fork();
        for leaf in crate::c18::all_leaves() {
            for parent in 0..8usize {
                let Some((field, _)) = crate::c18::under_parent(parent, &leaf, true) else { continue };
                let batches: Vec<Vec<crate::arrgen::Val>> = (0..3).map(|_| (0..4).map(|_| { let mut none = crate::arrgen::Inject { countdown: -1, what: None }; crate::arrgen::Val::Struct(vec![("c".to_string(), crate::arrgen::gen_val(&mut rng, &field, &mut none))], 0) }).collect()).collect();
                for arrow in [false, true] {
                    let f = field.clone(); let bs = batches.clone();
                    attempt(ctx, "reused_builder", format!("{:?} via {}", field.data_type, if arrow { "to_arrow" } else { "to_marrow" }), move || {
                        let mut b = serde_arrow::ArrayBuilder::from_marrow(std::slice::from_ref(&f)).map_err(|e| e.to_string())?;
                        let mut total = 0usize;
                        for (k, batch) in bs.iter().enumerate() {
                            b.extend(batch).map_err(|e| e.to_string())?;
                            if arrow { total += b.to_arrow().map_err(|e| e.to_string())?.len(); } else { total += b.to_marrow().map_err(|e| e.to_string())?.len(); }
                            if k == 0 { let _ = b.to_marrow().map_err(|e| e.to_string())?; }   // an empty build
                        }
                        Ok(total)
                    });
                }
            }
        }
    }
    // the extension-type helpers: every index list of length 0..=3 over 0..=ndim+1 (and usize::MAX) as permutation, name lists of
    // every length 0..=ndim+1, uniform shapes of every length - each call must return, never panic
    {
        use serde_arrow::schema::ext::{FixedShapeTensorField, VariableShapeTensorField};
        let elem = || json!({"name": "element", "data_type": "F32"});
        for ndim in 0..=3usize {
            let shape: Vec<usize> = (0..ndim).map(|i| i + 2).collect();
            let mut perms: Vec<Vec<usize>> = vec![vec![]];
            for len in 1..=3usize { let mut next = vec![]; let base: Vec<Vec<usize>> = if len == 1 { vec![vec![]] } else { perms.iter().filter(|p| p.len() == len - 1).cloned().collect() };
                for p in base { for v in (0..=ndim + 1).chain(std::iter::once(usize::MAX)) { let mut q = p.clone(); q.push(v); next.push(q); } } perms.extend(next); }
            for p in &perms {
                if !ctx.thorough && p.len() == 3 && p[0].wrapping_add(p[1]).wrapping_add(p[2]) % 3 != 0 { continue; }
                let (sh, pp) = (shape.clone(), p.clone());
                attempt(ctx, "tensor:fixed_permutation", format!("shape {:?} permutation {:?}", shape, p), move || { let f = FixedShapeTensorField::new("t", elem(), sh).map_err(|e| e.to_string())?; f.permutation(pp).map_err(|e| e.to_string())?; Ok(()) });
                let pp = p.clone();
                attempt(ctx, "tensor:variable_permutation", format!("ndim {} permutation {:?}", ndim, p), move || { let f = VariableShapeTensorField::new("t", elem(), ndim).map_err(|e| e.to_string())?; f.permutation(pp).map_err(|e| e.to_string())?; Ok(()) });
            }
            for nn in 0..=ndim + 1 {
                let names: Vec<String> = (0..nn).map(|i| format!("d{}", i)).collect();
                let (sh, n1, n2) = (shape.clone(), names.clone(), names.clone());
                attempt(ctx, "tensor:fixed_dim_names", format!("shape {:?} names {:?}", shape, names), move || { let f = FixedShapeTensorField::new("t", elem(), sh).map_err(|e| e.to_string())?; f.dim_names(n1).map_err(|e| e.to_string())?; Ok(()) });
                attempt(ctx, "tensor:variable_dim_names", format!("ndim {} names {:?}", ndim, names), move || { let f = VariableShapeTensorField::new("t", elem(), ndim).map_err(|e| e.to_string())?; f.dim_names(n2).map_err(|e| e.to_string())?; Ok(()) });
                let us: Vec<Option<usize>> = (0..nn).map(|i| if i % 2 == 0 { Some(i + 1) } else { None }).collect();
                let u1 = us.clone();
                attempt(ctx, "tensor:variable_uniform_shape", format!("ndim {} uniform {:?}", ndim, us), move || { let f = VariableShapeTensorField::new("t", elem(), ndim).map_err(|e| e.to_string())?; f.uniform_shape(u1).map_err(|e| e.to_string())?; Ok(()) });
            }
        }
    }
    // the data type mini language through every entry point that parses it: hostile type names and arguments - non-ASCII letters and
    // digits (multi-byte: a byte offset that is not a character boundary), unbalanced brackets and quotes, huge numbers, empty text,
    // very long input - must come back as an error (or a schema), never a panic
    {
        use serde_arrow::schema::{SchemaLike, SerdeArrowSchema};
        let texts: Vec<String> = vec![
            "Caf\u{e9}", "Gr\u{f6}\u{df}e", "\u{65e5}\u{4ed8}", "Duration(Sek\u{fc}nd\u{e9})", "FixedSizeBinary(\u{ff11}\u{ff16})", "D\u{e9}cimal128(5, 2)",
            "Timestamp(Second, Some(Z\u{fc}rich))", "Timestamp(Second, Some(\"Europe/Z\u{fc}rich\"))", "\u{e9}", "I32\u{e9}", "\u{1f600}", "Utf8\u{1f600}", "List(\u{e9})",
            "", " ", "(", ")", "((((", "Decimal128(", "Decimal128(5", "Decimal128(5,", "Decimal128(5, 2", "Decimal128(,)", "Timestamp(Second, Some(\"", "Timestamp(Second, Some(\"UTC",
            "Timestamp(Second, Some(\"\\", "FixedSizeBinary(99999999999999999999999999)", "FixedSizeBinary(-99999999999999999999999999)", "Decimal128(256, 2)", "Decimal128(5, 128)",
            "Time32(Nanosecond)", "Time64(Second)", "I32(1)", "Bool()", "Utf8,", "Utf8 Utf8", "Some(Utf8)", "None", "\0", "I32\0",
        ].into_iter().map(|x: &str| x.to_string()).chain([format!("{}I32", "(".repeat(5000)), "A".repeat(100_000), format!("Decimal128({}, 2)", "9".repeat(400))]).collect();
        for t in &texts {
            let label: String = t.chars().take(40).collect();
            let t1 = t.clone();
            attempt(ctx, "data_type_text:from_value", format!("{:?}", label), move || SerdeArrowSchema::from_value(serde_json::json!([{"name": "a", "data_type": t1}])).map(|_| ()).map_err(|e| e.to_string()));
            let t2 = t.clone();
            attempt(ctx, "data_type_text:json", format!("{:?}", label), move || serde_json::from_str::<SerdeArrowSchema>(&serde_json::json!({"fields": [{"name": "a", "data_type": t2}]}).to_string()).map(|_| ()).map_err(|e| e.to_string()));
            let t3 = t.clone();
            attempt(ctx, "data_type_text:nested", format!("{:?}", label), move || SerdeArrowSchema::from_value(serde_json::json!([{"name": "a", "data_type": "List", "children": [{"name": "element", "data_type": t3}]}])).map(|_| ()).map_err(|e| e.to_string()));
            let t4 = t.clone();
            attempt(ctx, "data_type_text:overwrite", format!("{:?}", label), move || TracingOptions::default().overwrite("a", serde_json::json!({"name": "a", "data_type": t4})).map(|_| ()).map_err(|e| e.to_string()));
            let t5 = t.clone();
            attempt(ctx, "data_type_text:tensor_element", format!("{:?}", label), move || serde_arrow::schema::ext::FixedShapeTensorField::new("t", serde_json::json!({"name": "element", "data_type": t5}), vec![2, 3]).map(|_| ()).map_err(|e| e.to_string()));
        }
    }
}

struct Item2<T>(T);
impl<T: Serialize> Serialize for Item2<T> { fn serialize<S: serde::Serializer>(&self, s: S) -> Result<S::Ok, S::Error> { let mut q = s.serialize_struct("I", 1)?; q.serialize_field("c", &self.0)?; q.end() } }
