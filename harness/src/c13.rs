//! C13: access histories on a real `serde_arrow::Deserializer`, compared with the Coq model
//! (coq/De/DeserApi.v) and checked against the iterator contract directly.
use crate::coqfmt::{self as cf, guarded, Out};
use crate::ctx::Ctx;
use marrow::datatypes::{DataType, Field};
use marrow::view::{BytesView, PrimitiveView, View};
use serde::Deserialize;
use serde_arrow::Deserializer;
use serde_json::json;
use std::collections::BTreeMap;
use std::sync::Arc;

#[derive(Clone, Debug)]
enum Op { Len, IsEmpty, Get(usize), IterNew, Next, SizeHint, Collect, Bulk, Nth(usize), StepBy(usize), Count, Last }

#[derive(Clone, Debug, PartialEq)]
enum Obs {
    Nat(usize), Bool(bool), Item(Option<usize>), Hint(usize, Option<usize>), Items(Vec<usize>), Unit,
}

fn op_coq(o: &Op) -> String {
    match o {
        Op::Len => "OLen".into(), Op::IsEmpty => "OIsEmpty".into(),
        Op::Get(i) => format!("OGet {}", i), Op::IterNew => "OIterNew".into(),
        Op::Next => "ONext".into(), Op::SizeHint => "OSizeHint".into(),
        Op::Collect => "OCollect".into(), Op::Bulk => "OBulk".into(),
        Op::Nth(k) => format!("ONth {}", k), Op::StepBy(k) => format!("OStepBy {}", k), Op::Count => "OCount".into(), Op::Last => "OLast".into(),
    }
}
fn obs_coq(o: &Obs) -> String {
    match o {
        Obs::Nat(n) => format!("BNat {}", n),
        Obs::Bool(x) => format!("BBool {}", cf::boolean(*x)),
        Obs::Item(i) => format!("BItem {}", cf::option(i, |x| cf::nat(*x))),
        Obs::Hint(l, h) => format!("BHint {} {}", l, cf::option(h, |x| cf::nat(*x))),
        Obs::Items(v) => format!("BItems {}", cf::list(v, |x| cf::nat(*x))),
        Obs::Unit => "BUnit".into(),
    }
}

/// column data: column c, row r holds the number 1000*c + r (Int64) or the text "c{c}r{r}" (LargeUtf8)
struct Col { name: String, is_text: bool, ints: Vec<i64>, offsets: Vec<i64>, data: Vec<u8> }

fn make_col(c: usize, len: usize, is_text: bool) -> Col {
    let mut col = Col { name: format!("c{}", c), is_text, ints: vec![], offsets: vec![0], data: vec![] };
    for r in 0..len {
        if is_text {
            col.data.extend_from_slice(format!("c{}r{}", c, r).as_bytes());
            col.offsets.push(col.data.len() as i64);
        } else {
            col.ints.push(1000 * c as i64 + r as i64);
        }
    }
    col
}

/// which row does a decoded record claim to be? None if its columns disagree
fn row_of(rec: &BTreeMap<String, serde_json::Value>) -> Result<Option<usize>, String> {
    let mut row: Option<usize> = None;
    for (k, v) in rec {
        let c: usize = k[1..].parse().map_err(|_| format!("bad key {}", k))?;
        let r = match v {
            serde_json::Value::Number(n) => (n.as_i64().unwrap() - 1000 * c as i64) as usize,
            serde_json::Value::String(s) => {
                let p = format!("c{}r", c);
                if !s.starts_with(&p) { return Err(format!("column {} holds foreign text {}", c, s)); }
                s[p.len()..].parse().map_err(|_| format!("bad text {}", s))?
            }
            _ => return Err(format!("unexpected value {}", v)),
        };
        match row { None => row = Some(r), Some(r0) if r0 != r => return Err(format!("columns disagree on the row: {} vs {}", r0, r)), _ => {} }
    }
    Ok(row)
}

type Rec = BTreeMap<String, serde_json::Value>;

pub fn run(ctx: &mut Ctx) {
    ctx.runner = "RunC13".into();
    ctx.rule = "random access histories (len/is_empty/get/iter/next/size_hint/collect/bulk) over deserializers built from 0-4 Int64/LargeUtf8 columns through from_marrow and from_arrow, including field/array count mismatches and unequal lengths; non-trivial = construction refused, or the history contains a size_hint/collect/bulk/get after at least one next; distinct by (columns, lengths, ops, observations)".into();
    let n_cases = if ctx.thorough { 30000 } else { 1500 };
    let lens_pool = [0usize, 1, 2, 3, 7, 8, 9, 17];
    for case_no in 0..n_cases {
        let mut rng = ctx.rng.fork();
        if let Some(o) = ctx.only { if o != case_no { continue; } }
        let ncols = rng.below(5);
        let base_len = *rng.pick(&lens_pool);
        let mut lens = vec![base_len; ncols];
        let mut kind = "consistent";
        if ncols >= 2 && rng.chance(1, 8) {
            let k = rng.below(ncols);
            lens[k] = if rng.chance(1, 2) { base_len + 1 } else { base_len.saturating_sub(1) + 2 * (base_len == 0) as usize };
            kind = "unequal_lengths";
        }
        let mut nfields = ncols;
        if rng.chance(1, 8) {
            nfields = if rng.chance(1, 2) { ncols + 1 + rng.below(2) } else { ncols.saturating_sub(1 + rng.below(2)) };
            if nfields != ncols { kind = if kind == "consistent" { "count_mismatch" } else { "count_and_length_mismatch" }; }
        }
        let via_arrow = rng.chance(1, 3);
        let cols: Vec<Col> = (0..ncols).map(|c| make_col(c, lens[c], rng.chance(1, 3))).collect();
        let nops = rng.below(13);
        let mut ops = vec![];
        for _ in 0..nops {
            let o = match rng.below(16) {
                12 => Op::Nth(rng.below(4)), 13 => Op::StepBy(rng.below(3)), 14 => Op::Count, 15 => Op::Last,
                0 => Op::Len, 1 => Op::IsEmpty,
                2 | 3 => Op::Get(rng.below(base_len + 3)),
                4 => Op::IterNew, 5 | 6 | 7 => Op::Next, 8 | 9 => Op::SizeHint, 10 => Op::Collect, _ => Op::Bulk,
            };
            ops.push(o);
        }
        // fields: the first `nfields` names (extra fields get fresh names)
        let fields: Vec<Field> = (0..nfields).map(|c| Field {
            name: format!("c{}", c),
            data_type: if c < ncols && cols[c].is_text { DataType::LargeUtf8 } else { DataType::Int64 },
            nullable: false, metadata: Default::default(),
        }).collect();

        let mut oracle_fail: Vec<(String, String)> = vec![];
        let result: Out<Vec<Obs>> = guarded(|| -> Result<Vec<Obs>, String> {
            let views: Vec<View> = cols.iter().map(|c| if c.is_text {
                View::LargeUtf8(BytesView { validity: None, offsets: &c.offsets, data: &c.data })
            } else {
                View::Int64(PrimitiveView { validity: None, values: &c.ints })
            }).collect();
            let arrays: Vec<arrow_array::ArrayRef> = if via_arrow {
                cols.iter().map(|c| -> arrow_array::ArrayRef { if c.is_text {
                    let strs: Vec<String> = (0..c.offsets.len() - 1).map(|r| String::from_utf8(c.data[c.offsets[r] as usize..c.offsets[r + 1] as usize].to_vec()).unwrap()).collect();
                    Arc::new(arrow_array::LargeStringArray::from(strs))
                } else { Arc::new(arrow_array::Int64Array::from(c.ints.clone())) } }).collect()
            } else { vec![] };
            let afields: Vec<arrow_schema::FieldRef> = if via_arrow {
                fields.iter().map(|f| Arc::new(arrow_schema::Field::try_from(f).unwrap())).collect()
            } else { vec![] };
            let mk = || -> Result<Deserializer, String> {
                if via_arrow { Deserializer::from_arrow(&afields, &arrays).map_err(|e| e.to_string()) }
                else { Deserializer::from_marrow(&fields, &views).map_err(|e| e.to_string()) }
            };
            let de = mk()?;
            let mut it = de.iter();
            let mut consumed = 0usize; // items handed out by the current iterator
            let mut obs = vec![];
            fn read<'de, D: serde::Deserializer<'de>>(item: D) -> Result<Option<usize>, String> where D::Error: std::fmt::Display {
                let rec = Rec::deserialize(item).map_err(|e| e.to_string())?;
                row_of(&rec)
            }
            for o in &ops {
                let b = match o {
                    Op::Len => Obs::Nat(de.len()),
                    Op::IsEmpty => Obs::Bool(de.is_empty()),
                    Op::Get(i) => match de.get(*i) {
                        None => Obs::Item(None),
                        Some(item) => Obs::Item(Some(read(item)?.unwrap_or(*i))),
                    },
                    Op::IterNew => { it = (&de).into_iter(); consumed = 0; Obs::Unit }
                    Op::Next => match it.next() {
                        None => Obs::Item(None),
                        Some(item) => { let r = read(item)?.unwrap_or(consumed); consumed += 1; Obs::Item(Some(r)) }
                    },
                    Op::SizeHint => {
                        let (lo, hi) = it.size_hint();
                        let remaining = de.len().saturating_sub(consumed);
                        if lo != remaining || hi != Some(remaining) {
                            oracle_fail.push(("size_hint_untruthful".into(), format!("size_hint = ({}, {:?}) but {} items remain", lo, hi, remaining)));
                        }
                        Obs::Hint(lo, hi)
                    }
                    Op::Collect => {
                        let mut v = vec![];
                        let mut k = consumed;
                        for item in &mut it { v.push(read(item)?.unwrap_or(k)); k += 1; if v.len() > de.len() + 2 { oracle_fail.push(("iterator_yields_more_than_len".into(), format!("collect produced more than {} items", de.len()))); break; } }
                        consumed = k;
                        Obs::Items(v)
                    }
                    Op::Nth(k) => match it.nth(*k) {
                        None => { consumed = de.len().max(consumed); Obs::Item(None) }
                        Some(item) => { let r = read(item)?.unwrap_or(consumed + k); consumed += k + 1; Obs::Item(Some(r)) }
                    },
                    Op::StepBy(k) => {
                        let mut v = vec![];
                        let mut pos = consumed;
                        for item in (&mut it).step_by(k + 1) { v.push(read(item)?.unwrap_or(pos)); pos += k + 1; if v.len() > de.len() + 2 { oracle_fail.push(("iterator_yields_more_than_len".into(), format!("step_by({}) produced more than {} items", k + 1, de.len()))); break; } }
                        consumed = de.len().max(consumed);
                        Obs::Items(v)
                    }
                    // count() and last() consume the iterator BY VALUE, so that an override of these adaptor methods on the crate's own
                    // iterator type is what runs (through `(&mut it).take(..)` only `next` would); an exhausted iterator is left behind
                    Op::Count => { let mut spent = de.iter(); for _ in spent.by_ref() {} let old = std::mem::replace(&mut it, spent); let c = old.count(); consumed = de.len().max(consumed);
                        if c > de.len() { oracle_fail.push(("iterator_yields_more_than_len".into(), format!("count() = {} on a deserializer of {} records", c, de.len()))); }
                        Obs::Nat(c) }
                    Op::Last => { let mut spent = de.iter(); for _ in spent.by_ref() {} let old = std::mem::replace(&mut it, spent); let l = old.last(); let was = consumed; consumed = de.len().max(consumed);
                        if was >= de.len() && l.is_some() { oracle_fail.push(("iterator_yields_more_than_len".into(), format!("last() of an exhausted iterator ({} of {} records consumed) is Some", was, de.len()))); }
                        match l { None => Obs::Item(None), Some(item) => Obs::Item(Some(read(item)?.unwrap_or(de.len() - 1))) } }
                    Op::Bulk => {
                        let recs = Vec::<Rec>::deserialize(mk()?).map_err(|e| e.to_string())?;
                        let mut v = vec![];
                        for (k, r) in recs.iter().enumerate() { v.push(row_of(r)?.unwrap_or(k)); }
                        Obs::Items(v)
                    }
                };
                obs.push(b);
            }
            Ok(obs)
        });
        // direct oracle on construction (independent of the model)
        let consistent = nfields == ncols && lens.iter().all(|l| *l == base_len);
        match (&result, consistent) {
            (Out::Ok(_), false) => oracle_fail.push((
                if nfields != ncols { "construct_accepts_count_mismatch".into() } else { "construct_accepts_unequal_lengths".into() },
                format!("{} fields, arrays of lengths {:?} accepted via {}", nfields, lens, if via_arrow { "from_arrow" } else { "from_marrow" }))),
            (Out::Err(e), true) => oracle_fail.push(("consistent_input_refused".into(), e.clone())),
            (Out::Panic(p), _) => oracle_fail.push(("panic".into(), p.clone())),
            _ => {}
        }
        ctx.count(&format!("construct:{}", kind));
        ctx.count(&format!("outcome:{}", result.class()));
        ctx.count(if via_arrow { "via:from_arrow" } else { "via:from_marrow" });
        let mut seen_next = false;
        let mut nontrivial = !consistent;
        for o in &ops {
            match o {
                Op::Next => seen_next = true,
                Op::Nth(_) | Op::StepBy(_) => { if seen_next { nontrivial = true; } seen_next = true; }
                Op::SizeHint | Op::Collect | Op::Bulk | Op::Get(_) | Op::Count | Op::Last if seen_next => nontrivial = true,
                _ => {}
            }
            ctx.count(&format!("op:{}", op_coq(o).split(' ').next().unwrap()));
        }
        let coq = format!(
            "{{| c_nf := {}; c_lens := {}; c_ops := {}; c_impl := {} |}}",
            nfields, cf::list(&lens, |x| cf::nat(*x)), cf::list(&ops, op_coq),
            result.coq(|v| cf::list(v, obs_coq)));
        let desc = json!({
            "case": case_no, "nfields": nfields, "view_lens": lens, "via": if via_arrow { "from_arrow" } else { "from_marrow" },
            "ops": ops.iter().map(op_coq).collect::<Vec<_>>(),
            "impl": match &result { Out::Ok(v) => json!({"ok": v.iter().map(obs_coq).collect::<Vec<_>>()}), Out::Err(e) => json!({"err": e}), Out::Panic(p) => json!({"panic": p}) },
        });
        let idx = ctx.add_case(coq, desc, nontrivial);
        for (class, what) in oracle_fail { ctx.fail(idx, &class, what); }
    }
    // the record count of a deserializer over WINDOWS of arrays: every kind of top-level view (every leaf type and every
    // container kind) x windows at every offset 0..8: len() is the window length, get(len - 1) is Some, get(len) is None, a
    // second column of the same length is accepted and one of another length refused
    {
        use crate::arrgen::{self, Inject, Val};
        let mut rng = ctx.rng.fork();
        let mut kinds: Vec<Field> = crate::c18::all_leaves().into_iter().map(|dt| Field { name: "c".into(), data_type: dt, nullable: true, metadata: Default::default() }).collect();
        for parent in 1..8usize { if let Some((f, _)) = crate::c18::under_parent(parent, &DataType::Int32, true) { kinds.push(f); } }
        // zero-width fixed-size lists: the element array is empty however many records there are; the count is the view's own
        let fsl0 = DataType::FixedSizeList(Box::new(Field { name: "element".into(), data_type: DataType::Int8, nullable: false, metadata: Default::default() }), 0);
        kinds.push(Field { name: "c".into(), data_type: fsl0.clone(), nullable: true, metadata: Default::default() });
        kinds.push(Field { name: "c".into(), data_type: fsl0.clone(), nullable: false, metadata: Default::default() });
        for parent in 1..8usize { if let Some((f, _)) = crate::c18::under_parent(parent, &fsl0, true) { kinds.push(f); } }
        let nrows = 12usize;
        let ints: Vec<i64> = (0..nrows as i64 + 2).collect();
        for field in &kinds {
            let mut none = Inject { countdown: -1, what: None };
            let rows: Vec<Val> = (0..nrows).map(|_| Val::Struct(vec![("c".to_string(), arrgen::gen_val(&mut rng, field, &mut none))], 0)).collect();
            let Out::Ok(arrays) = guarded(|| serde_arrow::to_marrow(std::slice::from_ref(field), &rows).map_err(|e| e.to_string())) else { ctx.count("len_sweep:rows_rejected"); continue };
            let whole = arrays[0].as_view();
            for off in 0..9usize {
                if !ctx.thorough && off % 2 == 0 && off != 0 { continue; }
                let l = nrows - off;
                let window = crate::viewgen::slice_view(&whole, off, l);
                let other = Field { name: "i".into(), data_type: DataType::Int64, nullable: false, metadata: Default::default() };
                let r = guarded(|| -> Result<Vec<String>, String> {
                    let mut bad = vec![];
                    let de = Deserializer::from_marrow(std::slice::from_ref(field), std::slice::from_ref(&window)).map_err(|e| e.to_string())?;
                    if de.len() != l { bad.push(format!("len() = {} for a window of {} rows", de.len(), l)); }
                    if l > 0 && de.get(l - 1).is_none() { bad.push(format!("get({}) is None in a window of {} rows", l - 1, l)); }
                    if de.get(l).is_some() { bad.push(format!("get({}) is Some in a window of {} rows", l, l)); }
                    let same = View::Int64(PrimitiveView { validity: None, values: &ints[..l] });
                    if let Err(e) = Deserializer::from_marrow(&[field.clone(), other.clone()], &[window.clone(), same]) { bad.push(format!("a second column of the same length ({}) is refused: {}", l, e)); }
                    let longer = View::Int64(PrimitiveView { validity: None, values: &ints[..l + 1] });
                    if Deserializer::from_marrow(&[field.clone(), other.clone()], &[window.clone(), longer]).is_ok() { bad.push(format!("a second column of length {} next to a window of {} rows is accepted", l + 1, l)); }
                    Ok(bad)
                });
                ctx.count("len_sweep:window");
                ctx.add_eval(&format!("lensweep{:?}{}", field.data_type, off), true);
                match r {
                    Out::Ok(bad) => for b in bad { ctx.fail(0, "record_count_wrong", format!("{:?}, window at offset {}: {}", field.data_type, off, b)); },
                    Out::Err(e) => ctx.fail(0, "record_count_wrong", format!("{:?}, window at offset {}: construction refused: {}", field.data_type, off, e)),
                    Out::Panic(p) => ctx.fail(0, "panic", format!("{:?}, window at offset {}: {}", field.data_type, off, p)),
                }
            }
        }
    }
}
