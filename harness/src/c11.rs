//! C11: the same logical batch in different record presentations gives the same arrays.
use crate::arrgen::{self, Inject, Val, IK};
use crate::coqfmt::{self as cf, guarded, Out};
use crate::ctx::Ctx;
use crate::rng::Rng;
use marrow::array::Array;
use marrow::datatypes::{DataType, Field};
use serde::Serialize;
use serde_json::json;

/// a logical record: one optional value per schema field (None = absent; only allowed for nullable fields)
type Logical = Vec<Option<Val>>;

fn present(rng: &mut Rng, fields: &[Field], rec: &Logical, kind: usize, class: u8) -> Val {
    match kind {
        0 | 1 => { // struct, in schema order (0) or permuted with extras (1)
            let mut out: Vec<(String, Val)> = fields.iter().zip(rec).filter_map(|(f, v)| v.clone().map(|v| (f.name.clone(), v))).collect();
            if kind == 1 { if rng.chance(1, 2) { out.push(("zz_extra".into(), Val::Int(IK::I32, 1))); } if rng.chance(1, 3) { out.insert(0, ("aa_extra".into(), Val::Str("x".into()))); } rng.shuffle(&mut out); }
            Val::Struct(out, class)
        }
        2 => { // map with string keys, permuted, extras
            let mut kvs: Vec<(Val, Val)> = fields.iter().zip(rec).filter_map(|(f, v)| v.clone().map(|v| (Val::Str(f.name.clone()), v))).collect();
            if rng.chance(1, 2) { kvs.push((Val::Str("zz_extra".into()), Val::Bool(true))); }
            rng.shuffle(&mut kvs);
            Val::Map(kvs)
        }
        _ => { // tuple in schema order (absent -> None); a tuple struct may carry extra elements
            let mut vs: Vec<Val> = rec.iter().map(|v| v.clone().unwrap_or(Val::None)).collect();
            if kind == 4 { if rng.chance(1, 2) { vs.push(Val::Int(IK::I32, 9)); } Val::TupleStruct(vs) } else { Val::Tuple(vs) }
        }
    }
}

fn run_batch(fields: &[Field], rows: &[Val]) -> Out<Vec<Array>> { guarded(|| serde_arrow::to_marrow(fields, rows).map_err(|e| e.to_string())) }

#[derive(Serialize)]
struct ItemRec { item: Val }

pub fn run(ctx: &mut Ctx) {
    ctx.runner = "RunC01".into();
    ctx.shard_size = 120;
    ctx.rule = "one logical batch (1-6 records over a 1-4 field schema of scalar/nested fields, absent optional fields) rendered in 5 presentations (struct in order; struct permuted with extra fields; string-keyed map permuted with extras; tuple; tuple struct with extras), with equal and with distinct static-name addresses, and as an interleaving of presentations inside one batch; arrays must be identical across presentations; plus: absent required field / duplicate field are errors; Item / Items wrappers equal a one-field struct named item. Non-trivial = at least two fields or a nested field; distinct by (schema, rows, result)".into();
    let n = if ctx.thorough { 6000 } else { 400 };
    for g in 0..n {
        let mut rng = ctx.rng.fork();
        // distinct field names (duplicates are rejected at construction)
        let nf = 1 + rng.below(4);
        // a fifth of the schemas use names that are prefixes of one another; presented (address class 2) as slices of ONE static
        // string they all start at the same address - the name cache must still tell them apart
        let shared = g % 5 == 4;
        let names = if shared { ["abc", "ab", "abcd", "a"] } else { ["a", "b", "c", "d"] };
        let fields: Vec<Field> = (0..nf).map(|i| { let d = rng.below(3); arrgen::gen_field(&mut rng, names[i], d) }).filter(|f| !matches!(f.data_type, DataType::Null)).collect();
        if fields.is_empty() { continue; }
        let nrec = 1 + rng.below(6);
        let mut none = Inject { countdown: -1, what: None };
        let logical: Vec<Logical> = (0..nrec).map(|_| fields.iter().map(|f| if f.nullable && !matches!(f.data_type, DataType::Union(..)) && rng.chance(1, 5) { None } else { let v = arrgen::gen_val(&mut rng, f, &mut none); Some(v) }).collect()).collect();
        let mut results: Vec<(String, Vec<Val>, Out<Vec<Array>>)> = vec![];
        for kind in 0..5 {
            for class in [0u8, 1u8, 2u8] {
                if kind >= 2 && class >= 1 { continue; }
                if class == 2 && !shared { continue; }
                let rows: Vec<Val> = logical.iter().map(|r| present(&mut rng, &fields, r, kind, class)).collect();
                let out = run_batch(&fields, &rows);
                results.push((format!("kind{}class{}", kind, class), rows, out));
            }
        }
        // interleaving: every row in a random presentation and address class
        let rows: Vec<Val> = logical.iter().map(|r| { let k = rng.below(5); let c = if shared { 2 } else { rng.below(2) as u8 }; present(&mut rng, &fields, r, k, c) }).collect();
        let out = run_batch(&fields, &rows);
        results.push(("interleaved".into(), rows, out));
        // a reused builder: the batch arrives in a random presentation AFTER the same builder has already delivered the batch in
        // struct order (per-batch state of the name lookup must not leak: index, cache, cursor)
        {
            let first: Vec<Val> = logical.iter().map(|r| present(&mut rng, &fields, r, 0, 0)).collect();
            let rows: Vec<Val> = logical.iter().map(|r| { let k = rng.below(5); let c = if shared { 2 } else { rng.below(2) as u8 }; present(&mut rng, &fields, r, k, c) }).collect();
            let out = guarded(|| -> Result<Vec<Array>, String> {
                let mut b = serde_arrow::ArrayBuilder::from_marrow(&fields).map_err(|e| e.to_string())?;
                b.extend(&first).map_err(|e| format!("first batch: {}", e))?;
                let _ = b.to_marrow().map_err(|e| e.to_string())?;
                b.extend(&rows).map_err(|e| e.to_string())?;
                b.to_marrow().map_err(|e| e.to_string())
            });
            results.push(("second_batch_of_reused_builder".into(), rows, out));
        }
        let nontrivial = fields.len() >= 2 || fields.iter().any(|f| matches!(f.data_type, DataType::Struct(_) | DataType::List(_) | DataType::Map(..)));
        let reference = match &results[0].2 { Out::Ok(a) => Some(a.clone()), _ => None };
        for (label, rows, out) in &results {
            ctx.count(&format!("{}:{}", label, out.class()));
            let coq = format!("{{| c_fields := {}; c_rows := {}; c_impl := {} |}}", cf::list(&fields, arrgen::field_coq), cf::list(rows, arrgen::val_coq), out.coq(|a| cf::list(a, arrgen::array_coq)));
            let desc = json!({"group": g, "presentation": label, "fields": format!("{:?}", fields.iter().map(|f| (&f.name, &f.data_type, f.nullable)).collect::<Vec<_>>()), "rows": format!("{:?}", rows), "impl": match out { Out::Ok(a) => json!({"ok": format!("{:?}", a)}), Out::Err(e) => json!({"err": e}), Out::Panic(p) => json!({"panic": p}) }});
            let idx = ctx.add_case(coq, desc, nontrivial);
            match (out, &reference) {
                (Out::Ok(a), Some(r)) => if !arrgen::arrays_eq(a, r) { ctx.fail(idx, "presentation_changes_arrays", format!("group {} {}: arrays differ from the struct-in-order presentation: {:?} vs {:?}", g, label, a, r)); },
                (Out::Ok(_), None) => ctx.fail(idx, "presentation_changes_outcome", format!("group {} {}: accepted, but the struct presentation was refused", g, label)),
                (Out::Err(e), Some(_)) => ctx.fail(idx, "presentation_changes_outcome", format!("group {} {}: refused ({}), but the struct presentation was accepted", g, label, e)),
                (Out::Panic(p), _) => ctx.fail(idx, "panic", p.clone()),
                _ => {}
            }
        }
        // error classes: absent required field, duplicate field
        if let Some(req) = fields.iter().position(|f| !f.nullable) {
            let mut rec = logical[0].clone(); rec[req] = None;
            for kind in [0usize, 2] {
                let row = present(&mut rng, &fields, &rec, kind, 0);
                let out = run_batch(&fields, &[row.clone()]);
                ctx.add_eval(&format!("missing{}{:?}", g, kind), true);
                if let Out::Ok(_) = out { ctx.fail(0, "absent_required_field_accepted", format!("group {}: {:?}", g, row)); }
                if let Out::Panic(p) = out { ctx.fail(0, "panic", p); }
            }
        }
        if let Some(v0) = logical[0][0].clone() {
            let mut out: Vec<(String, Val)> = fields.iter().zip(&logical[0]).filter_map(|(f, v)| v.clone().map(|v| (f.name.clone(), v))).collect();
            out.push((fields[0].name.clone(), v0));
            let res = run_batch(&fields, &[Val::Struct(out.clone(), 0)]);
            ctx.add_eval(&format!("dup{}", g), true);
            if let Out::Ok(_) = res { ctx.fail(0, "duplicate_field_accepted", format!("group {}: {:?}", g, out)); }
            // the same through the map protocol (what #[serde(flatten)] and hand-written impls use)
            let as_map = Val::Map(out.iter().map(|(k, v)| (Val::Str(k.clone()), v.clone())).collect());
            let res = run_batch(&fields, &[as_map]);
            ctx.add_eval(&format!("dupmap{}", g), true);
            if let Out::Ok(_) = res { ctx.fail(0, "duplicate_field_accepted", format!("group {} (map presentation): {:?}", g, out)); }
        }
        // Item / Items wrappers = one-field record named item
        if g % 4 == 0 {
            let f = { let mut f = fields[0].clone(); f.name = "item".into(); f };
            let vals: Vec<Val> = logical.iter().filter_map(|r| r[0].clone()).collect();
            let a = guarded(|| serde_arrow::to_marrow(&[f.clone()], &serde_arrow::utils::Items(&vals)).map_err(|e| e.to_string()));
            let b = guarded(|| serde_arrow::to_marrow(&[f.clone()], &vals.iter().map(|v| serde_arrow::utils::Item(v.clone())).collect::<Vec<_>>()).map_err(|e| e.to_string()));
            let c = guarded(|| serde_arrow::to_marrow(&[f.clone()], &vals.iter().map(|v| ItemRec { item: v.clone() }).collect::<Vec<_>>()).map_err(|e| e.to_string()));
            ctx.add_eval(&format!("item{}", g), true);
            match (&a, &b, &c) { (Out::Ok(x), Out::Ok(y), Out::Ok(z)) => if !arrgen::arrays_eq(x, z) || !arrgen::arrays_eq(y, z) { ctx.fail(0, "item_wrapper_differs", format!("group {}: Items {:?} / Item {:?} / struct {:?}", g, x, y, z)); }, (Out::Err(_), Out::Err(_), Out::Err(_)) => {}, _ => ctx.fail(0, "item_wrapper_differs", format!("group {}: outcomes differ: {} {} {}", g, a.class(), b.class(), c.class())) }
        }
    }
}
