//! A self-describing probe: reads one value through `deserialize_any` and records exactly what the
//! reader presents (visitor calls) as an `RVal` tree. The data type is only used to decide how to
//! consume enum variants (unit vs newtype) and to hand the right child type down.
use crate::coqfmt as cf;
use marrow::datatypes::{DataType, Field};
use serde::de::{DeserializeSeed, Deserializer, EnumAccess, MapAccess, SeqAccess, VariantAccess, Visitor};

#[derive(Clone, Debug, PartialEq)]
pub enum RVal { None, Unit, Bool(bool), Int(i128), F32(u32), F64(u64), Str(Vec<u8>), Bytes(Vec<u8>), Some(Box<RVal>), Seq(Vec<RVal>), Map(Vec<(RVal, RVal)>), Enum(Box<RVal>, Box<RVal>) }

pub fn rval_coq(r: &RVal) -> String {
    match r {
        RVal::None => "RNone".into(), RVal::Unit => "RUnit".into(), RVal::Bool(b) => format!("(RBool {})", cf::boolean(*b)),
        RVal::Int(z) => format!("(RInt {})", cf::z(z)), RVal::F32(b) => format!("(RF32 {})", cf::z(b)), RVal::F64(b) => format!("(RF64 {})", cf::z(b)),
        RVal::Str(s) => format!("(RStr {})", cf::bytes(s)), RVal::Bytes(s) => format!("(RBytes {})", cf::bytes(s)),
        RVal::Some(x) => format!("(RSome {})", rval_coq(x)), RVal::Seq(l) => format!("(RSeq {})", cf::list(l, rval_coq)),
        RVal::Map(l) => format!("(RMap {})", cf::list(l, |(k, v)| format!("({}, {})", rval_coq(k), rval_coq(v)))),
        RVal::Enum(k, v) => format!("(REnum {} {})", rval_coq(k), rval_coq(v)),
    }
}

#[derive(Clone, Copy)]
pub struct AnyProbe<'f> { pub dt: Option<&'f DataType> }

fn child<'f>(dt: Option<&'f DataType>) -> Option<&'f DataType> {
    match dt { Some(DataType::List(f)) | Some(DataType::LargeList(f)) | Some(DataType::FixedSizeList(f, _)) => Some(&f.data_type), _ => None }
}

impl<'de, 'f> DeserializeSeed<'de> for AnyProbe<'f> {
    type Value = RVal;
    fn deserialize<D: Deserializer<'de>>(self, d: D) -> Result<RVal, D::Error> { d.deserialize_any(self) }
}

struct Ident;
impl<'de> DeserializeSeed<'de> for Ident {
    type Value = RVal;
    fn deserialize<D: Deserializer<'de>>(self, d: D) -> Result<RVal, D::Error> { d.deserialize_identifier(AnyProbe { dt: None }) }
}

impl<'de, 'f> Visitor<'de> for AnyProbe<'f> {
    type Value = RVal;
    fn expecting(&self, f: &mut std::fmt::Formatter) -> std::fmt::Result { write!(f, "anything") }
    fn visit_bool<E>(self, v: bool) -> Result<RVal, E> { Ok(RVal::Bool(v)) }
    fn visit_i8<E>(self, v: i8) -> Result<RVal, E> { Ok(RVal::Int(v as i128)) }
    fn visit_i16<E>(self, v: i16) -> Result<RVal, E> { Ok(RVal::Int(v as i128)) }
    fn visit_i32<E>(self, v: i32) -> Result<RVal, E> { Ok(RVal::Int(v as i128)) }
    fn visit_i64<E>(self, v: i64) -> Result<RVal, E> { Ok(RVal::Int(v as i128)) }
    fn visit_u8<E>(self, v: u8) -> Result<RVal, E> { Ok(RVal::Int(v as i128)) }
    fn visit_u16<E>(self, v: u16) -> Result<RVal, E> { Ok(RVal::Int(v as i128)) }
    fn visit_u32<E>(self, v: u32) -> Result<RVal, E> { Ok(RVal::Int(v as i128)) }
    fn visit_u64<E>(self, v: u64) -> Result<RVal, E> { Ok(RVal::Int(v as i128)) }
    fn visit_f32<E>(self, v: f32) -> Result<RVal, E> { Ok(RVal::F32(v.to_bits())) }
    fn visit_f64<E>(self, v: f64) -> Result<RVal, E> { Ok(RVal::F64(v.to_bits())) }
    fn visit_str<E>(self, v: &str) -> Result<RVal, E> { Ok(RVal::Str(v.as_bytes().to_vec())) }
    fn visit_bytes<E>(self, v: &[u8]) -> Result<RVal, E> { Ok(RVal::Bytes(v.to_vec())) }
    fn visit_none<E>(self) -> Result<RVal, E> { Ok(RVal::None) }
    fn visit_unit<E>(self) -> Result<RVal, E> { Ok(RVal::Unit) }
    fn visit_some<D: Deserializer<'de>>(self, d: D) -> Result<RVal, D::Error> { Ok(RVal::Some(Box::new(d.deserialize_any(self)?))) }
    fn visit_newtype_struct<D: Deserializer<'de>>(self, d: D) -> Result<RVal, D::Error> { d.deserialize_any(self) }
    fn visit_seq<A: SeqAccess<'de>>(self, mut a: A) -> Result<RVal, A::Error> {
        let mut v = vec![];
        let c = child(self.dt);
        let mut guard = 0usize;
        while let Some(x) = a.next_element_seed(AnyProbe { dt: c })? { v.push(x); guard += 1; if guard > 100_000 { break; } }
        Ok(RVal::Seq(v))
    }
    fn visit_map<A: MapAccess<'de>>(self, mut a: A) -> Result<RVal, A::Error> {
        let mut v = vec![];
        let mut i = 0usize;
        loop {
            let (kdt, vdt): (Option<&DataType>, Option<&DataType>) = match self.dt {
                Some(DataType::Struct(fs)) => (None, fs.get(i).map(|f| &f.data_type)),
                Some(DataType::Map(entries, _)) => match &entries.data_type { DataType::Struct(kv) if kv.len() == 2 => (Some(&kv[0].data_type), Some(&kv[1].data_type)), _ => (None, None) },
                _ => (None, None),
            };
            let Some(k) = a.next_key_seed(AnyProbe { dt: kdt })? else { break };
            let x = a.next_value_seed(AnyProbe { dt: vdt })?;
            v.push((k, x));
            i += 1;
            if i > 100_000 { break; }
        }
        Ok(RVal::Map(v))
    }
    fn visit_enum<A: EnumAccess<'de>>(self, a: A) -> Result<RVal, A::Error> {
        let (variant, access) = a.variant_seed(Ident)?;
        let vf: Option<&Field> = match (self.dt, &variant) {
            (Some(DataType::Union(fs, _)), RVal::Str(name)) => fs.iter().map(|(_, f)| f).find(|f| f.name.as_bytes() == &name[..]),
            _ => None,
        };
        let payload = match vf.map(|f| &f.data_type) {
            Some(DataType::Null) => { access.unit_variant()?; RVal::Unit }
            other => access.newtype_variant_seed(AnyProbe { dt: other })?,
        };
        Ok(RVal::Enum(Box::new(variant), Box::new(payload)))
    }
}
