//! C08: from_type against the documented mapping (doc_schema, evaluated inside Coq), against
//! from_samples on covering sample sets (and the tracer model), under exhaustive / random option
//! sets, plus overwrites at every path of the traced tree and at non-existent paths.
use crate::arrgen::{self, Val};
use crate::c07::canon;
use crate::coqfmt::{self as cf, guarded, Out};
use crate::ctx::Ctx;
use crate::rng::Rng;
use crate::tracegen::{self as tg, TOpts};
use crate::zoo::{self, Zoo};
use marrow::datatypes::{DataType, Field};
use serde_arrow::schema::SchemaLike;
use serde_json::json;

fn res_coq(r: &Out<Vec<Field>>) -> String {
    match r { Out::Ok(fs) => { let mut v = vec![]; for f in fs { match tg::sfield_coq(f) { Some(s) => v.push(s), None => return "(Panic PExternal)".into() } } format!("(Ok [{}])", v.join("; ")) } Out::Err(_) => "Err".into(), Out::Panic(_) => "(Panic PExternal)".into() }
}

pub fn paths(prefix: &str, f: &Field, out: &mut Vec<(String, Field)>) {
    use DataType as T;
    let p = if prefix.is_empty() { f.name.clone() } else { format!("{}.{}", prefix, f.name) };
    out.push((p.clone(), f.clone()));
    match &f.data_type {
        T::Struct(fs) => for c in fs { paths(&p, c, out); },
        T::List(c) | T::LargeList(c) => { let mut e = (**c).clone(); e.name = "element".into(); paths(&p, &e, out); }
        T::Map(e, _) => if let T::Struct(kv) = &e.data_type { let mut k = kv[0].clone(); k.name = "key".into(); let mut v = kv[1].clone(); v.name = "value".into(); paths(&p, &k, out); paths(&p, &v, out); },
        T::Union(fs, _) => for (_, c) in fs { if !c.name.is_empty() { paths(&p, c, out); } },
        _ => {}
    }
}

fn type_case<T: Zoo>(ctx: &mut Ctx, rng: &mut Rng, o: &TOpts, label: &str) { type_case_budget::<T>(ctx, rng, o, label, 100) }

/// `budget` = from_type_budget (100 is the default): small budgets exercise the multi-pass exploration
/// of enums (one variant per pass) and its failure when the budget runs out
fn type_case_budget<T: Zoo>(ctx: &mut Ctx, rng: &mut Rng, o: &TOpts, label: &str, budget: usize) {
    let ft = guarded(|| Vec::<Field>::from_type::<T>(o.to_options().from_type_budget(budget)).map_err(|e| e.to_string()));
    let cover = T::covering(rng);
    let fs = guarded(|| Vec::<Field>::from_samples(&cover, o.to_options()).map_err(|e| e.to_string()));
    let samples: Vec<Val> = cover.iter().map(|v| zoo::to_val(v)).collect();
    ctx.count(&format!("{}:{}:from_type_{}:from_samples_{}", label, T::NAME, ft.class(), fs.class()));
    let coq = format!("{{| c_opts := {}; c_budget := {}; c_overwrites := []; c_ty := {}; c_from_type := {}; c_samples := {}; c_from_samples := {} |}}", o.coq(), budget, T::ty(), res_coq(&ft), cf::list(&samples, arrgen::val_coq), res_coq(&fs));
    let idx = ctx.add_case(coq, json!({"type": T::NAME, "options": format!("{:?}", o), "from_type_budget": budget, "from_type": match &ft { Out::Ok(f) => format!("Ok({:?})", f), Out::Err(e) => format!("Err({})", e), Out::Panic(p) => format!("Panic({})", p) }, "from_samples": match &fs { Out::Ok(f) => format!("Ok({:?})", f), Out::Err(e) => format!("Err({})", e), Out::Panic(p) => format!("Panic({})", p) }}), true);
    if let (Out::Ok(a), Out::Ok(b)) = (&ft, &fs) {
        let ca: Vec<String> = a.iter().map(canon).collect(); let cb: Vec<String> = b.iter().map(canon).collect();
        // maps traced from samples as structs are documented to differ from the type-traced map
        if ca != cb && !(T::HAS_MAP && o.map_as_struct) { ctx.fail(idx, "from_type_differs_from_samples", format!("{} under {:?}: from_type {:?} vs from_samples {:?}", T::NAME, o, a, b)); }
    }
    if let Out::Panic(p) = &ft { ctx.fail(idx, "panic", format!("from_type panics: {}", p)); }
    if let Out::Panic(p) = &fs { ctx.fail(idx, "panic", format!("from_samples panics: {}", p)); }
}

fn overwrite_cases<T: Zoo>(ctx: &mut Ctx, rng: &mut Rng) {
    let mut o = TOpts::default(); o.allow_null = true; o.map_as_struct = false;
    let Ok(base) = Vec::<Field>::from_type::<T>(o.to_options()) else { return };
    let mut all = vec![]; for f in &base { paths("", f, &mut all); }
    for (path, orig) in &all {
        let replacement = json!({"name": orig.name, "data_type": "LargeUtf8", "nullable": true, "metadata": {"replaced": "yes"}});
        let mk = |p: &str, r: &serde_json::Value| o.to_options().overwrite(p, r.clone()).map_err(|e| e.to_string());
        // at an existing path: exactly that field is replaced
        let r = guarded(|| Vec::<Field>::from_type::<T>(mk(path, &replacement)?).map_err(|e| e.to_string()));
        ctx.count(&format!("overwrite:{}", r.class()));
        let mut expect = base.clone();
        fn replace(fields: &mut [Field], prefix: &str, path: &str, new: &Field) -> bool {
            for f in fields.iter_mut() {
                let p = if prefix.is_empty() { f.name.clone() } else { format!("{}.{}", prefix, f.name) };
                if p == path { *f = new.clone(); return true; }
                let hit = match &mut f.data_type {
                    DataType::Struct(fs) => replace(fs, &p, path, new),
                    DataType::List(c) | DataType::LargeList(c) => { if format!("{}.element", p) == path { let mut n = new.clone(); n.name = c.name.clone(); **c = n; true } else { let mut tmp = vec![(**c).clone()]; tmp[0].name = "element".into(); let h = replace(&mut tmp, &p, path, new); if h { let nm = c.name.clone(); **c = tmp.remove(0); c.name = nm; } h } }
                    DataType::Map(e, _) => { if let DataType::Struct(kv) = &mut e.data_type { let mut hit = false; for (i, nm) in ["key", "value"].iter().enumerate() { if format!("{}.{}", p, nm) == path { let mut n = new.clone(); n.name = kv[i].name.clone(); kv[i] = n; hit = true; } else { let mut tmp = vec![kv[i].clone()]; tmp[0].name = nm.to_string(); if replace(&mut tmp, &p, path, new) { let orig_name = kv[i].name.clone(); kv[i] = tmp.remove(0); kv[i].name = orig_name; hit = true; } } } hit } else { false } }
                    DataType::Union(fs, _) => { let mut hit = false; for (_, c) in fs.iter_mut() { let mut tmp = vec![c.clone()]; if replace(&mut tmp, &p, path, new) { *c = tmp.remove(0); hit = true; } } hit }
                    _ => false,
                };
                if hit { return true; }
            }
            false
        }
        let new_field = Field { name: orig.name.clone(), data_type: DataType::LargeUtf8, nullable: true, metadata: [("replaced".to_string(), "yes".to_string())].into_iter().collect() };
        let found = replace(&mut expect, "", path, &new_field);
        let idx = ctx.add_case(format!("{{| c_opts := {}; c_budget := 100; c_overwrites := []; c_ty := TyStruct []; c_from_type := Err; c_samples := []; c_from_samples := Err |}}", TOpts::default().coq()), json!({"type": T::NAME, "overwrite_at": path, "result": match &r { Out::Ok(f) => format!("Ok({:?})", f), Out::Err(e) => format!("Err({})", e), Out::Panic(p) => format!("Panic({})", p) }}), true);
        match &r {
            Out::Ok(got) => if found && *got != expect { ctx.fail(idx, "overwrite_not_exact", format!("{}: overwrite at {:?} gives {:?}, expected {:?}", T::NAME, path, got, expect)); },
            Out::Err(e) => ctx.fail(idx, "overwrite_refused", format!("{}: overwrite at the existing path {:?} is refused: {}", T::NAME, path, e)),
            Out::Panic(p) => ctx.fail(idx, "panic", p.clone()),
        }
        // a wrong name at an existing path, and a path that does not exist, are errors
        let wrong = json!({"name": format!("{}_x", orig.name), "data_type": "LargeUtf8"});
        let r2 = guarded(|| Vec::<Field>::from_type::<T>(mk(path, &wrong)?).map_err(|e| e.to_string()));
        if let Out::Ok(_) = r2 { ctx.fail(idx, "overwrite_wrong_name_accepted", format!("{}: overwrite at {:?} with another name is accepted", T::NAME, path)); }
        let r3 = guarded(|| Vec::<Field>::from_type::<T>(mk(&format!("{}.nope", path), &replacement)?).map_err(|e| e.to_string()));
        if let Out::Ok(_) = r3 { ctx.fail(idx, "overwrite_missing_path_accepted", format!("{}: overwrite at the non-existent path {}.nope is accepted", T::NAME, path)); }
    }
    let _ = rng;
}

/// overwrites compared with the models of both tracers (to_field consults the overwrite before the node itself;
/// check_overwrites refuses unknown paths): at every path of the traced tree, with and without allow_null_fields
/// (so that the overwritten node may be one that could not be traced on its own), with the right name, a wrong
/// name and below a non-existent child
fn overwrite_model_cases<T: Zoo>(ctx: &mut Ctx, rng: &mut Rng) {
    let mut o = TOpts::default(); o.allow_null = true; o.map_as_struct = false;
    let Ok(base) = Vec::<Field>::from_type::<T>(o.to_options()) else { return };
    let mut all = vec![]; for f in &base { paths("", f, &mut all); }
    let cover = T::covering(rng);
    let samples: Vec<Val> = cover.iter().map(|v| zoo::to_val(v)).collect();
    // several overwrites at once: every top-level field, and every top-level field but one, without allow_null_fields:
    // positions the tracer refuses on its own (unit fields, enums without data) must not matter once they are overwritten
    for skip in std::iter::once(None).chain((0..base.len()).map(Some)) {
        let mut o2 = o.clone(); o2.allow_null = false;
        let chosen: Vec<&Field> = base.iter().enumerate().filter(|(i, _)| Some(*i) != skip).map(|(_, f)| f).collect();
        let mk = || { let mut opts = o2.to_options(); for f in &chosen { opts = opts.overwrite(f.name.as_str(), json!({"name": f.name, "data_type": "LargeUtf8", "nullable": true})).map_err(|e| e.to_string())?; } Ok::<_, String>(opts) };
        let ft = guarded(|| Vec::<Field>::from_type::<T>(mk()?).map_err(|e| e.to_string()));
        let fs = guarded(|| Vec::<Field>::from_samples(&cover, mk()?).map_err(|e| e.to_string()));
        ctx.count(&format!("overwrite_model:top_level_{}:from_type_{}:from_samples_{}", if skip.is_none() { "all" } else { "all_but_one" }, ft.class(), fs.class()));
        let ows: Vec<String> = chosen.iter().map(|f| format!("({}, {})", cf::text(&format!("$.{}", f.name)), tg::sfield_coq(&Field { name: f.name.clone(), data_type: DataType::LargeUtf8, nullable: true, metadata: Default::default() }).unwrap())).collect();
        let coq = format!("{{| c_opts := {}; c_budget := 100; c_overwrites := [{}]; c_ty := {}; c_from_type := {}; c_samples := {}; c_from_samples := {} |}}", o2.coq(), ows.join("; "), T::ty(), res_coq(&ft), cf::list(&samples, arrgen::val_coq), res_coq(&fs));
        let idx = ctx.add_case(coq, json!({"type": T::NAME, "options": format!("{:?}", o2), "overwrite": "top_level", "skipped": skip, "from_type": match &ft { Out::Ok(f) => format!("Ok({:?})", f), Out::Err(e) => format!("Err({})", e), Out::Panic(p) => format!("Panic({})", p) }}), true);
        if skip.is_none() { if let Out::Err(e) = &ft { ctx.fail(idx, "overwrite_refused", format!("{}: every top-level field is overwritten, yet from_type fails: {}", T::NAME, e)); } }
    }
    let limit = if ctx.thorough { 64 } else { 10 };
    for (pi, (path, orig)) in all.iter().enumerate() {
        for allow_null in [true, false] {
            for (kind, name, p) in [("exact", orig.name.clone(), path.clone()), ("wrong_name", format!("{}_x", orig.name), path.clone()), ("missing_path", orig.name.clone(), format!("{}.nope", path))] {
                // every path of the tree is overwritten exactly without allow_null_fields (the overwritten node, or one below it,
                // may be one the tracer refuses on its own); the other combinations on the first paths only
                if pi >= limit && !(kind == "exact" && !allow_null) { continue; }
                let mut o2 = o.clone(); o2.allow_null = allow_null;
                let replacement = Field { name: name.clone(), data_type: DataType::LargeUtf8, nullable: true, metadata: Default::default() };
                let mk = || o2.to_options().overwrite(p.as_str(), json!({"name": name, "data_type": "LargeUtf8", "nullable": true})).map_err(|e| e.to_string());
                let ft = guarded(|| Vec::<Field>::from_type::<T>(mk()?).map_err(|e| e.to_string()));
                let fs = guarded(|| Vec::<Field>::from_samples(&cover, mk()?).map_err(|e| e.to_string()));
                ctx.count(&format!("overwrite_model:{}:allow_null_{}:from_type_{}:from_samples_{}", kind, allow_null, ft.class(), fs.class()));
                let ow = format!("[({}, {})]", cf::text(&format!("$.{}", p)), tg::sfield_coq(&replacement).unwrap());
                let coq = format!("{{| c_opts := {}; c_budget := 100; c_overwrites := {}; c_ty := {}; c_from_type := {}; c_samples := {}; c_from_samples := {} |}}", o2.coq(), ow, T::ty(), res_coq(&ft), cf::list(&samples, arrgen::val_coq), res_coq(&fs));
                let idx = ctx.add_case(coq, json!({"type": T::NAME, "options": format!("{:?}", o2), "overwrite": kind, "path": p, "from_type": match &ft { Out::Ok(f) => format!("Ok({:?})", f), Out::Err(e) => format!("Err({})", e), Out::Panic(p) => format!("Panic({})", p) }, "from_samples": match &fs { Out::Ok(f) => format!("Ok({:?})", f), Out::Err(e) => format!("Err({})", e), Out::Panic(p) => format!("Panic({})", p) }}), true);
                if let Out::Panic(pn) = &ft { ctx.fail(idx, "panic", format!("from_type panics: {}", pn)); }
                if let Out::Panic(pn) = &fs { ctx.fail(idx, "panic", format!("from_samples panics: {}", pn)); }
                // from_type and from_samples (on a collection that covers the type) agree under an overwrite as they do without one: the same
                // verdict on the path, and the same schema when the path exists
                match (&ft, &fs) {
                    (Out::Ok(a), Out::Ok(b)) => if a != b { ctx.fail(idx, "tracers_disagree_under_overwrite", format!("{}: overwrite ({}) at {:?}: from_type gives {:?}, from_samples gives {:?}", T::NAME, kind, p, a, b)); },
                    (Out::Ok(_), Out::Err(e)) => ctx.fail(idx, "tracers_disagree_under_overwrite", format!("{}: overwrite ({}) at {:?} is applied by from_type but refused by from_samples: {}", T::NAME, kind, p, e)),
                    (Out::Err(e), Out::Ok(_)) => ctx.fail(idx, "tracers_disagree_under_overwrite", format!("{}: overwrite ({}) at {:?} is applied by from_samples but refused by from_type: {}", T::NAME, kind, p, e)),
                    _ => {}
                }
                if kind != "exact" { if let Out::Ok(_) = &ft { ctx.fail(idx, "overwrite_error_case_accepted", format!("{}: overwrite ({}) at {:?} is accepted by from_type", T::NAME, kind, p)); } }
            }
        }
    }
}

fn all_for<T: Zoo>(ctx: &mut Ctx, exhaustive: bool) {
    let mut rng = ctx.rng.fork();
    if exhaustive { for b in 0..512u32 { type_case::<T>(ctx, &mut rng, &TOpts::from_bits(b), "all_options"); } }
    else { let n = if ctx.thorough { 200 } else { 40 }; for _ in 0..n { let o = TOpts::random(&mut rng); type_case::<T>(ctx, &mut rng, &o, "random_options"); } }
    // the exploration budget: every budget from 0 up to the number of passes the type needs (and one more), under
    // option sets that let the type be traced
    for budget in 0..=8usize {
        for bits in [0b000000001u32, 0b100000001, 0b000001101] {
            let mut o = TOpts::from_bits(bits); o.map_as_struct = false;
            type_case_budget::<T>(ctx, &mut rng, &o, "budget", budget);
        }
    }
    overwrite_cases::<T>(ctx, &mut rng);
    overwrite_model_cases::<T>(ctx, &mut rng);
}

pub fn run(ctx: &mut Ctx) {
    ctx.runner = "RunC08".into();
    ctx.shard_size = 200;
    ctx.rule = "a zoo of 10 derived types (all primitive widths, char, strings, bytes, Option incl. nested containers, Vec, arrays, tuples, newtype / unit / tuple structs, enums with unit / newtype / tuple / struct variants, all-unit enums, string-keyed maps, maps keyed by enums with data / integers, rename / rename_all / default / skip_serializing_if / transparent): from_type under all 2^9 option sets (3 types exhaustive; quick: the other 6 under 40 seeded sets) compared inside Coq with the documented mapping doc_schema (specification) and with from_samples on a covering sample set (also compared with the tracer model); overwrites at every path of the traced tree (exact replacement), with a wrong name (error) and at a non-existent path (error). Non-trivial: all; distinct by (type, options, result)".into();
    let ex = true;
    all_for::<zoo::Prims>(ctx, ex); all_for::<zoo::Enums>(ctx, ex); all_for::<zoo::Maps>(ctx, ex);
    let rest = ctx.thorough;
    all_for::<zoo::Nested>(ctx, rest); all_for::<zoo::Wrappers>(ctx, rest); all_for::<zoo::UnitEnums>(ctx, rest); all_for::<zoo::Attrs>(ctx, rest); all_for::<zoo::Deep>(ctx, rest); all_for::<zoo::OptEnums>(ctx, rest); all_for::<zoo::KeyMaps>(ctx, true);
    ctx.extra.insert("exhaustive".into(), json!(true));
    ctx.extra.insert("exhaustive_domain".into(), json!("all 2^9 tracing option sets on the Prims, Enums, Maps and KeyMaps types (thorough: on all 10 types)"));
}
