//! Printing of case data as Coq terms (the case files are evaluated by coqc with vm_compute).
use std::fmt::Write;

pub fn list<T, F: Fn(&T) -> String>(xs: &[T], f: F) -> String {
    let mut s = String::from("[");
    for (i, x) in xs.iter().enumerate() {
        if i > 0 {
            s.push_str("; ");
        }
        s.push_str(&f(x));
    }
    s.push(']');
    s
}

pub fn option<T, F: Fn(&T) -> String>(x: &Option<T>, f: F) -> String {
    match x {
        None => "None".into(),
        Some(v) => format!("(Some {})", f(v)),
    }
}

pub fn nat(n: usize) -> String {
    format!("{}", n)
}
pub fn boolean(b: bool) -> String {
    if b { "true".into() } else { "false".into() }
}
/// a Z literal (parenthesised, with scope)
pub fn z<T: std::fmt::Display>(v: T) -> String {
    format!("({})%Z", v)
}
/// an N literal
pub fn n<T: std::fmt::Display>(v: T) -> String {
    format!("{}%N", v)
}

/// bytes as a Coq `bytes` term: `(b "...")` when all bytes are printable ASCII, otherwise a list of N
pub fn bytes(bs: &[u8]) -> String {
    if bs.iter().all(|&c| (0x20..0x7f).contains(&c)) {
        let mut s = String::from("(b \"");
        for &c in bs {
            if c == b'"' {
                s.push_str("\"\"");
            } else {
                s.push(c as char);
            }
        }
        s.push_str("\")");
        s
    } else {
        let mut s = String::from("[");
        for (i, c) in bs.iter().enumerate() {
            if i > 0 {
                s.push(';');
            }
            write!(s, "{}", c).unwrap();
        }
        s.push_str("]%N");
        s
    }
}
pub fn text(t: &str) -> String {
    bytes(t.as_bytes())
}

pub enum Out<T> {
    Ok(T),
    Err(String),
    Panic(String),
}

impl<T> Out<T> {
    pub fn class(&self) -> &'static str {
        match self {
            Out::Ok(_) => "ok",
            Out::Err(_) => "err",
            Out::Panic(_) => "panic",
        }
    }
    pub fn coq<F: Fn(&T) -> String>(&self, f: F) -> String {
        match self {
            Out::Ok(v) => format!("(Ok {})", f(v)),
            Out::Err(_) => "Err".into(),
            Out::Panic(_) => "(Panic PExternal)".into(),
        }
    }
    pub fn map<U, F: FnOnce(T) -> U>(self, f: F) -> Out<U> {
        match self {
            Out::Ok(v) => Out::Ok(f(v)),
            Out::Err(e) => Out::Err(e),
            Out::Panic(e) => Out::Panic(e),
        }
    }
}

/// run `f` under catch_unwind; an `Err` of the crate becomes Out::Err, a panic Out::Panic
pub fn guarded<T, E: std::fmt::Display, F: FnOnce() -> Result<T, E>>(f: F) -> Out<T> {
    match std::panic::catch_unwind(std::panic::AssertUnwindSafe(f)) {
        Ok(Ok(v)) => Out::Ok(v),
        Ok(Err(e)) => Out::Err(e.to_string()),
        Err(p) => {
            let msg = if let Some(s) = p.downcast_ref::<&str>() {
                s.to_string()
            } else if let Some(s) = p.downcast_ref::<String>() {
                s.clone()
            } else {
                "panic".to_string()
            };
            Out::Panic(msg)
        }
    }
}
