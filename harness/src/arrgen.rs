//! Shared generators and printers: marrow fields, serde value trees (replayed through a
//! `Serialize` impl that makes exactly the recorded calls), marrow arrays -> Coq terms.
use crate::coqfmt as cf;
use crate::rng::Rng;
use marrow::array::Array;
use marrow::datatypes::{DataType, Field, FieldMeta, TimeUnit, UnionMode};
use serde::ser::{SerializeMap, SerializeSeq, SerializeStruct, SerializeStructVariant, SerializeTuple, SerializeTupleStruct, SerializeTupleVariant};
use serde::{Serialize, Serializer};
use std::collections::HashMap;
use std::sync::Mutex;

#[derive(Clone, Copy, Debug, PartialEq, Eq)]
pub enum IK { I8, I16, I32, I64, U8, U16, U32, U64 }
pub const IKS: [IK; 8] = [IK::I8, IK::I16, IK::I32, IK::I64, IK::U8, IK::U16, IK::U32, IK::U64];
impl IK {
    pub fn range(self) -> (i128, i128) {
        match self { IK::I8 => (i8::MIN as i128, i8::MAX as i128), IK::I16 => (i16::MIN as i128, i16::MAX as i128), IK::I32 => (i32::MIN as i128, i32::MAX as i128), IK::I64 => (i64::MIN as i128, i64::MAX as i128),
            IK::U8 => (0, u8::MAX as i128), IK::U16 => (0, u16::MAX as i128), IK::U32 => (0, u32::MAX as i128), IK::U64 => (0, u64::MAX as i128) }
    }
    pub fn fits(self, z: i128) -> bool { let (lo, hi) = self.range(); lo <= z && z <= hi }
    pub fn coq(self) -> &'static str { match self { IK::I8 => "I8", IK::I16 => "I16", IK::I32 => "I32", IK::I64 => "I64", IK::U8 => "U8", IK::U16 => "U16", IK::U32 => "U32", IK::U64 => "U64" } }
}

#[derive(Clone, Debug)]
pub enum Val {
    Bool(bool), Int(IK, i128), F32(u32), F64(u64), Char(char), Str(String), Bytes(Vec<u8>),
    None, Some(Box<Val>), Unit, UnitStruct, Newtype(Box<Val>),
    Seq(Vec<Val>), Tuple(Vec<Val>), TupleStruct(Vec<Val>),
    Map(Vec<(Val, Val)>),
    /// fields, address class: equal (name, class) -> the same &'static str address
    Struct(Vec<(String, Val)>, u8),
    UnitVariant(u32, String), NewtypeVariant(u32, String, Box<Val>), TupleVariant(u32, String, Vec<Val>), StructVariant(u32, String, Vec<(String, Val)>),
}

static INTERN: Mutex<Option<HashMap<(String, u8), &'static str>>> = Mutex::new(None);
/// static string for a name; two different classes give two different addresses for equal content
pub fn intern(name: &str, class: u8) -> &'static str {
    // class 2: names that are prefixes of one static string share their start address (slices of one allocation)
    static SHARED: &str = "abcdefgh";
    if class == 2 && SHARED.starts_with(name) { return &SHARED[..name.len()]; }
    let mut g = INTERN.lock().unwrap();
    let m = g.get_or_insert_with(HashMap::new);
    if let Some(s) = m.get(&(name.to_string(), class)) { return s; }
    let s: &'static str = Box::leak(name.to_string().into_boxed_str());
    m.insert((name.to_string(), class), s);
    s
}

impl Serialize for Val {
    fn serialize<S: Serializer>(&self, s: S) -> Result<S::Ok, S::Error> {
        match self {
            Val::Bool(b) => s.serialize_bool(*b),
            Val::Int(k, z) => match k { IK::I8 => s.serialize_i8(*z as i8), IK::I16 => s.serialize_i16(*z as i16), IK::I32 => s.serialize_i32(*z as i32), IK::I64 => s.serialize_i64(*z as i64), IK::U8 => s.serialize_u8(*z as u8), IK::U16 => s.serialize_u16(*z as u16), IK::U32 => s.serialize_u32(*z as u32), IK::U64 => s.serialize_u64(*z as u64) },
            Val::F32(b) => s.serialize_f32(f32::from_bits(*b)),
            Val::F64(b) => s.serialize_f64(f64::from_bits(*b)),
            Val::Char(c) => s.serialize_char(*c),
            Val::Str(t) => s.serialize_str(t),
            Val::Bytes(b) => s.serialize_bytes(b),
            Val::None => s.serialize_none(),
            Val::Some(v) => s.serialize_some(&**v),
            Val::Unit => s.serialize_unit(),
            Val::UnitStruct => s.serialize_unit_struct("U"),
            Val::Newtype(v) => s.serialize_newtype_struct("N", &**v),
            Val::Seq(l) => { let mut q = s.serialize_seq(Some(l.len()))?; for x in l { q.serialize_element(x)?; } q.end() }
            Val::Tuple(l) => { let mut q = s.serialize_tuple(l.len())?; for x in l { q.serialize_element(x)?; } q.end() }
            Val::TupleStruct(l) => { let mut q = s.serialize_tuple_struct("T", l.len())?; for x in l { q.serialize_field(x)?; } q.end() }
            Val::Map(kvs) => { let mut q = s.serialize_map(Some(kvs.len()))?; for (k, v) in kvs { q.serialize_key(k)?; q.serialize_value(v)?; } q.end() }
            Val::Struct(fs, class) => { let mut q = s.serialize_struct("S", fs.len())?; for (n, v) in fs { q.serialize_field(intern(n, *class), v)?; } q.end() }
            Val::UnitVariant(i, n) => s.serialize_unit_variant("E", *i, intern(n, 0)),
            Val::NewtypeVariant(i, n, v) => s.serialize_newtype_variant("E", *i, intern(n, 0), &**v),
            Val::TupleVariant(i, n, l) => { let mut q = s.serialize_tuple_variant("E", *i, intern(n, 0), l.len())?; for x in l { q.serialize_field(x)?; } q.end() }
            Val::StructVariant(i, n, fs) => { let mut q = s.serialize_struct_variant("E", *i, intern(n, 0), fs.len())?; for (k, v) in fs { q.serialize_field(intern(k, 0), v)?; } q.end() }
        }
    }
}

// ------------------------------------------------------------------------------------------
// Coq printers

pub fn val_coq(v: &Val) -> String {
    let l = |xs: &Vec<Val>| cf::list(xs, val_coq);
    let fs = |xs: &Vec<(String, Val)>| cf::list(xs, |(n, v)| format!("({}, {})", cf::text(n), val_coq(v)));
    match v {
        Val::Bool(b) => format!("(VBool {})", cf::boolean(*b)),
        Val::Int(k, z) => format!("(VInt {} {})", k.coq(), cf::z(z)),
        Val::F32(b) => format!("(VF32 {})", cf::z(b)), Val::F64(b) => format!("(VF64 {})", cf::z(b)),
        Val::Char(c) => format!("(VChar {})", cf::z(*c as u32)),
        Val::Str(t) => format!("(VStr {})", cf::text(t)), Val::Bytes(b) => format!("(VBytes {})", cf::bytes(b)),
        Val::None => "VNone".into(), Val::Some(x) => format!("(VSome {})", val_coq(x)), Val::Unit => "VUnit".into(), Val::UnitStruct => "VUnitStruct".into(),
        Val::Newtype(x) => format!("(VNewtypeStruct {})", val_coq(x)),
        Val::Seq(xs) => format!("(VSeq {})", l(xs)), Val::Tuple(xs) => format!("(VTuple {})", l(xs)), Val::TupleStruct(xs) => format!("(VTupleStruct {})", l(xs)),
        Val::Map(kvs) => format!("(VMap {})", cf::list(kvs, |(k, v)| format!("({}, {})", val_coq(k), val_coq(v)))),
        Val::Struct(f, _) => format!("(VStruct {})", fs(f)),
        Val::UnitVariant(i, n) => format!("(VUnitVariant {} {})", cf::z(i), cf::text(n)),
        Val::NewtypeVariant(i, n, x) => format!("(VNewtypeVariant {} {} {})", cf::z(i), cf::text(n), val_coq(x)),
        Val::TupleVariant(i, n, xs) => format!("(VTupleVariant {} {} {})", cf::z(i), cf::text(n), l(xs)),
        Val::StructVariant(i, n, f) => format!("(VStructVariant {} {} {})", cf::z(i), cf::text(n), fs(f)),
    }
}

pub fn unit_coq(u: TimeUnit) -> &'static str { match u { TimeUnit::Second => "Second", TimeUnit::Millisecond => "Millisecond", TimeUnit::Microsecond => "Microsecond", TimeUnit::Nanosecond => "Nanosecond" } }

fn intkind_of(dt: &DataType) -> Option<IK> {
    Some(match dt { DataType::Int8 => IK::I8, DataType::Int16 => IK::I16, DataType::Int32 => IK::I32, DataType::Int64 => IK::I64, DataType::UInt8 => IK::U8, DataType::UInt16 => IK::U16, DataType::UInt32 => IK::U32, DataType::UInt64 => IK::U64, _ => return None })
}

pub fn dt_coq(dt: &DataType) -> String {
    use DataType as T;
    match dt {
        T::Null => "DNull".into(), T::Boolean => "DBool".into(),
        T::Int8 | T::Int16 | T::Int32 | T::Int64 | T::UInt8 | T::UInt16 | T::UInt32 | T::UInt64 => format!("(DPrim (PInt {}))", intkind_of(dt).unwrap().coq()),
        T::Float16 => "(DPrim PF16)".into(), T::Float32 => "(DPrim PF32)".into(), T::Float64 => "(DPrim PF64)".into(),
        T::Date32 => "(DPrim PDate32)".into(), T::Date64 => "(DPrim PDate64)".into(),
        T::Time32(u) => format!("(DPrim (PTime32 {}))", unit_coq(*u)), T::Time64(u) => format!("(DPrim (PTime64 {}))", unit_coq(*u)),
        T::Timestamp(u, tz) => format!("(DPrim (PTimestamp {} {}))", unit_coq(*u), cf::option(tz, |t| cf::text(t))),
        T::Duration(u) => format!("(DPrim (PDuration {}))", unit_coq(*u)),
        T::Decimal128(p, s) => format!("(DPrim (PDecimal {} {}))", cf::n(p), cf::z(s)),
        T::Utf8 => "(DBytes BUtf8)".into(), T::LargeUtf8 => "(DBytes BLargeUtf8)".into(), T::Binary => "(DBytes BBinary)".into(), T::LargeBinary => "(DBytes BLargeBinary)".into(),
        T::Utf8View => "(DView KUtf8View)".into(), T::BinaryView => "(DView KBinaryView)".into(),
        T::FixedSizeBinary(n) => format!("(DFixedBin {})", cf::z(n)),
        T::List(f) => format!("(DList KList {})", field_coq(f)), T::LargeList(f) => format!("(DList KLargeList {})", field_coq(f)),
        T::FixedSizeList(f, n) => format!("(DFixedList {} {})", cf::z(n), field_coq(f)),
        T::Struct(fs) => format!("(DStruct {})", cf::list(fs, field_coq)),
        T::Map(entries, _) => match &entries.data_type { T::Struct(kv) if kv.len() == 2 => format!("(DMap {} {} {})", cf::text(&entries.name), field_coq(&kv[0]), field_coq(&kv[1])), _ => "DNull".into() },
        T::Dictionary(k, v) => format!("(DDict {} {})", intkind_of(k).map(|k| k.coq()).unwrap_or("I32"), match **v { T::LargeUtf8 => "BLargeUtf8", _ => "BUtf8" }),
        T::Union(fs, _) => format!("(DUnion {})", cf::list(fs, |(t, f)| format!("({}, {})", cf::z(t), field_coq(f)))),
        _ => "DNull".into(),
    }
}
pub fn field_coq(f: &Field) -> String { format!("(mkField {} {} {})", cf::text(&f.name), dt_coq(&f.data_type), cf::boolean(f.nullable)) }
pub fn meta_coq(m: &FieldMeta) -> String { format!("{{| m_name := {}; m_nullable := {} |}}", cf::text(&m.name), cf::boolean(m.nullable)) }

pub fn bitmap_coq(off: usize, data: &[u8]) -> String { format!("{{| bm_off := {}; bm_data := {} |}}", off, cf::list(data, |x| cf::n(x))) }
fn validity_coq(v: &Option<Vec<u8>>) -> String { cf::option(v, |d| bitmap_coq(0, d)) }
fn zlist<T: Copy + Into<i128>>(v: &[T]) -> String { let mut s = String::from("["); for (i, x) in v.iter().enumerate() { if i > 0 { s.push(';'); } let z: i128 = (*x).into(); if z < 0 { s.push_str(&format!("({})", z)); } else { s.push_str(&z.to_string()); } } s.push_str("]%Z"); s }
fn nlist(v: &[u8]) -> String { let mut s = String::from("["); for (i, x) in v.iter().enumerate() { if i > 0 { s.push(';'); } s.push_str(&x.to_string()); } s.push_str("]%N"); s }

pub fn array_coq(a: &Array) -> String {
    use Array as A;
    let prim = |k: String, v: &Option<Vec<u8>>, vals: String| format!("(APrim {} {} {})", k, validity_coq(v), vals);
    match a {
        A::Null(x) => format!("(ANull {})", x.len),
        A::Boolean(x) => format!("(ABool {} {} {})", x.len, validity_coq(&x.validity), bitmap_coq(0, &x.values)),
        A::Int8(x) => prim("(PInt I8)".into(), &x.validity, zlist(&x.values)), A::Int16(x) => prim("(PInt I16)".into(), &x.validity, zlist(&x.values)),
        A::Int32(x) => prim("(PInt I32)".into(), &x.validity, zlist(&x.values)), A::Int64(x) => prim("(PInt I64)".into(), &x.validity, zlist(&x.values)),
        A::UInt8(x) => prim("(PInt U8)".into(), &x.validity, zlist(&x.values)), A::UInt16(x) => prim("(PInt U16)".into(), &x.validity, zlist(&x.values)),
        A::UInt32(x) => prim("(PInt U32)".into(), &x.validity, zlist(&x.values)), A::UInt64(x) => prim("(PInt U64)".into(), &x.validity, zlist(&x.values)),
        A::Float16(x) => prim("PF16".into(), &x.validity, zlist(&x.values.iter().map(|f| f.to_bits()).collect::<Vec<u16>>())),
        A::Float32(x) => prim("PF32".into(), &x.validity, zlist(&x.values.iter().map(|f| f.to_bits()).collect::<Vec<u32>>())),
        A::Float64(x) => prim("PF64".into(), &x.validity, zlist(&x.values.iter().map(|f| f.to_bits()).collect::<Vec<u64>>())),
        A::Date32(x) => prim("PDate32".into(), &x.validity, zlist(&x.values)), A::Date64(x) => prim("PDate64".into(), &x.validity, zlist(&x.values)),
        A::Time32(x) => prim(format!("(PTime32 {})", unit_coq(x.unit)), &x.validity, zlist(&x.values)),
        A::Time64(x) => prim(format!("(PTime64 {})", unit_coq(x.unit)), &x.validity, zlist(&x.values)),
        A::Duration(x) => prim(format!("(PDuration {})", unit_coq(x.unit)), &x.validity, zlist(&x.values)),
        A::Timestamp(x) => prim(format!("(PTimestamp {} {})", unit_coq(x.unit), cf::option(&x.timezone, |t| cf::text(t))), &x.validity, zlist(&x.values)),
        A::Decimal128(x) => prim(format!("(PDecimal {} {})", cf::n(x.precision), cf::z(x.scale)), &x.validity, zlist(&x.values)),
        A::Utf8(x) => format!("(ABytes BUtf8 {} {} {})", validity_coq(&x.validity), zlist(&x.offsets), nlist(&x.data)),
        A::LargeUtf8(x) => format!("(ABytes BLargeUtf8 {} {} {})", validity_coq(&x.validity), zlist(&x.offsets), nlist(&x.data)),
        A::Binary(x) => format!("(ABytes BBinary {} {} {})", validity_coq(&x.validity), zlist(&x.offsets), nlist(&x.data)),
        A::LargeBinary(x) => format!("(ABytes BLargeBinary {} {} {})", validity_coq(&x.validity), zlist(&x.offsets), nlist(&x.data)),
        A::Utf8View(x) => format!("(AView KUtf8View {} {} {})", validity_coq(&x.validity), cf::list(&x.data, |d| cf::n(d)), cf::list(&x.buffers, |b| nlist(b))),
        A::BinaryView(x) => format!("(AView KBinaryView {} {} {})", validity_coq(&x.validity), cf::list(&x.data, |d| cf::n(d)), cf::list(&x.buffers, |b| nlist(b))),
        A::FixedSizeBinary(x) => format!("(AFixedBin {} {} {})", cf::z(x.n), validity_coq(&x.validity), nlist(&x.data)),
        A::List(x) => format!("(AList KList {} {} {} {})", validity_coq(&x.validity), zlist(&x.offsets), meta_coq(&x.meta), array_coq(&x.elements)),
        A::LargeList(x) => format!("(AList KLargeList {} {} {} {})", validity_coq(&x.validity), zlist(&x.offsets), meta_coq(&x.meta), array_coq(&x.elements)),
        A::FixedSizeList(x) => format!("(AFixedList {} {} {} {} {})", x.len, cf::z(x.n), validity_coq(&x.validity), meta_coq(&x.meta), array_coq(&x.elements)),
        A::Struct(x) => format!("(AStruct {} {} {})", x.len, validity_coq(&x.validity), cf::list(&x.fields, |(m, c)| format!("({}, {})", meta_coq(m), array_coq(c)))),
        A::Map(x) => format!("(AMap {} {} {} {} {} {} {})", validity_coq(&x.validity), zlist(&x.offsets), cf::text(&x.meta.entries_name), meta_coq(&x.meta.keys), meta_coq(&x.meta.values), array_coq(&x.keys), array_coq(&x.values)),
        A::Dictionary(x) => format!("(ADict {} {})", array_coq(&x.keys), array_coq(&x.values)),
        A::Union(x) => format!("(AUnion {} {} {})", zlist(&x.types), zlist(x.offsets.as_deref().unwrap_or(&[])), cf::list(&x.fields, |(t, m, c)| format!("({}, {}, {})", cf::z(t), meta_coq(m), array_coq(c)))),
        _ => "(ANull 0)".into(),
    }
}

// ------------------------------------------------------------------------------------------
// field generator

pub const STR_LENS: [usize; 9] = [0, 1, 3, 4, 11, 12, 13, 20, 64];
const NAMES: [&str; 8] = ["a", "b", "c", "item", "", "é", "x y", "val"];

fn mk(name: &str, dt: DataType, nullable: bool) -> Field { Field { name: name.to_string(), data_type: dt, nullable, metadata: Default::default() } }

pub static CORE_ONLY: std::sync::atomic::AtomicBool = std::sync::atomic::AtomicBool::new(false);

pub fn gen_field(rng: &mut Rng, name: &str, depth: usize) -> Field {
    use DataType as T;
    if CORE_ONLY.load(std::sync::atomic::Ordering::Relaxed) {
        let nullable = rng.chance(1, 2);
        let leaf = depth == 0 || rng.chance(2, 5);
        let dt = if leaf { match rng.below(22) { 0 | 1 => T::Boolean, 2 => T::Int8, 3 => T::Int16, 4 => T::Int32, 5 => T::Int64, 6 => T::UInt8, 7 => T::UInt16, 8 => T::UInt32, 9 => T::UInt64, 10 | 11 => T::Utf8, 12 => T::LargeUtf8,
            // primitive kinds added to the builder model: same-width floats and the integer presentation of temporal columns
            13 => T::Float32, 14 => T::Float64, 15 => if rng.chance(1, 2) { T::Date32 } else { T::Date64 },
            16 => match rng.below(4) { 0 => T::Time32(TimeUnit::Second), 1 => T::Time32(TimeUnit::Millisecond), 2 => T::Time64(TimeUnit::Microsecond), _ => T::Time64(TimeUnit::Nanosecond) },
            17 => T::Timestamp(*rng.pick(&[TimeUnit::Second, TimeUnit::Millisecond, TimeUnit::Microsecond, TimeUnit::Nanosecond]), if rng.chance(1, 2) { None } else { Some("UTC".to_string()) }),
            18 => T::Duration(*rng.pick(&[TimeUnit::Second, TimeUnit::Millisecond, TimeUnit::Microsecond, TimeUnit::Nanosecond])),
            // binary columns (bytes, or a sequence / tuple of u8): in the builder model since the BinaryBuilder was added
            19 => T::Binary, 20 => T::LargeBinary,
            _ => T::LargeUtf8 } }
            else { match rng.below(4) { 0 | 1 => T::Struct({ let n = 1 + rng.below(3); let mut names: Vec<&str> = NAMES.to_vec(); rng.shuffle(&mut names); (0..n).map(|i| gen_field(rng, names[i], depth - 1)).collect() }), 2 => T::List(Box::new(gen_field(rng, "element", depth - 1))), _ => T::LargeList(Box::new(gen_field(rng, "element", depth - 1))) } };
        return mk(name, dt, nullable);
    }
    let nullable = rng.chance(1, 2);
    let leaf = depth == 0 || rng.chance(1, 2);
    let dt = if leaf {
        match rng.below(30) {
            0 => T::Null, 1 | 2 => T::Boolean,
            3 => T::Int8, 4 => T::Int16, 5 | 6 => T::Int32, 7 | 8 => T::Int64, 9 => T::UInt8, 10 => T::UInt16, 11 => T::UInt32, 12 => T::UInt64,
            13 => T::Float32, 14 => T::Float64, 15 => T::Date32, 16 => T::Date64,
            17 => T::Time32(*rng.pick(&[TimeUnit::Second, TimeUnit::Millisecond])), 18 => T::Time64(*rng.pick(&[TimeUnit::Microsecond, TimeUnit::Nanosecond])),
            19 => T::Timestamp(*rng.pick(&[TimeUnit::Second, TimeUnit::Millisecond, TimeUnit::Microsecond, TimeUnit::Nanosecond]), if rng.chance(1, 2) { Some("UTC".into()) } else { None }),
            20 => T::Duration(*rng.pick(&[TimeUnit::Second, TimeUnit::Millisecond, TimeUnit::Microsecond, TimeUnit::Nanosecond])),
            21 | 22 => T::Utf8, 23 | 24 => T::LargeUtf8, 25 => T::Utf8View, 26 => T::Binary, 27 => T::LargeBinary, 28 => T::BinaryView,
            _ => if rng.chance(1, 2) { T::FixedSizeBinary(*rng.pick(&[1, 2, 3, 7])) } else { T::Dictionary(Box::new(match rng.below(4) { 0 => T::Int8, 1 => T::UInt16, 2 => T::Int32, _ => T::UInt64 }), Box::new(if rng.chance(1, 2) { T::Utf8 } else { T::LargeUtf8 })) },
        }
    } else {
        match rng.below(8) {
            0 | 1 => T::Struct({ let n = 1 + rng.below(3); let mut names: Vec<&str> = NAMES.to_vec(); rng.shuffle(&mut names); (0..n).map(|i| gen_field(rng, names[i], depth - 1)).collect() }),
            2 => { let nm = if rng.chance(3, 4) { "element" } else { "item" }; T::List(Box::new(gen_field(rng, nm, depth - 1))) }
            3 => T::LargeList(Box::new(gen_field(rng, "element", depth - 1))),
            4 => T::FixedSizeList(Box::new(gen_field(rng, "element", depth - 1)), *rng.pick(&[1, 2, 3])),
            5 => { let key = mk("key", if rng.chance(2, 3) { T::Utf8 } else { T::Int32 }, false); let val = gen_field(rng, "value", depth - 1); T::Map(Box::new(mk("entries", T::Struct(vec![key, val]), false)), false) }
            _ => { let n = 1 + rng.below(3); T::Union((0..n).map(|i| { let mut f = if rng.chance(1, 4) { mk("", T::Null, true) } else { gen_field(rng, "", depth - 1) }; f.name = format!("V{}", i); (i as i8, f) }).collect(), UnionMode::Dense) }
        }
    };
    let nullable = match &dt { T::Null => true, T::Union(..) => false, _ => nullable };
    let mut f = mk(name, dt, nullable);
    if rng.chance(1, 6) { f.metadata.insert("origin".into(), format!("m{}", rng.below(100))); }
    f
}

pub fn gen_schema(rng: &mut Rng) -> Vec<Field> {
    let n = 1 + rng.below(3);
    let mut names: Vec<&str> = NAMES.to_vec(); rng.shuffle(&mut names);
    (0..n).map(|i| { let d = 1 + rng.below(3); gen_field(rng, names[i], d) }).collect()
}

// ------------------------------------------------------------------------------------------
// value generator

fn gen_string(rng: &mut Rng) -> String {
    let n = *rng.pick(&STR_LENS);
    let pool = ['a', 'b', 'z', '0', ' ', 'é', '日', '𝄞', '"', '\\'];
    let mut s = String::new();
    while s.len() < n { let m = if rng.chance(3, 4) { 5 } else { pool.len() }; let c = pool[rng.below(m)]; if s.len() + c.len_utf8() <= n { s.push(c); } else { s.push('x'); } }
    s
}
fn gen_bytes(rng: &mut Rng, n: usize) -> Vec<u8> { (0..n).map(|_| if rng.chance(1, 4) { *rng.pick(&[0u8, 255, 128, 127]) } else { rng.below(256) as u8 }).collect() }

fn int_presentation(rng: &mut Rng, z: i128) -> Val {
    let fitting: Vec<IK> = IKS.iter().copied().filter(|k| k.fits(z)).collect();
    Val::Int(*rng.pick(&fitting), z)
}
/// integers (and chars) for a Float32 / Float64 column (`v as f32` / `v as f64`): small ones, boundary values of every width, and the
/// neighbourhood of ties of the target significand (sig bits) - on the tie, one above, one below, a little further - at every exponent
/// up to 2^63, where a detour through the other float width would round twice
/// f64 values for a Float32 column (`v as f32`, the path of every serde_json number): values on the f32 grid, on / just above / just below
/// a tie between two neighbouring f32 values (in the normal and in the subnormal range of f32), around the overflow threshold, below the
/// smallest subnormal, infinities, zeros and the canonical NaN (other NaN payloads are not compared: their conversion is not specified)
pub fn gen_f64_for_f32(rng: &mut Rng) -> u64 {
    let sign = (rng.below(2) as u64) << 63;
    let tail = |rng: &mut Rng| -> u64 { match rng.below(7) { 0 => 0, 1 => 1 << 28, 2 => (1 << 28) + 1, 3 => (1 << 28) - 1, 4 => (1 << 28) | (rng.next_u64() & 0xfff_ffff), 5 => 0x1fff_ffff, _ => rng.next_u64() & 0x1fff_ffff } };
    match rng.below(10) {
        0 => *rng.pick(&[0u64, 1 << 63, 0x7ff0_0000_0000_0000, 0xfff0_0000_0000_0000, 0x7ff8_0000_0000_0000, 1, 0x000f_ffff_ffff_ffff]),
        1 => { let b = rng.next_u64(); if f64::from_bits(b).is_nan() { 0x7ff8_0000_0000_0000 } else { b } }
        // around the largest finite f32 (field 254, all ones) and the overflow threshold halfway to 2^128
        2 => sign | ((127u64 + 1023) << 52) | (0x7f_ffffu64 << 29) | tail(rng),
        3 => sign | ((128u64 + 1023) << 52) | (rng.next_u64() & 0xf_ffff_ffff_ffff & if rng.chance(1, 2) { 0 } else { !0 }),
        // the subnormal range of f32: exponents -150 (half the smallest subnormal: a tie with zero) .. -127, ties sit at every bit position
        4 | 5 => { let e = -150 + rng.below(24) as i64; let frac = rng.next_u64() & 0xf_ffff_ffff_ffff; let sh = rng.below(52) as u32;
                   let m = match rng.below(4) { 0 => 0, 1 => (frac >> sh) << sh, 2 => ((frac >> sh) << sh) | 1, _ => frac }; sign | (((e + 1023) as u64) << 52) | m }
        // the normal range: an f32 significand followed by a tie pattern
        _ => { let e = -126 + rng.below(254) as i64; sign | (((e + 1023) as u64) << 52) | ((rng.next_u64() & 0x7f_ffff) << 29) | tail(rng) }
    }
}
fn gen_int_for_float(rng: &mut Rng, sig: u32) -> Val {
    let z: i128 = match rng.below(8) {
        0 => rng.below(1000) as i128 - 500,
        1 => { let k = *rng.pick(&IKS); gen_int_in(rng, k) }
        2 => return Val::Char(*rng.pick(&['a', '\u{7f}', 'é', '日', '𝄞', '\u{10ffff}'])),
        _ => {
            let e = sig + rng.below((64 - sig) as usize) as u32;
            let sh = e - (sig - 1);
            let q = (1u128 << (sig - 1)) | (rng.next_u64() as u128 & ((1u128 << (sig - 1)) - 1));
            let half = 1i128 << (sh - 1);
            let small = 1 + (rng.next_u64() as i128 & 0x3ff) % half.max(1);
            let d = match rng.below(6) { 0 => 0, 1 | 2 => 1, 3 => -1, 4 => small, _ => -small };
            let z = ((q << sh) as i128) + half + d;
            if z < (1i128 << 63) && rng.chance(1, 2) { -z } else { z }
        }
    };
    int_presentation(rng, z)
}
fn gen_int_in(rng: &mut Rng, k: IK) -> i128 {
    let (lo, hi) = k.range();
    match rng.below(6) { 0 => lo, 1 => hi, 2 => 0, 3 => (lo + 1).min(hi), 4 => hi - 1, _ => { let span = (hi - lo) as u128 + 1; lo + ((rng.next_u64() as u128 * rng.next_u64() as u128) % span) as i128 } }
}

/// Where an invalid value should be injected: counts down at every candidate position
pub struct Inject { pub countdown: i32, pub what: Option<String> }

fn wrap(rng: &mut Rng, v: Val) -> Val {
    match rng.below(12) { 0 => Val::Some(Box::new(v)), 1 => Val::Newtype(Box::new(v)), _ => v }
}

pub fn gen_val(rng: &mut Rng, f: &Field, inj: &mut Inject) -> Val {
    use DataType as T;
    // injection point?
    if inj.countdown == 0 {
        inj.countdown = -1;
        return gen_invalid(rng, f, inj);
    }
    if inj.countdown > 0 { inj.countdown -= 1; }
    if f.nullable && !matches!(f.data_type, T::Union(..)) && rng.chance(1, 5) { return if rng.chance(3, 4) { Val::None } else { Val::Unit }; }
    let v = match &f.data_type {
        T::Null => match rng.below(3) { 0 => Val::None, 1 => Val::Unit, _ => Val::UnitStruct },
        T::Boolean => Val::Bool(rng.chance(1, 2)),
        T::Int8 | T::Int16 | T::Int32 | T::Int64 | T::UInt8 | T::UInt16 | T::UInt32 | T::UInt64 => {
            let k = intkind_of(&f.data_type).unwrap();
            match rng.below(10) { 0 => Val::Bool(rng.chance(1, 2)), 1 => { let c = *rng.pick(&['a', '\u{7f}', 'é', '日', '𝄞']); if k.fits(c as i128) { Val::Char(c) } else { Val::Char('a') } } _ => { let z = gen_int_in(rng, k); int_presentation(rng, z) } }
        }
        T::Float32 if rng.chance(1, 3) => gen_int_for_float(rng, 24),
        T::Float32 if rng.chance(1, 3) => Val::F64(gen_f64_for_f32(rng)),
        T::Float32 => Val::F32(match rng.below(4) { 0 => f32::NAN.to_bits(), 1 => 0, 2 => (-1.5f32).to_bits(), _ => rng.next_u64() as u32 }),
        T::Float64 if rng.chance(1, 3) => gen_int_for_float(rng, 53),
        T::Float64 if rng.chance(1, 4) => Val::F32({ let b = rng.next_u64() as u32; match rng.below(6) { 0 => b & 0x807f_ffff, 1 => *rng.pick(&[0u32, 1, 0x8000_0000, 0x7f80_0000, 0xff80_0000, 0x7fc0_0000, 0x007f_ffff, 0x0080_0000, 0x7f7f_ffff]), _ => if f32::from_bits(b).is_nan() { 0x7fc0_0000 } else { b } } }),
        T::Float64 => Val::F64(match rng.below(4) { 0 => f64::NAN.to_bits(), 1 => 0, 2 => (2.25f64).to_bits(), _ => rng.next_u64() }),
        T::Date32 | T::Time32(_) => { let z = gen_int_in(rng, IK::I32); Val::Int(if rng.chance(1, 2) { IK::I32 } else { IK::I64 }, z) }
        T::Date64 | T::Time64(_) => { if rng.chance(1, 2) { Val::Int(IK::I32, gen_int_in(rng, IK::I32)) } else { Val::Int(IK::I64, gen_int_in(rng, IK::I64)) } }
        T::Timestamp(..) => Val::Int(IK::I64, gen_int_in(rng, IK::I64)),
        T::Duration(_) => { let k = *rng.pick(&IKS); let z = gen_int_in(rng, k); if IK::I64.fits(z) { Val::Int(k, z) } else { Val::Int(IK::I64, 7) } }
        T::Decimal128(..) => Val::Str("1".into()),
        T::Utf8 | T::LargeUtf8 | T::Utf8View => match rng.below(12) { 0 => Val::Char(*rng.pick(&['a', 'é', '日', '𝄞', '\u{0}'])), 1 => Val::Bool(rng.chance(1, 2)), 2 => { let k = *rng.pick(&IKS); Val::Int(k, gen_int_in(rng, k)) } 3 => Val::UnitVariant(rng.below(3) as u32, gen_string(rng)), _ => Val::Str(gen_string(rng)) },
        T::Binary | T::LargeBinary | T::BinaryView => { let n = *rng.pick(&STR_LENS); let b = gen_bytes(rng, n); match rng.below(6) { 0 => Val::Seq(b.iter().map(|x| Val::Int(IK::U8, *x as i128)).collect()), 1 => Val::Tuple(b.iter().map(|x| int_presentation(rng, *x as i128)).collect()), _ => Val::Bytes(b) } }
        T::FixedSizeBinary(n) => { let b = gen_bytes(rng, *n as usize); match rng.below(4) { 0 => Val::Seq(b.iter().map(|x| Val::Int(IK::U8, *x as i128)).collect()), _ => Val::Bytes(b) } }
        T::List(c) | T::LargeList(c) => { let n = *rng.pick(&[0usize, 1, 2, 5]); let items: Vec<Val> = (0..n).map(|_| gen_val(rng, c, inj)).collect(); match rng.below(8) { 0 => Val::Tuple(items), 1 => Val::TupleStruct(items), _ => Val::Seq(items) } }
        T::FixedSizeList(c, n) => { let items: Vec<Val> = (0..*n).map(|_| gen_val(rng, c, inj)).collect(); match rng.below(8) { 0 => Val::Tuple(items), 1 => Val::TupleStruct(items), _ => Val::Seq(items) } }
        T::Struct(fs) => gen_record(rng, fs, inj),
        T::Map(entries, _) => { let T::Struct(kv) = &entries.data_type else { return Val::None }; let n = rng.below(4); Val::Map((0..n).map(|i| (match kv[0].data_type { T::Utf8 => Val::Str(format!("k{}", i)), _ => Val::Int(IK::I32, i as i128) }, gen_val(rng, &kv[1], inj))).collect()) }
        T::Dictionary(..) => { let pool = ["x", "y", "", "longer string value", "é"]; let s = pool[rng.below(pool.len())].to_string(); if rng.chance(1, 6) { Val::UnitVariant(0, s) } else { Val::Str(s) } }
        T::Union(fs, _) => { let i = rng.below(fs.len()); let (_, vf) = &fs[i]; let name = vf.name.clone();
            match &vf.data_type {
                T::Null => Val::UnitVariant(i as u32, name),
                T::Struct(sfs) if rng.chance(2, 3) => { match gen_record(rng, sfs, inj) { Val::Struct(x, _) => Val::StructVariant(i as u32, name, x), Val::Tuple(x) | Val::TupleStruct(x) => Val::TupleVariant(i as u32, name, x), other => Val::NewtypeVariant(i as u32, name, Box::new(other)) } }
                _ => Val::NewtypeVariant(i as u32, name, Box::new(gen_val(rng, vf, inj))),
            } }
        _ => Val::None,
    };
    if matches!(v, Val::UnitVariant(..) | Val::NewtypeVariant(..) | Val::TupleVariant(..) | Val::StructVariant(..)) && matches!(f.data_type, T::Union(..)) { v } else { wrap(rng, v) }
}

/// a record for struct fields in a random presentation
pub fn gen_record(rng: &mut Rng, fs: &[Field], inj: &mut Inject) -> Val {
    let class = rng.below(2) as u8;
    match rng.below(10) {
        0 => { let mut v: Vec<Val> = fs.iter().map(|f| gen_val(rng, f, inj)).collect(); if rng.chance(1, 6) { v.push(Val::Bool(true)); } Val::Tuple(v) }
        1 => { let mut v: Vec<Val> = fs.iter().map(|f| gen_val(rng, f, inj)).collect(); if rng.chance(1, 3) { v.push(Val::Int(IK::I32, 99)); } Val::TupleStruct(v) }
        2 | 3 => { // map with string keys
            let mut kvs: Vec<(Val, Val)> = vec![];
            for f in fs { if f.nullable && rng.chance(1, 6) { continue; } let key = match rng.below(10) { 0 => Val::Some(Box::new(Val::Str(f.name.clone()))), 1 => Val::Newtype(Box::new(Val::Str(f.name.clone()))), _ => Val::Str(f.name.clone()) }; kvs.push((key, gen_val(rng, f, inj))); }
            if rng.chance(1, 4) { kvs.push((Val::Str("unknown_key".into()), Val::Int(IK::I32, 1))); }
            rng.shuffle(&mut kvs);
            Val::Map(kvs)
        }
        _ => {
            let mut out: Vec<(String, Val)> = vec![];
            for f in fs { if f.nullable && rng.chance(1, 6) { continue; } out.push((f.name.clone(), gen_val(rng, f, inj))); }
            if rng.chance(1, 4) { out.push(("extra_field".into(), Val::Str("ignored".into()))); }
            if rng.chance(1, 3) { rng.shuffle(&mut out); }
            Val::Struct(out, class)
        }
    }
}

fn gen_invalid(rng: &mut Rng, f: &Field, inj: &mut Inject) -> Val {
    use DataType as T;
    let mut none = Inject { countdown: -1, what: None };
    let (v, what): (Val, &str) = match &f.data_type {
        // a null for a non-nullable column, in each of its presentations (None, the unit value, a unit struct)
        _ if !f.nullable && !matches!(f.data_type, T::Null) && !matches!(f.data_type, T::Union(_, _)) && rng.chance(1, 4) => (match rng.below(4) { 0 => Val::Unit, 1 => Val::UnitStruct, _ => Val::None }, "null_into_non_nullable"),
        _ if !f.nullable && !matches!(f.data_type, T::Null) && rng.chance(1, 4) => (Val::None, "null_into_non_nullable"),
        T::Int8 | T::Int16 | T::Int32 | T::Int64 | T::UInt8 | T::UInt16 | T::UInt32 | T::UInt64 => {
            let k = intkind_of(&f.data_type).unwrap(); let (lo, hi) = k.range();
            let z = if rng.chance(1, 2) { hi + 1 } else { lo - 1 };
            let fitting: Vec<IK> = IKS.iter().copied().filter(|x| x.fits(z)).collect();
            if fitting.is_empty() { (Val::Str("x".into()), "wrong_kind") } else { (Val::Int(*rng.pick(&fitting), z), "integer_out_of_range") }
        }
        T::Boolean => (Val::Int(IK::I32, 1), "wrong_kind"),
        T::FixedSizeBinary(n) => (Val::Bytes(gen_bytes(rng, (*n as usize) + 1)), "wrong_fixed_count"),
        T::FixedSizeList(c, n) => (Val::Seq((0..(*n as usize + 1)).map(|_| gen_val(rng, c, &mut none)).collect()), "wrong_fixed_count"),
        T::Struct(fs) => {
            match rng.below(3) {
                0 => { if let Some(req) = fs.iter().position(|x| !x.nullable && !matches!(x.data_type, T::Null)) { let out: Vec<(String, Val)> = fs.iter().enumerate().filter(|(i, _)| *i != req).map(|(_, x)| (x.name.clone(), gen_val(rng, x, &mut none))).collect();
                       // the required field is absent: through the struct protocol, through the map protocol, or (when it is the last one) in a tuple that ends early
                       match rng.below(3) {
                           0 => (Val::Struct(out, 0), "missing_required_field"),
                           1 => (Val::Map(out.into_iter().map(|(k, v)| (Val::Str(k), v)).collect()), "missing_required_field"),
                           _ => { let last_req = fs.iter().rposition(|x| !x.nullable && !matches!(x.data_type, T::Null)).unwrap(); (Val::Tuple(fs.iter().take(last_req).map(|x| gen_val(rng, x, &mut none)).collect()), "missing_required_field") }
                       } } else { (Val::Int(IK::I32, 1), "wrong_kind") } }
                1 => { let mut out: Vec<(String, Val)> = fs.iter().map(|x| (x.name.clone(), gen_val(rng, x, &mut none))).collect(); let d = out[0].clone(); out.push(d);
                       // the same key twice: through the struct protocol, or through the map protocol (flattened / hand-written Serialize impls)
                       if rng.chance(1, 2) { (Val::Struct(out, 0), "duplicate_field") } else { (Val::Map(out.into_iter().map(|(k, v)| (Val::Str(k), v)).collect()), "duplicate_field") } }
                _ => (Val::Str("not a struct".into()), "wrong_kind"),
            }
        }
        T::Union(fs, _) => (Val::UnitVariant(fs.len() as u32 + rng.below(3) as u32, "Nope".into()), "unknown_variant"),
        T::Dictionary(..) => (Val::Seq(vec![]), "wrong_kind"),   // integers are accepted (stored as their text), like in plain string columns
        T::Utf8 | T::LargeUtf8 | T::Utf8View => (Val::Seq(vec![]), "wrong_kind"),
        T::Null => (Val::Int(IK::I32, 0), "wrong_kind"),
        _ => (Val::Struct(vec![("q".into(), Val::Bool(true))], 0), "wrong_kind"),
    };
    inj.what = Some(what.to_string());
    v
}

pub fn struct_field(fields: &[Field]) -> Field { mk("$", DataType::Struct(fields.to_vec()), false) }

/// bit-exact equality of arrays (floats by bit pattern; `PartialEq` would say NaN != NaN)
pub fn arrays_eq(a: &[Array], b: &[Array]) -> bool {
    a.len() == b.len() && a.iter().zip(b).all(|(x, y)| x.data_type() == y.data_type() && array_coq(x) == array_coq(y))
}
