//! C10: ArrayBuilder histories (push / extend / serialize through the wrapper / build), each
//! returned batch compared with the one-shot conversion of exactly the rows added since the
//! previous build, and judged by the specification (RunC01 cases).
use crate::arrgen::{self, Inject, Val};
use crate::coqfmt::{self as cf, guarded, Out};
use crate::ctx::Ctx;
use marrow::array::Array;
use marrow::datatypes::{DataType, Field, TimeUnit, UnionMode};
use serde::Serialize;
use serde_arrow::ArrayBuilder;
use serde_json::json;

fn mk(name: &str, dt: DataType, nullable: bool) -> Field { Field { name: name.to_string(), data_type: dt, nullable, metadata: Default::default() } }

/// schemas that carry per-batch state
fn stateful_schema(rng: &mut crate::rng::Rng) -> Vec<Field> {
    use DataType as T;
    let mut fs = vec![];
    let n = 1 + rng.below(3);
    for i in 0..n {
        let name = format!("f{}", i);
        let nullable = rng.chance(1, 2);
        let f = match rng.below(9) {
            0 => mk(&name, T::Dictionary(Box::new(rng.pick(&[T::Int8, T::UInt16, T::Int32, T::UInt64]).clone()), Box::new(if rng.chance(1, 2) { T::Utf8 } else { T::LargeUtf8 })), nullable),
            1 => mk(&name, T::Union(vec![(0, mk("A", T::Null, true)), (1, mk("B", T::Int32, false)), (2, mk("C", T::Struct(vec![mk("x", T::Utf8, true), mk("y", T::Boolean, false)]), false))], UnionMode::Dense), false),
            2 => mk(&name, T::List(Box::new(mk("element", if rng.chance(1, 2) { T::Int64 } else { T::Utf8 }, rng.chance(1, 2)))), nullable),
            3 => mk(&name, T::Map(Box::new(mk("entries", T::Struct(vec![mk("key", T::Utf8, false), mk("value", T::Int32, true)]), false)), false), nullable),
            4 => mk(&name, T::Struct(vec![mk("a", T::Int32, rng.chance(1, 2)), mk("d", T::Dictionary(Box::new(T::Int32), Box::new(T::Utf8)), true), mk("l", T::LargeList(Box::new(mk("element", T::Boolean, true))), true)]), nullable),
            5 => mk(&name, if rng.chance(1, 2) { T::Utf8View } else { T::BinaryView }, nullable),
            6 => mk(&name, T::FixedSizeList(Box::new(mk("element", T::Int16, true)), 2), nullable),
            7 => mk(&name, T::Timestamp(TimeUnit::Millisecond, Some("UTC".into())), nullable),
            _ => arrgen::gen_field(rng, &name, 2),
        };
        fs.push(f);
    }
    fs
}

#[derive(Debug, Clone)]
enum Op { Push(Val), Extend(Vec<Val>), Wrapper(Vec<Val>), Build, Rejected(u8) }

/// a value no record builder accepts and that is refused before any column is touched: the push fails
/// and must leave every column as it was (no row is added by an operation that did not succeed)
fn push_rejected(builder: &mut ArrayBuilder, k: u8) -> Result<(), String> {
    let r = match k { 0 => builder.push(&None::<i32>), 1 => builder.push(&()), 2 => builder.push(&7i32), 3 => builder.push(&"x"), 4 => builder.push(&true), _ => builder.extend(&[None::<i32>]) };
    match r { Err(_) => Ok(()), Ok(()) => Err("REJECTED_VALUE_ACCEPTED".to_string()) }
}

fn arrays_equal(a: &[Array], b: &[Array]) -> bool { arrgen::arrays_eq(a, b) }

pub fn run(ctx: &mut Ctx) {
    ctx.runner = "RunC10".into();
    ctx.shard_size = 120;
    ctx.rule = "histories of push / extend / serialize-through-Serializer / build on one ArrayBuilder (1-6 builds incl. empty and repeated builds; every third history also has REJECTED operations in between - None, unit, a bare scalar or string pushed as the record, extend with a None - which must fail and leave no row behind) over schemas with per-batch state (dictionaries, dense unions, lists, maps, nullable structs, view types) and random schemas; every returned batch is (a) compared with to_marrow of exactly the rows added since the previous build, (b) compared with a freshly constructed builder fed the same rows, (c) emitted as a RunC01 case (decode = interp, wf, builder model). Non-trivial = at least two builds with rows in between; distinct by (schema, batch rows, result)".into();
    let n = if ctx.thorough { 8000 } else { 500 };
    for h in 0..n {
        let mut rng = ctx.rng.fork();
        let fields = if rng.chance(2, 3) { stateful_schema(&mut rng) } else { arrgen::gen_schema(&mut rng) };
        let nops = 2 + rng.below(10);
        let mut ops = vec![];
        let mut none = Inject { countdown: -1, what: None };
        for _ in 0..nops {
            let rows = |rng: &mut crate::rng::Rng, none: &mut Inject| -> Vec<Val> { let k = rng.below(4); (0..k).map(|_| arrgen::gen_record(rng, &fields, none)).collect() };
            let with_rejects = h % 3 == 0;
            if with_rejects && rng.chance(1, 3) { ops.push(Op::Rejected(rng.below(6) as u8)); }
            ops.push(match rng.below(8) { 0 | 1 | 2 => Op::Push(arrgen::gen_record(&mut rng, &fields, &mut none)), 3 => Op::Extend(rows(&mut rng, &mut none)), 4 => Op::Wrapper(rows(&mut rng, &mut none)), _ => Op::Build });
        }
        ops.push(Op::Build);
        let res = guarded(|| -> Result<Vec<(Vec<Val>, Vec<Array>)>, String> {
            let mut builder = ArrayBuilder::from_marrow(&fields).map_err(|e| e.to_string())?;
            let mut pending: Vec<Val> = vec![];
            let mut batches = vec![];
            for op in &ops {
                match op {
                    Op::Push(v) => { builder.push(v).map_err(|e| e.to_string())?; pending.push(v.clone()); }
                    Op::Extend(vs) => { builder.extend(vs).map_err(|e| e.to_string())?; pending.extend(vs.iter().cloned()); }
                    Op::Wrapper(vs) => { vs.serialize(serde_arrow::Serializer::new(&mut builder)).map_err(|e| e.to_string())?; pending.extend(vs.iter().cloned()); }
                    Op::Rejected(k) => push_rejected(&mut builder, *k)?,
                    Op::Build => { let arrays = builder.to_marrow().map_err(|e| e.to_string())?; batches.push((std::mem::take(&mut pending), arrays)); }
                }
            }
            Ok(batches)
        });
        ctx.count(&format!("history:{}", res.class()));
        if ops.iter().any(|o| matches!(o, Op::Rejected(_))) { ctx.count("history:with_rejected_pushes"); }
        match res {
            Out::Ok(batches) => {
                let nb = batches.iter().filter(|(r, _)| !r.is_empty()).count();
                for (k, (rows, arrays)) in batches.iter().enumerate() {
                    let coq = format!("(CBatch {{| c_fields := {}; c_rows := {}; c_impl := (Ok {}) |}})", cf::list(&fields, arrgen::field_coq), cf::list(rows, arrgen::val_coq), cf::list(arrays, arrgen::array_coq));
                    let desc = json!({"history": h, "batch": k, "fields": format!("{:?}", fields.iter().map(|f| (&f.name, &f.data_type, f.nullable)).collect::<Vec<_>>()), "ops": format!("{:?}", ops), "batch_rows": format!("{:?}", rows), "arrays": format!("{:?}", arrays)});
                    let idx = ctx.add_case(coq, desc, nb >= 2);
                    // (a) one-shot conversion of the same rows
                    match guarded(|| serde_arrow::to_marrow(&fields, rows).map_err(|e| e.to_string())) {
                        Out::Ok(one) => if !arrays_equal(&one, arrays) { ctx.fail(idx, "batch_differs_from_one_shot", format!("batch {} of history {}: builder returned {:?} but to_marrow of the same rows gives {:?}", k, h, arrays, one)); },
                        Out::Err(e) => ctx.fail(idx, "one_shot_rejects_accepted_rows", e),
                        Out::Panic(p) => ctx.fail(idx, "panic", p),
                    }
                    ctx.count(if rows.is_empty() { "batch:empty" } else { "batch:rows" });
                }
            }
            Out::Err(e) => {
                // histories are made of valid rows only: a failure means the builder state was disturbed by an earlier build
                let desc = json!({"history": h, "fields": format!("{:?}", fields), "ops": format!("{:?}", ops), "error": e});
                let idx = ctx.add_case(format!("(CBatch {{| c_fields := []; c_rows := []; c_impl := (Ok []) |}})"), desc, true);
                // is the failure reproducible on a fresh builder with the same rows? then it is not a history effect
                let all: Vec<Val> = ops.iter().flat_map(|o| match o { Op::Push(v) => vec![v.clone()], Op::Extend(v) | Op::Wrapper(v) => v.clone(), Op::Build | Op::Rejected(_) => vec![] }).collect();
                if let Out::Ok(_) = guarded(|| serde_arrow::to_marrow(&fields, &all).map_err(|e| e.to_string())) {
                    ctx.fail(idx, "history_fails_but_one_shot_succeeds", format!("history {}: {}", h, e));
                }
            }
            Out::Panic(p) => { let idx = ctx.add_case(format!("(CBatch {{| c_fields := []; c_rows := []; c_impl := (Panic PExternal) |}})"), json!({"history": h, "ops": format!("{:?}", ops)}), true); ctx.fail(idx, "panic", p); }
        }
        }
    // histories over one dictionary column, compared with the dictionary builder model: repeated and new
    // strings, everything with a to_string, nulls, Option / newtype layers, builds (also empty and repeated)
    dict_stream(ctx);
    // histories over one dense union column (Null, Boolean, integer, string, list and struct variants), compared
    // with the union builder model: type ids, offsets per variant, reset at every build
    union_stream(ctx);
}

fn dict_stream(ctx: &mut Ctx) {
    use crate::arrgen::IK;
    use marrow::datatypes::{DataType, Field};
    let n = if ctx.thorough { 4000 } else { 400 };
    let keys = [(DataType::Int8, "I8"), (DataType::Int16, "I16"), (DataType::Int32, "I32"), (DataType::Int64, "I64"), (DataType::UInt8, "U8"), (DataType::UInt16, "U16"), (DataType::UInt32, "U32"), (DataType::UInt64, "U64")];
    for h in 0..n {
        let mut rng = ctx.rng.fork();
        let (kdt, kname) = keys[rng.below(keys.len())].clone();
        let large = rng.chance(1, 2);
        let nullable = rng.chance(1, 2);
        let field = Field { name: "c".into(), data_type: DataType::Dictionary(Box::new(kdt), Box::new(if large { DataType::LargeUtf8 } else { DataType::Utf8 })), nullable, metadata: Default::default() };
        // a small pool so that strings repeat within and across batches; a long tail when the key type is narrow
        let pool: Vec<String> = if rng.chance(1, 12) { (0..200).map(|i| format!("s{}", i)).collect() } else { vec!["a".into(), "".into(), "bb".into(), "é".into(), "true".into(), "7".into(), "x".into()] };
        let nops = 2 + rng.below(14);
        let mut ops: Vec<Option<Val>> = vec![];   // None = build
        for _ in 0..nops {
            if rng.chance(1, 4) { ops.push(None); continue; }
            if pool.len() > 100 && rng.chance(1, 2) { for s in &pool { ops.push(Some(Val::Str(s.clone()))); } continue; }   // more distinct strings than an 8-bit key type can number
            for _ in 0..1 {
                let v = match rng.below(12) {
                    0 if nullable => Val::None, 1 if nullable => Val::Unit,
                    2 => Val::Bool(rng.chance(1, 2)), 3 => Val::Int(IK::I32, 7), 4 => Val::Char(*rng.pick(&['x', 'é'])), 5 => Val::UnitVariant(0, rng.pick(&pool).clone()),
                    6 => Val::Some(Box::new(Val::Str(rng.pick(&pool).clone()))), 7 => Val::Newtype(Box::new(Val::Str(rng.pick(&pool).clone()))),
                    _ => Val::Str(rng.pick(&pool).clone()),
                };
                ops.push(Some(v));
            }
        }
        ops.push(None);
        let res = guarded(|| -> Result<Vec<Array>, String> {
            let mut builder = ArrayBuilder::from_marrow(std::slice::from_ref(&field)).map_err(|e| e.to_string())?;
            let mut outs = vec![];
            for op in &ops {
                match op {
                    Some(v) => builder.push(&Val::Struct(vec![("c".into(), v.clone())], 0)).map_err(|e| e.to_string())?,
                    None => { let mut a = builder.to_marrow().map_err(|e| e.to_string())?; outs.push(a.remove(0)); }
                }
            }
            Ok(outs)
        });
        ctx.count(&format!("dictionary_history:{}", res.class()));
        let ops_coq = cf::list(&ops, |o| match o { Some(v) => format!("(DPush {})", arrgen::val_coq(v)), None => "DBuild".into() });
        let coq = format!("(CDict {} {} {} {} {})", kname, if large { "BLargeUtf8" } else { "BUtf8" }, cf::boolean(nullable), ops_coq, res.coq(|a| cf::list(a, arrgen::array_coq)));
        let desc = json!({"dictionary_history": h, "field": format!("{:?}", field), "ops": format!("{:?}", ops), "impl": match &res { Out::Ok(a) => format!("{:?}", a), Out::Err(e) => format!("Err({})", e), Out::Panic(p) => format!("Panic({})", p) }});
        let idx = ctx.add_case(coq, desc, true);
        if let Out::Panic(p) = &res { ctx.fail(idx, "panic", p.clone()); }
    }
}

fn union_stream(ctx: &mut Ctx) {
    use crate::arrgen::IK;
    use marrow::datatypes::{DataType, Field, UnionMode};
    let mk = |n: &str, dt: DataType, nl: bool| Field { name: n.into(), data_type: dt, nullable: nl, metadata: Default::default() };
    let n = if ctx.thorough { 4000 } else { 400 };
    for h in 0..n {
        let mut rng = ctx.rng.fork();
        // 1-4 variants: Null, Boolean, integers, strings, lists, structs (the kinds of the builder model)
        let nv = 1 + rng.below(4);
        let variants: Vec<Field> = (0..nv).map(|i| {
            let nl = rng.chance(1, 2);
            let name = format!("V{}", i);
            match rng.below(7) {
                0 | 1 => mk(&name, DataType::Null, true),
                2 => mk(&name, DataType::Boolean, nl), 3 => mk(&name, rng.pick(&[DataType::Int8, DataType::Int32, DataType::UInt64]).clone(), nl),
                4 => mk(&name, if rng.chance(1, 2) { DataType::Utf8 } else { DataType::LargeUtf8 }, nl),
                5 => mk(&name, DataType::List(Box::new(mk("element", DataType::Int16, true))), nl),
                _ => mk(&name, DataType::Struct(vec![mk("a", DataType::Int32, false), mk("b", DataType::Utf8, true)]), nl),
            } }).collect();
        let field = mk("c", DataType::Union(variants.iter().enumerate().map(|(i, f)| (i as i8, f.clone())).collect(), UnionMode::Dense), false);
        let payload = |rng: &mut crate::rng::Rng, i: usize, f: &Field| -> Val {
            let name = f.name.clone();
            match &f.data_type {
                DataType::Null => match rng.below(3) { 0 => Val::UnitVariant(i as u32, name), 1 => Val::NewtypeVariant(i as u32, name, Box::new(Val::None)), _ => Val::NewtypeVariant(i as u32, name, Box::new(Val::Unit)) },
                DataType::Boolean => Val::NewtypeVariant(i as u32, name, Box::new(if f.nullable && rng.chance(1, 4) { Val::None } else { Val::Bool(rng.chance(1, 2)) })),
                DataType::Int8 | DataType::Int32 | DataType::UInt64 => Val::NewtypeVariant(i as u32, name, Box::new(if f.nullable && rng.chance(1, 4) { Val::None } else { Val::Int(IK::I8, rng.below(100) as i128) })),
                DataType::Utf8 | DataType::LargeUtf8 => if f.nullable && rng.chance(1, 5) { Val::UnitVariant(i as u32, name) } else { Val::NewtypeVariant(i as u32, name, Box::new(Val::Str((*rng.pick(&["", "a", "héllo"])).to_string()))) },
                DataType::List(_) => { let items: Vec<Val> = (0..rng.below(3)).map(|k| if k == 1 { Val::None } else { Val::Int(IK::I16, 300) }).collect(); if rng.chance(1, 2) { Val::TupleVariant(i as u32, name, items) } else { Val::NewtypeVariant(i as u32, name, Box::new(Val::Seq(items))) } }
                _ => match rng.below(3) { 0 => Val::StructVariant(i as u32, name, vec![("b".into(), Val::Str("s".into())), ("a".into(), Val::Int(IK::I32, 5))]), 1 => Val::StructVariant(i as u32, name, vec![("a".into(), Val::Int(IK::I32, -1))]), _ => Val::TupleVariant(i as u32, name, vec![Val::Int(IK::I32, 2), Val::None]) },
            }
        };
        let nops = 2 + rng.below(14);
        let mut ops: Vec<Option<Val>> = vec![];
        for _ in 0..nops {
            if rng.chance(1, 4) { ops.push(None); continue; }
            let i = rng.below(nv);
            // now and then a variant index the union does not have
            if rng.chance(1, 40) { ops.push(Some(Val::UnitVariant(nv as u32, "X".into()))); continue; }
            ops.push(Some(payload(&mut rng, i, &variants[i])));
        }
        ops.push(None);
        let res = guarded(|| -> Result<Vec<Array>, String> {
            let mut builder = ArrayBuilder::from_marrow(std::slice::from_ref(&field)).map_err(|e| e.to_string())?;
            let mut outs = vec![];
            for op in &ops {
                match op {
                    Some(v) => builder.push(&Val::Struct(vec![("c".into(), v.clone())], 0)).map_err(|e| e.to_string())?,
                    None => { let mut a = builder.to_marrow().map_err(|e| e.to_string())?; outs.push(a.remove(0)); }
                }
            }
            Ok(outs)
        });
        ctx.count(&format!("union_history:{}", res.class()));
        let ops_coq = cf::list(&ops, |o| match o { Some(v) => format!("(UPush {})", arrgen::val_coq(v)), None => "UBuild".into() });
        let coq = format!("(CUnion {} {} {})", cf::list(&variants, arrgen::field_coq), ops_coq, res.coq(|a| cf::list(a, arrgen::array_coq)));
        let desc = json!({"union_history": h, "field": format!("{:?}", field), "ops": format!("{:?}", ops), "impl": match &res { Out::Ok(a) => format!("{:?}", a), Out::Err(e) => format!("Err({})", e), Out::Panic(p) => format!("Panic({})", p) }});
        let idx = ctx.add_case(coq, desc, true);
        if let Out::Panic(p) = &res { ctx.fail(idx, "panic", p.clone()); }
    }
}
