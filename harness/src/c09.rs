//! C09: schemas through every interchange form. Generated marrow fields (every supported data type
//! and parameter value, nested, arbitrary names and metadata) are passed as foreign field objects to
//! `SerdeArrowSchema::from_value`, written to the compact serde/JSON form and read back, converted to
//! arrow and arrow2 fields and back; the compact form (a serde value tree) is compared with the Coq
//! model of the printer (print_field) and read by the model of the parser (parse_field); mutated /
//! invalid schema values must be rejected by both.
use crate::coqfmt::{self as cf, guarded, Out};
use crate::ctx::Ctx;
use crate::rng::Rng;
use marrow::datatypes::{DataType, Field, TimeUnit, UnionMode};
use serde_arrow::schema::{SchemaLike, SerdeArrowSchema};
use serde_json::{json, Value};
use std::collections::HashMap;

const NAMES: [&str; 10] = ["a", "b", "", "é", "x y", "item", "日本", "q\"uote", "back\\slash", "element"];
const TZS: [&str; 9] = ["UTC", "utc", "+01:00", "Europe/Berlin", "a\"b", "back\\slash", "Zürich", "new\nline", "tab\there"];
const UNITS: [TimeUnit; 4] = [TimeUnit::Second, TimeUnit::Millisecond, TimeUnit::Microsecond, TimeUnit::Nanosecond];

fn mk(name: &str, dt: DataType, nullable: bool) -> Field { Field { name: name.to_string(), data_type: dt, nullable, metadata: HashMap::new() } }

pub fn gen_field(rng: &mut Rng, depth: usize) -> Field {
    use DataType as T;
    let name = *rng.pick(&NAMES);
    let leaf = depth == 0 || rng.chance(1, 2);
    let mut strategy: Option<&str> = None;
    let dt = if leaf {
        match rng.below(27) {
            0 => { if rng.chance(1, 3) { strategy = Some(*rng.pick(&["UnknownVariant", "InconsistentTypes"])); } T::Null }
            1 => T::Boolean, 2 => T::Int8, 3 => T::Int16, 4 => T::Int32, 5 => T::Int64, 6 => T::UInt8, 7 => T::UInt16, 8 => T::UInt32, 9 => T::UInt64,
            10 => T::Float16, 11 => T::Float32, 12 => T::Float64, 13 => T::Utf8, 14 => T::LargeUtf8, 15 => T::Utf8View, 16 => T::Binary, 17 => T::LargeBinary, 18 => T::BinaryView,
            19 => T::Date32, 20 => T::Date64,
            21 => T::Decimal128(*rng.pick(&[1u8, 2, 18, 38, 39, 255, 0]), *rng.pick(&[-128i8, -3, 0, 2, 38, 127])),
            22 => T::Duration(*rng.pick(&UNITS)), 23 => T::Time32(*rng.pick(&UNITS[..2])), 24 => T::Time64(*rng.pick(&UNITS[2..])),
            25 => T::Timestamp(*rng.pick(&UNITS), if rng.chance(1, 3) { None } else { Some(rng.pick(&TZS).to_string()) }),
            _ => T::FixedSizeBinary(*rng.pick(&[0, 1, 7, 1000, i32::MAX])),
        }
    } else {
        match rng.below(8) {
            0 | 1 => { if rng.chance(1, 3) { strategy = Some(*rng.pick(&["MapAsStruct", "TupleAsStruct"])); } T::Struct((0..rng.below(4)).map(|_| gen_field(rng, depth - 1)).collect()) }
            2 => T::List(Box::new(gen_field(rng, depth - 1))), 3 => T::LargeList(Box::new(gen_field(rng, depth - 1))),
            4 => T::FixedSizeList(Box::new(gen_field(rng, depth - 1)), *rng.pick(&[0, 1, 3, 65536])),
            5 => { let k = gen_field(rng, 0); let v = gen_field(rng, depth - 1); T::Map(Box::new(mk(*rng.pick(&["entries", "kv", ""]), T::Struct(vec![k, v]), false)), false) }
            6 => T::Dictionary(Box::new(rng.pick(&[T::Int8, T::Int16, T::Int32, T::Int64, T::UInt8, T::UInt16, T::UInt32, T::UInt64]).clone()), Box::new(if rng.chance(1, 2) { T::Utf8 } else { T::LargeUtf8 })),
            _ => T::Union((0..rng.below(4)).map(|i| (i as i8, gen_field(rng, depth - 1))).collect(), UnionMode::Dense),
        }
    };
    let nullable = matches!(dt, T::Null) || rng.chance(1, 2);
    let mut f = mk(name, dt, nullable);
    if let Some(s) = strategy { f.metadata.insert("SERDE_ARROW:strategy".into(), s.into()); }
    for _ in 0..*rng.pick(&[0usize, 0, 0, 1, 2]) { f.metadata.insert(rng.pick(&["origin", "k", "", "ARROW:extension:name", "é", "SERDE_ARROW:source", "SERDE_ARROW:strategy:hint", "SERDE_ARROW:", "serde_arrow:strategy"]).to_string(), rng.pick(&["v", "", "arrow.bool8", "{\"a\":1}", "ü"]).to_string()); }
    f
}

fn unit_coq(u: TimeUnit) -> &'static str { crate::arrgen::unit_coq(u) }

pub fn ydt_coq(dt: &DataType) -> Option<String> {
    use DataType as T;
    Some(match dt {
        T::Null => "YNull".into(), T::Boolean => "YBool".into(),
        T::Int8 => "(YInt I8)".into(), T::Int16 => "(YInt I16)".into(), T::Int32 => "(YInt I32)".into(), T::Int64 => "(YInt I64)".into(),
        T::UInt8 => "(YInt U8)".into(), T::UInt16 => "(YInt U16)".into(), T::UInt32 => "(YInt U32)".into(), T::UInt64 => "(YInt U64)".into(),
        T::Float16 => "YF16".into(), T::Float32 => "YF32".into(), T::Float64 => "YF64".into(),
        T::Utf8 => "YUtf8".into(), T::LargeUtf8 => "YLargeUtf8".into(), T::Utf8View => "YUtf8View".into(), T::Binary => "YBinary".into(), T::LargeBinary => "YLargeBinary".into(), T::BinaryView => "YBinaryView".into(),
        T::Date32 => "YDate32".into(), T::Date64 => "YDate64".into(),
        T::Decimal128(p, s) => format!("(YDecimal {} {})", cf::z(p), cf::z(s)),
        T::Duration(u) => format!("(YDuration {})", unit_coq(*u)), T::Time32(u) => format!("(YTime32 {})", unit_coq(*u)), T::Time64(u) => format!("(YTime64 {})", unit_coq(*u)),
        T::Timestamp(u, tz) => format!("(YTimestamp {} {})", unit_coq(*u), cf::option(tz, |t| cf::text(t))),
        T::FixedSizeBinary(n) => format!("(YFixedBin {})", cf::z(n)),
        T::FixedSizeList(c, n) => format!("(YFixedList {} {})", cf::z(n), yfield_coq(c)?),
        T::Struct(fs) => { let mut v = vec![]; for c in fs { v.push(yfield_coq(c)?); } format!("(YStruct [{}])", v.join("; ")) }
        T::Map(e, false) => format!("(YMap {})", yfield_coq(e)?),
        T::Union(fs, UnionMode::Dense) => { let mut v = vec![]; for (i, (t, c)) in fs.iter().enumerate() { if *t as usize != i { return None; } v.push(yfield_coq(c)?); } format!("(YUnion [{}])", v.join("; ")) }
        T::Dictionary(k, v) => format!("(YDict {} {})", ydt_coq(k)?, ydt_coq(v)?),
        T::List(c) => format!("(YList {})", yfield_coq(c)?), T::LargeList(c) => format!("(YLargeList {})", yfield_coq(c)?),
        _ => return None,
    })
}
pub fn yfield_coq(f: &Field) -> Option<String> {
    let mut meta: Vec<(&String, &String)> = f.metadata.iter().filter(|(k, _)| k.as_str() != "SERDE_ARROW:strategy").collect();
    meta.sort();
    Some(format!("(mkY {} {} {} {} {})", cf::text(&f.name), ydt_coq(&f.data_type)?, cf::boolean(f.nullable),
        cf::list(&meta, |(k, v)| format!("({}, {})", cf::text(k), cf::text(v))), cf::option(&f.metadata.get("SERDE_ARROW:strategy"), |s| cf::text(s))))
}

/// serde value tree -> Coq JV (objects with sorted keys); numbers and nulls do not occur in valid forms
pub fn jv_coq(v: &Value) -> String {
    match v {
        Value::String(s) => format!("(JStr {})", cf::text(s)), Value::Bool(x) => format!("(JBool {})", cf::boolean(*x)),
        Value::Array(l) => format!("(JArr {})", cf::list(l, jv_coq)),
        Value::Object(m) => format!("(JObj {})", cf::list(&m.iter().collect::<Vec<_>>(), |(k, x)| format!("({}, {})", cf::text(k), jv_coq(x)))),
        Value::Number(_) | Value::Null => "JOther".into(),
    }
}

/// the normal form the reader produces: Null fields are nullable
fn normalize(f: &Field) -> Field {
    use DataType as T;
    let mut g = f.clone();
    g.data_type = match &f.data_type {
        T::Struct(fs) => T::Struct(fs.iter().map(normalize).collect()), T::List(c) => T::List(Box::new(normalize(c))), T::LargeList(c) => T::LargeList(Box::new(normalize(c))),
        T::FixedSizeList(c, n) => T::FixedSizeList(Box::new(normalize(c)), *n), T::Map(c, s) => T::Map(Box::new(normalize(c)), *s),
        T::Union(fs, m) => T::Union(fs.iter().map(|(t, c)| (*t, normalize(c))).collect(), *m), other => other.clone(),
    };
    if matches!(g.data_type, T::Null) { g.nullable = true; }
    g
}

fn ascii_only(v: &Value) -> bool { match v { Value::String(s) => s.is_ascii(), Value::Array(l) => l.iter().all(ascii_only), Value::Object(m) => m.iter().all(|(k, x)| k.is_ascii() && ascii_only(x)), _ => true } }

fn roundtrip_case(ctx: &mut Ctx, f: &Field, label: &str) {
    let mut fails: Vec<(&str, String)> = vec![];
    let expected = normalize(f);
    // A: foreign (marrow) field objects are accepted as a schema value
    let s0 = guarded(|| SerdeArrowSchema::from_value(std::slice::from_ref(f)).map_err(|e| e.to_string()));
    let s0 = match s0 { Out::Ok(s) => s, Out::Err(e) => { ctx.count(&format!("{}:rejected", label)); let idx = ctx.add_case(format!("{{| c_tree := JArr []; c_expect := None; c_impl_ok := false; c_model := false; c_check_print := false; c_foreign := None |}}"), json!({"field": format!("{:?}", f), "err": e}), true); ctx.fail(idx, "valid_schema_rejected", format!("from_value refuses a valid field: {}", e)); return; } Out::Panic(p) => { let idx = ctx.add_case(format!("{{| c_tree := JArr []; c_expect := None; c_impl_ok := false; c_model := false; c_check_print := false; c_foreign := None |}}"), json!({"field": format!("{:?}", f)}), true); ctx.fail(idx, "panic", format!("from_value panics: {}", p)); return; } };
    ctx.count(&format!("{}:accepted", label));
    // compact form -> marrow fields
    match guarded(|| Vec::<Field>::from_value(&s0).map_err(|e| e.to_string())) {
        Out::Ok(back) => if back != vec![expected.clone()] { fails.push(("compact_form_changes_schema", format!("compact form reads back as {:?}, expected {:?}", back, expected))); },
        Out::Err(e) => fails.push(("compact_form_not_read_back", format!("the compact form of {:?} is refused: {}", expected, e))),
        Out::Panic(p) => fails.push(("panic", p)),
    }
    // B: JSON text
    let text = serde_json::to_string(&s0).unwrap_or_default();
    match guarded(|| serde_json::from_str::<SerdeArrowSchema>(&text).map_err(|e| e.to_string())) {
        Out::Ok(s1) => if s1 != s0 { fails.push(("json_changes_schema", format!("JSON {} reads back as {:?}", text, s1))); },
        Out::Err(e) => fails.push(("json_not_read_back", format!("JSON {} is refused: {}", text, e))),
        Out::Panic(p) => fails.push(("panic", p)),
    }
    // both top-level forms
    let tree = serde_json::to_value(&s0).unwrap_or(Value::Null);
    let list_form = tree.get("fields").cloned().unwrap_or(Value::Null);
    match (guarded(|| SerdeArrowSchema::from_value(&list_form).map_err(|e| e.to_string())), guarded(|| SerdeArrowSchema::from_value(&tree).map_err(|e| e.to_string()))) {
        (Out::Ok(a), Out::Ok(b)) => if a != b || a != s0 { fails.push(("top_level_forms_differ", format!("list form {:?} vs object form {:?}", a, b))); },
        (a, b) => fails.push(("top_level_form_refused", format!("list form: {}, object form: {}", a.class(), b.class()))),
    }
    // C: arrow fields and back (all types), arrow2 (the types it has)
    match guarded(|| Vec::<arrow_schema::FieldRef>::try_from(&s0).map_err(|e| e.to_string())) {
        Out::Ok(af) => match guarded(|| SerdeArrowSchema::try_from(&af[..]).map_err(|e| e.to_string())) {
            Out::Ok(s2) => if s2 != s0 { fails.push(("arrow_changes_schema", format!("via arrow: {:?} vs {:?}", s2, s0))); },
            Out::Err(e) => fails.push(("arrow_not_read_back", e)), Out::Panic(p) => fails.push(("panic", p)) },
        Out::Err(e) => { ctx.count("arrow:unsupported"); let _ = e; }
        Out::Panic(p) => fails.push(("panic_in_arrow_conversion", p)),
    }
    match guarded(|| Vec::<arrow2::datatypes::Field>::try_from(&s0).map_err(|e| e.to_string())) {
        Out::Ok(af) => match guarded(|| SerdeArrowSchema::try_from(&af[..]).map_err(|e| e.to_string())) {
            Out::Ok(s2) => if s2 != s0 { fails.push(("arrow2_changes_schema", format!("via arrow2: {:?} vs {:?}", s2, s0))); },
            Out::Err(e) => fails.push(("arrow2_not_read_back", e)), Out::Panic(p) => fails.push(("panic", p)) },
        Out::Err(_) => ctx.count("arrow2:unsupported"),
        Out::Panic(p) => fails.push(("panic_in_arrow2_conversion", p)),
    }
    // model
    let item = list_form.get(0).cloned().unwrap_or(Value::Null);
    let modelled = ascii_only(&item) && !text.contains("\\\\u") && yfield_coq(&expected).is_some() && !tz_needs_unicode_escape(&expected);
    let coq = format!("{{| c_tree := {}; c_expect := {}; c_impl_ok := true; c_model := {}; c_check_print := {}; c_foreign := None |}}", jv_coq(&item), if modelled { format!("(Some {})", yfield_coq(&expected).unwrap()) } else { "None".into() }, cf::boolean(modelled), cf::boolean(modelled));
    let idx = ctx.add_case(coq, json!({"field": format!("{:?}", f), "json": text}), !matches!(f.data_type, DataType::Null | DataType::Boolean));
    for (c, w) in fails { ctx.fail(idx, c, w); }
}
fn tz_needs_unicode_escape(f: &Field) -> bool {
    use DataType as T;
    match &f.data_type { T::Timestamp(_, Some(tz)) => tz.chars().any(|c| (c as u32) < 0x20 || (c as u32) > 0x7e), T::Struct(fs) => fs.iter().any(tz_needs_unicode_escape), T::List(c) | T::LargeList(c) | T::FixedSizeList(c, _) | T::Map(c, _) => tz_needs_unicode_escape(c), T::Union(fs, _) => fs.iter().any(|(_, c)| tz_needs_unicode_escape(c)), _ => false }
}

/// a schema value that may or may not denote a schema: both sides must agree on whether it does
fn value_case(ctx: &mut Ctx, tree: &Value, label: &str) {
    let r = guarded(|| SerdeArrowSchema::from_value(&json!([tree])).map_err(|e| e.to_string()));
    ctx.count(&format!("{}:{}", label, r.class()));
    let ok = matches!(r, Out::Ok(_));
    let expect = match &r { Out::Ok(s) => match guarded(|| Vec::<Field>::from_value(s).map_err(|e| e.to_string())) { Out::Ok(fs) if fs.len() == 1 && ascii_only(tree) && !tz_needs_unicode_escape(&fs[0]) => yfield_coq(&fs[0]), _ => None }, _ => None };
    let coq = format!("{{| c_tree := {}; c_expect := {}; c_impl_ok := {}; c_model := {}; c_check_print := false; c_foreign := None |}}", jv_coq(tree), match (&expect, ok) { (Some(e), true) => format!("(Some {})", e), _ => "None".into() }, cf::boolean(ok), cf::boolean(ascii_only(tree)));
    let idx = ctx.add_case(coq, json!({"value": tree.to_string(), "impl": match &r { Out::Ok(s) => format!("Ok({:?})", s), Out::Err(e) => format!("Err({})", e), Out::Panic(p) => format!("Panic({})", p) }}), true);
    if let Out::Panic(p) = &r { ctx.fail(idx, "panic", format!("from_value panics: {}", p)); }
    if !ascii_only(tree) { ctx.count("value_not_model_compared:non_ascii"); }
}

fn mutate(rng: &mut Rng, v: &Value) -> Value {
    let mut v = v.clone();
    let Value::Object(m) = &mut v else { return v };
    match rng.below(12) {
        0 => { m.remove("data_type"); } 1 => { m.remove("name"); }
        2 => { m.insert("data_type".into(), json!(*rng.pick(&["Int8", "Boolean", "UInt64", "Float16", "F128", "i8", "List()", "Struct(", "Timestamp(Second)", "Timestamp(Second, Some(UTC))", "Timestamp(Second, \"UTC\")", " I32 ", "Time32(Nanosecond)", "Time64(Second)", "FixedSizeBinary(-1)", "FixedSizeBinary(+3)", "Decimal128(256, 0)", "Decimal128(-0, 0)", "Decimal128(5, 128)", "Decimal128( 5 , -2 )", "FixedSizeBinary(2147483648)", "Duration(Seconds)", "\"Utf8\"", "Utf8 x", "", "Dictionary", "Map", "Union", "LargeList", "FixedSizeList(2)"]))); }
        3 => { m.insert("strategy".into(), json!(*rng.pick(&["MapAsStruct", "TupleAsStruct", "UnknownVariant", "InconsistentTypes", "Nope"]))); }
        4 => { m.insert("nullable".into(), json!(*rng.pick(&[json!(true), json!(false), json!("yes")]))); }
        5 => { m.insert("children".into(), json!([])); }
        6 => { if let Some(Value::Array(c)) = m.get_mut("children") { if !c.is_empty() { c.pop(); } } }
        7 => { if let Some(Value::Array(c)) = m.get_mut("children") { let x = c.first().cloned().unwrap_or(json!({"name": "x", "data_type": "I8"})); c.push(x); } }
        8 => { m.insert("metadata".into(), json!({"SERDE_ARROW:strategy": "MapAsStruct", "k": "v"})); }
        9 => { m.insert("extra_key".into(), json!(1)); }
        10 => { if let Some(Value::Array(c)) = m.get_mut("children") { if let Some(first) = c.get_mut(0) { *first = mutate(rng, first); } } }
        _ => { m.insert("metadata".into(), json!({"a": 1})); }
    }
    v
}

/// replace one node of the field tree (at a random depth) by something validate_field refuses
fn spoil(rng: &mut Rng, f: &Field, depth: usize) -> (Field, String) {
    use DataType as T;
    let kids: usize = match &f.data_type { T::List(_) | T::LargeList(_) | T::FixedSizeList(..) => 1, T::Struct(fs) => fs.len(), T::Union(fs, _) => fs.len(), T::Map(e, _) => match &e.data_type { T::Struct(kv) => kv.len(), _ => 0 }, _ => 0 };
    if kids > 0 && rng.chance(2, 3) {
        let i = rng.below(kids);
        let mut g = f.clone();
        let what;
        g.data_type = match &f.data_type {
            T::List(c) => { let (c2, w) = spoil(rng, c, depth + 1); what = w; T::List(Box::new(c2)) }
            T::LargeList(c) => { let (c2, w) = spoil(rng, c, depth + 1); what = w; T::LargeList(Box::new(c2)) }
            T::FixedSizeList(c, n) => { let (c2, w) = spoil(rng, c, depth + 1); what = w; T::FixedSizeList(Box::new(c2), *n) }
            T::Struct(fs) => { let mut v = fs.clone(); let (c2, w) = spoil(rng, &fs[i], depth + 1); what = w; v[i] = c2; T::Struct(v) }
            T::Union(fs, m) => { let mut v = fs.clone(); let (c2, w) = spoil(rng, &fs[i].1, depth + 1); what = w; v[i].1 = c2; T::Union(v, *m) }
            T::Map(e, srt) => { let T::Struct(kv) = &e.data_type else { unreachable!() }; let mut v = kv.clone(); let (c2, w) = spoil(rng, &kv[i], depth + 2); what = format!("below_map:{}", w); v[i] = c2; let mut e2 = (**e).clone(); e2.data_type = T::Struct(v); T::Map(Box::new(e2), *srt) }
            other => { what = "none".into(); other.clone() }
        };
        return (g, what);
    }
    let mut g = f.clone();
    let tag = |w: &str| format!("{}@depth{}", w, depth.min(3));
    let what = match rng.below(9) {
        0 => { g.data_type = T::Time32(*rng.pick(&UNITS[2..])); tag("time32_unit") }
        1 => { g.data_type = T::Time64(*rng.pick(&UNITS[..2])); tag("time64_unit") }
        2 => { g.data_type = T::FixedSizeBinary(*rng.pick(&[-1, -7, i32::MIN])); tag("negative_fixed_binary") }
        3 => { g.data_type = T::FixedSizeList(Box::new(mk("element", T::Int8, true)), *rng.pick(&[-1, -3, i32::MIN])); tag("negative_fixed_list") }
        4 => { g.data_type = if rng.chance(1, 2) { T::Dictionary(Box::new(T::Utf8), Box::new(T::Utf8)) } else { T::Dictionary(Box::new(T::Int8), Box::new(T::Int32)) }; tag("dictionary_types") }
        5 => { let n = *rng.pick(&[0usize, 1, 3]); g.data_type = T::Map(Box::new(mk("entries", T::Struct((0..n).map(|i| mk(&format!("f{}", i), T::Utf8, false)).collect()), false)), false); tag("map_entry_arity") }
        6 => { g.data_type = T::Map(Box::new(mk("entries", T::Int32, false)), false); tag("map_entry_not_struct") }
        7 => { g.metadata.insert("SERDE_ARROW:strategy".into(), (*rng.pick(&["Bogus", "", "mapasstruct", "UtcStrAsDate64"])).to_string()); tag("unknown_strategy") }
        _ => { let s = match &g.data_type { T::Null => *rng.pick(&["MapAsStruct", "TupleAsStruct"]), T::Struct(_) => *rng.pick(&["InconsistentTypes", "UnknownVariant"]), _ => *rng.pick(&["MapAsStruct", "TupleAsStruct", "InconsistentTypes", "UnknownVariant"]) };
               g.metadata.insert("SERDE_ARROW:strategy".into(), s.to_string()); tag("misplaced_strategy") }
    };
    (g, what)
}

fn foreign_case(ctx: &mut Ctx, f: &Field, what: &str) {
    let Some(yf) = yfield_coq(f) else { ctx.count("foreign:not_expressible"); return };
    let r = guarded(|| SerdeArrowSchema::from_value(std::slice::from_ref(f)).map(|_| ()).map_err(|e| e.to_string()));
    ctx.count(&format!("foreign:{}:{}", what.split('@').next().unwrap_or(what), r.class()));
    if let Some(d) = what.split('@').nth(1) { ctx.count(&format!("foreign_spoiled_at:{}", d)); }
    let coq = format!("{{| c_tree := JArr []; c_expect := None; c_impl_ok := {}; c_model := false; c_check_print := false; c_foreign := Some {} |}}", cf::boolean(matches!(r, Out::Ok(_))), yf);
    let idx = ctx.add_case(coq, json!({"kind": "foreign field object", "spoiled": what, "field": format!("{:?}", f), "impl": match &r { Out::Ok(_) => "accepted".to_string(), Out::Err(e) => format!("rejected: {}", e), Out::Panic(p) => format!("panic: {}", p) }}), true);
    if let Out::Panic(p) = &r { ctx.fail(idx, "panic", format!("from_value panics: {}", p)); }
}

pub fn run(ctx: &mut Ctx) {
    ctx.runner = "RunC09".into();
    ctx.shard_size = 300;
    ctx.rule = "generated fields over every supported data type and parameter value (4 time units, time zones incl. quotes, backslashes, control and non-ASCII characters, precision 0..255 and scale -128..127, fixed sizes incl. 0 and i32::MAX, all 16 dictionary key/value combinations, map entries with arbitrary names), nesting depth <= 3, names incl. empty and non-ASCII, metadata maps with and without a strategy entry: passed as foreign field objects to from_value, compact serde form read back to fields, JSON text read back, both top-level forms, arrow and arrow2 fields and back; the compact tree is read by the Coq parser model and compared with the Coq printer model (ASCII cases); a second stream mutates valid trees (missing keys, both spellings and malformed type names, wrong child counts, bad strategies, invalid parameters, duplicate strategy) and compares accept/reject and the accepted schema with the model. Non-trivial = not a bare Null/Boolean leaf; distinct by (tree, result). A third stream passes foreign field objects with exactly one spoiled node at a random depth (wrong Time32/Time64 unit, negative fixed size, non-integer dictionary key / non-string value, map entries of the wrong arity or kind, unknown or misplaced strategy) and compares accept/reject with valid_y evaluated in Coq".into();
    let n = if ctx.thorough { 20000 } else { 1500 };
    let mut trees: Vec<Value> = vec![];
    for _ in 0..n {
        let mut rng = ctx.rng.fork();
        let d = rng.below(4);
        let f = gen_field(&mut rng, d);
        roundtrip_case(ctx, &f, "field");
        if let Ok(s) = SerdeArrowSchema::from_value(std::slice::from_ref(&f)) { if let Ok(Value::Object(m)) = serde_json::to_value(&s) { if let Some(Value::Array(l)) = m.get("fields") { if let Some(t) = l.first() { if trees.len() < 4000 { trees.push(t.clone()); } } } } }
    }
    // both spellings of every type name
    for (a, b) in [("Bool", "Boolean"), ("U8", "UInt8"), ("U16", "UInt16"), ("U32", "UInt32"), ("U64", "UInt64"), ("I8", "Int8"), ("I16", "Int16"), ("I32", "Int32"), ("I64", "Int64"), ("F16", "Float16"), ("F32", "Float32"), ("F64", "Float64")] {
        let ra = SerdeArrowSchema::from_value(&json!([{"name": "x", "data_type": a}])).ok();
        let rb = SerdeArrowSchema::from_value(&json!([{"name": "x", "data_type": b}])).ok();
        value_case(ctx, &json!({"name": "x", "data_type": a}), "spelling");
        let idx = ctx.cases.len();
        value_case(ctx, &json!({"name": "x", "data_type": b}), "spelling");
        if ra.is_none() || ra != rb { ctx.fail(idx, "spellings_differ", format!("{} and {} do not denote the same type", a, b)); }
    }
    // foreign field objects with one invalid part at a random depth: accepted iff valid everywhere (valid_y)
    let k = if ctx.thorough { 12000 } else { 1500 };
    for _ in 0..k {
        let mut rng = ctx.rng.fork();
        let d = 1 + rng.below(3);
        let f = gen_field(&mut rng, d);
        let (g, what) = if rng.chance(1, 8) { (f.clone(), "unchanged".to_string()) } else { spoil(&mut rng, &f, 0) };
        foreign_case(ctx, &g, &what);
    }
    // invalid / mutated stream
    let m = if ctx.thorough { 20000 } else { 1500 };
    for i in 0..m {
        let mut rng = ctx.rng.fork();
        if trees.is_empty() { break; }
        let t = trees[i % trees.len()].clone();
        let mut v = mutate(&mut rng, &t);
        if rng.chance(1, 4) { v = mutate(&mut rng, &v); }
        value_case(ctx, &v, "mutated");
    }
}
