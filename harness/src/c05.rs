//! C05: the conversion matrix. Serialization: every serde value kind (with boundary values of
//! every integer width) into every column data type, at the top level and inside nested carriers;
//! the cell is judged inside Coq by the C01 oracle (accepted => decodes to exactly the value;
//! outside the documented mapping => must be refused). Deserialization: boundary values stored in
//! every integer / Boolean column read as every requested Rust type; compared with conv_de.
use crate::arrgen::{Val, IK, IKS};
use crate::c01::ser_case;
use crate::coqfmt::{self as cf, guarded, Out};
use crate::ctx::Ctx;
use marrow::datatypes::{DataType, Field, TimeUnit, UnionMode};

use serde_arrow::utils::Item;
use serde_json::json;

fn mk(name: &str, dt: DataType, nullable: bool) -> Field { Field { name: name.to_string(), data_type: dt, nullable, metadata: Default::default() } }

fn boundary_ints() -> Vec<i128> {
    let mut v: Vec<i128> = vec![0, 1, -1];
    for k in IKS { let (lo, hi) = k.range(); for z in [lo, lo - 1, lo + 1, hi, hi + 1, hi - 1] { v.push(z); } }
    v.sort(); v.dedup(); v
}
fn value_pool() -> Vec<Val> {
    let mut pool: Vec<Val> = vec![];
    for z in boundary_ints() { for k in IKS { if k.fits(z) { pool.push(Val::Int(k, z)); } } }
    pool.extend([Val::Bool(true), Val::Bool(false), Val::Char('a'), Val::Char('\u{7f}'), Val::Char('é'), Val::Char('\u{ffff}'), Val::Char('\u{10ffff}'),
        Val::F32(1.5f32.to_bits()), Val::F32(f32::NAN.to_bits()), Val::F64(2.25f64.to_bits()), Val::F64(f64::INFINITY.to_bits()), Val::F64(1e300f64.to_bits()),
        Val::Str("1".into()), Val::Str("x".into()), Val::Str("".into()), Val::Bytes(vec![1, 2]), Val::Bytes(vec![]), Val::None, Val::Unit, Val::UnitStruct,
        Val::Some(Box::new(Val::Int(IK::I32, 7))), Val::Newtype(Box::new(Val::Bool(true))), Val::Seq(vec![]), Val::Seq(vec![Val::Int(IK::U8, 1), Val::Int(IK::U8, 2)]), Val::Seq(vec![Val::Int(IK::I32, 256)]),
        // element counts around a fixed size of 2: one and two too many (n + 1 is the count an off-by-one guard lets through)
        Val::Seq(vec![Val::Int(IK::U8, 1), Val::Int(IK::U8, 2), Val::Int(IK::U8, 3)]), Val::Seq((1..=4).map(|i| Val::Int(IK::U8, i)).collect()), Val::Tuple((1..=3).map(|i| Val::Int(IK::U8, i)).collect()), Val::Bytes(vec![1, 2, 3]), Val::Bytes(vec![1]),
        Val::Tuple(vec![Val::Int(IK::U8, 1)]), Val::Map(vec![]), Val::Struct(vec![], 0), Val::Struct(vec![("a".into(), Val::Bool(true))], 0),
        Val::UnitVariant(0, "A".into()), Val::UnitVariant(1, "B".into()), Val::UnitVariant(5, "Z".into()), Val::NewtypeVariant(0, "A".into(), Box::new(Val::Int(IK::I32, 1)))]);
    pool
}
fn column_types() -> Vec<DataType> {
    use DataType as T;
    let elem = |dt: DataType| Box::new(mk("element", dt, false));
    vec![T::Null, T::Boolean, T::Int8, T::Int16, T::Int32, T::Int64, T::UInt8, T::UInt16, T::UInt32, T::UInt64, T::Float32, T::Float64,
        T::Utf8, T::LargeUtf8, T::Utf8View, T::Binary, T::LargeBinary, T::BinaryView, T::FixedSizeBinary(2), T::Date32, T::Date64,
        T::Time32(TimeUnit::Second), T::Time64(TimeUnit::Nanosecond), T::Timestamp(TimeUnit::Millisecond, None), T::Duration(TimeUnit::Second), T::Decimal128(5, 2),
        T::List(elem(T::UInt8)), T::LargeList(elem(T::Int32)), T::FixedSizeList(elem(T::UInt8), 2),
        T::Struct(vec![mk("a", T::Boolean, false)]), T::Map(Box::new(mk("entries", T::Struct(vec![mk("key", T::Utf8, false), mk("value", T::Int8, true)]), false)), false),
        T::Dictionary(Box::new(T::UInt8), Box::new(T::Utf8)), T::Dictionary(Box::new(T::Int64), Box::new(T::LargeUtf8)),
        T::Union(vec![(0, mk("A", T::Null, true)), (1, mk("B", T::Int32, false))], UnionMode::Dense)]
}

fn wrap_last(ctx: &mut Ctx, from: usize) { for c in ctx.cases[from..].iter_mut() { c.coq = format!("(CSer {})", c.coq); } }

#[derive(Clone, Copy, Debug)]
enum Req { Int(IK), Bool, Char, F32, F64, Str }
impl Req { fn coq(self) -> String { match self { Req::Int(k) => format!("(RInt {})", k.coq()), Req::Bool => "RBool".into(), Req::Char => "RChar".into(), Req::F32 => "RF32".into(), Req::F64 => "RF64".into(), Req::Str => "RStr".into() } } }

fn read_as(field: &Field, view: &marrow::view::View, req: Req) -> Out<String> {
    macro_rules! rd { ($t:ty, $f:expr) => { guarded(|| serde_arrow::from_marrow::<Vec<Item<$t>>>(std::slice::from_ref(field), std::slice::from_ref(view)).map(|v| v.into_iter().map(|Item(x)| $f(x)).collect::<Vec<String>>().join(",")).map_err(|e| e.to_string())) }; }
    match req {
        Req::Int(IK::I8) => rd!(i8, |x: i8| format!("(VdInt {})", cf::z(x))), Req::Int(IK::I16) => rd!(i16, |x: i16| format!("(VdInt {})", cf::z(x))), Req::Int(IK::I32) => rd!(i32, |x: i32| format!("(VdInt {})", cf::z(x))), Req::Int(IK::I64) => rd!(i64, |x: i64| format!("(VdInt {})", cf::z(x))),
        Req::Int(IK::U8) => rd!(u8, |x: u8| format!("(VdInt {})", cf::z(x))), Req::Int(IK::U16) => rd!(u16, |x: u16| format!("(VdInt {})", cf::z(x))), Req::Int(IK::U32) => rd!(u32, |x: u32| format!("(VdInt {})", cf::z(x))), Req::Int(IK::U64) => rd!(u64, |x: u64| format!("(VdInt {})", cf::z(x))),
        Req::Bool => rd!(bool, |x: bool| format!("(VdBool {})", cf::boolean(x))), Req::Char => rd!(char, |x: char| format!("(VdChar {})", cf::z(x as u32))),
        Req::F32 => rd!(f32, |x: f32| format!("(VdInt {})", cf::z(x as i64))), Req::F64 => rd!(f64, |x: f64| format!("(VdInt {})", cf::z(x as i64))), Req::Str => rd!(String, |x: String| format!("(VdChar {})", cf::z(x.len()))),
    }
}

pub fn run(ctx: &mut Ctx) {
    ctx.runner = "RunC05".into();
    ctx.shard_size = 200;
    ctx.rule = "exhaustive conversion matrix. Writing: ~100 serde values (every integer presentation of the boundary values min, min-1, min+1, max, max+1, max-1 of all eight widths; bool; chars incl. U+FFFF and U+10FFFF; floats incl. NaN / infinity / 1e300; strings; bytes; None / unit / Some / newtype; sequences, tuples, maps, structs; unit and newtype variants) x 34 column types x {non-nullable, nullable} at the top level, and again inside three nested carriers (struct field, list element, map value) for the integer columns; each cell preceded by one valid row, judged inside Coq by the C01 oracle (wf batch, decode = interp, refusal of values outside the documented mapping). Reading: every boundary value stored in each of the 8 integer column types and both Boolean values, read as i8..u64, bool, char, f32, f64, String; compared with conv_de (Ok exactly when representable, and then exactly the stored value). Non-trivial = all; distinct by (cell, result) Records that leave fields out: 2-3 fields x all nullability masks x every subset of present fields x schema / reversed / rotated order, as the top-level record, a struct column and a list element, between two complete records (missing required field = error, missing nullable field = null, nothing dropped or shifted).".into();
    // ---- writing
    let pool = value_pool();
    for dt in column_types() {
        for nullable in [false, true] {
            if matches!(dt, DataType::Null) && !nullable { continue; }
            if matches!(dt, DataType::Union(..)) && nullable { continue; }
            let f = mk("c", dt.clone(), nullable);
            for v in &pool {
                let from = ctx.cases.len();
                ser_case(ctx, std::slice::from_ref(&f), &[Val::Struct(vec![("c".into(), v.clone())], 0)], "cell", None);
                wrap_last(ctx, from);
            }
        }
    }
    // nested carriers for the integer columns (the offending value at a nested position)
    for k in IKS {
        let dt = match k { IK::I8 => DataType::Int8, IK::I16 => DataType::Int16, IK::I32 => DataType::Int32, IK::I64 => DataType::Int64, IK::U8 => DataType::UInt8, IK::U16 => DataType::UInt16, IK::U32 => DataType::UInt32, IK::U64 => DataType::UInt64 };
        let (lo, hi) = k.range();
        let carriers: Vec<(Field, Box<dyn Fn(Val) -> Val>)> = vec![
            (mk("c", DataType::Struct(vec![mk("x", DataType::Utf8, false), mk("v", dt.clone(), false)]), true), Box::new(|v| Val::Struct(vec![("x".into(), Val::Str("s".into())), ("v".into(), v)], 0))),
            (mk("c", DataType::LargeList(Box::new(mk("element", dt.clone(), true))), false), Box::new(|v| Val::Seq(vec![Val::None, v, Val::Int(IK::U8, 0)]))),
            (mk("c", DataType::Map(Box::new(mk("entries", DataType::Struct(vec![mk("key", DataType::Utf8, false), mk("value", dt.clone(), false)]), false)), false), false), Box::new(|v| Val::Map(vec![(Val::Str("k".into()), v)]))),
        ];
        for (f, wrap) in &carriers {
            for z in [lo, lo - 1, hi, hi + 1, 0] {
                for w in IKS { if !w.fits(z) { continue; }
                    let from = ctx.cases.len();
                    ser_case(ctx, std::slice::from_ref(f), &[Val::Struct(vec![("c".into(), wrap(Val::Int(w, z)))], 0)], "nested_cell", None);
                    wrap_last(ctx, from);
                }
            }
        }
    }
    // fixed-size lists below a list: a row with n - 1, n + 1 or n + 2 elements among rows with n (below a list the arrays stay
    // structurally valid when an element too many slips through, so only the content tells)
    {
        let inner = mk("element", DataType::FixedSizeList(Box::new(mk("element", DataType::Int32, false)), 2), false);
        let f = mk("c", DataType::LargeList(Box::new(inner)), false);
        let row = |ns: &[usize]| -> Val { let mut k = 0i128; Val::Seq(ns.iter().map(|n| Val::Seq((0..*n).map(|_| { k += 1; Val::Int(IK::I32, k) }).collect())).collect()) };
        for ns in [vec![2usize, 2], vec![3, 3], vec![2, 3, 2], vec![1, 2], vec![2, 4], vec![3], vec![2, 2, 3]] {
            for second in [vec![2usize], vec![]] {
                let from = ctx.cases.len();
                ser_case(ctx, std::slice::from_ref(&f), &[Val::Struct(vec![("c".into(), row(&ns))], 0), Val::Struct(vec![("c".into(), row(&second))], 0)], "nested_fixed_size", None);
                wrap_last(ctx, from);
            }
        }
    }
    // ---- records that leave fields out (struct path, fields in schema order, reversed, rotated): a missing
    // required field is an error, a missing nullable field is a null, no value is dropped or shifted
    for n in 2..=3usize {
        for mask in 0..(1u32 << n) {
            let names = ["a", "b", "d"];
            let fs: Vec<Field> = (0..n).map(|i| mk(names[i], if i == 1 { DataType::Utf8 } else { DataType::Int32 }, mask & (1 << i) != 0)).collect();
            let value = |i: usize, row: i128| if i == 1 { Val::Str(format!("s{}", row)) } else { Val::Int(IK::I32, 10 * row + i as i128) };
            let full = |row: i128| Val::Struct((0..n).map(|i| (names[i].to_string(), value(i, row))).collect(), 0);
            for present in 0..(1u32 << n) {
                for order in 0..3usize {
                    let mut idxs: Vec<usize> = (0..n).filter(|i| present & (1 << i) != 0).collect();
                    match order { 1 => idxs.reverse(), 2 => if !idxs.is_empty() { idxs.rotate_left(1) }, _ => {} }
                    if order > 0 && idxs.len() < 2 { continue; }
                    let partial = Val::Struct(idxs.iter().map(|&i| (names[i].to_string(), value(i, 2))).collect(), 0);
                    let from = ctx.cases.len();
                    ser_case(ctx, &fs, &[full(1), partial.clone(), full(3)], "record_missing_fields_top", None);
                    wrap_last(ctx, from);
                    for carrier in 0..2 {
                        let st = mk(if carrier == 0 { "c" } else { "element" }, DataType::Struct(fs.clone()), carrier == 1);
                        let (f, rows) = if carrier == 0 { (st, vec![Val::Struct(vec![("c".into(), full(1))], 0), Val::Struct(vec![("c".into(), partial.clone())], 0), Val::Struct(vec![("c".into(), full(3))], 0)]) }
                            else { (mk("c", DataType::List(Box::new(st)), false), vec![Val::Struct(vec![("c".into(), Val::Seq(vec![full(1), partial.clone(), full(3)]))], 0)]) };
                        let from = ctx.cases.len();
                        ser_case(ctx, std::slice::from_ref(&f), &rows, "record_missing_fields_nested", None);
                        wrap_last(ctx, from);
                    }
                }
            }
        }
    }
    // ---- reading
    let reqs: Vec<Req> = IKS.iter().map(|k| Req::Int(*k)).chain([Req::Bool, Req::Char, Req::F32, Req::F64, Req::Str]).collect();
    for k in IKS {
        let dt = match k { IK::I8 => DataType::Int8, IK::I16 => DataType::Int16, IK::I32 => DataType::Int32, IK::I64 => DataType::Int64, IK::U8 => DataType::UInt8, IK::U16 => DataType::UInt16, IK::U32 => DataType::UInt32, IK::U64 => DataType::UInt64 };
        let f = mk("item", dt, false);
        let mut zs: Vec<i128> = boundary_ints().into_iter().filter(|z| k.fits(*z)).collect();
        zs.extend([55295i128, 55296, 57343, 57344, 1114111, 1114112].into_iter().filter(|z| k.fits(*z)));
        for z in zs {
            let rows = vec![Val::Struct(vec![("item".into(), Val::Int(k, z))], 0)];
            let Ok(arrays) = serde_arrow::to_marrow(std::slice::from_ref(&f), &rows) else { continue };
            let view = arrays[0].as_view();
            for req in &reqs {
                let r = read_as(&f, &view, *req);
                ctx.count(&format!("read:{}", r.class()));
                let coq = format!("(CDeInt {} {} {} {})", k.coq(), req.coq(), cf::z(z), match &r { Out::Ok(s) => format!("(Ok {})", s), Out::Err(_) => "Err".into(), Out::Panic(_) => "(Panic PExternal)".into() });
                let idx = ctx.add_case(coq, json!({"column": k.coq(), "request": format!("{:?}", req), "stored": z.to_string(), "impl": match &r { Out::Ok(s) => format!("Ok({})", s), Out::Err(e) => format!("Err({})", e), Out::Panic(p) => format!("Panic({})", p) }}), true);
                if let Out::Panic(p) = &r { ctx.fail(idx, "panic", p.clone()); }
            }
        }
    }
    let fb = mk("item", DataType::Boolean, false);
    for v in [false, true] {
        let rows = vec![Val::Struct(vec![("item".into(), Val::Bool(v))], 0)];
        let Ok(arrays) = serde_arrow::to_marrow(std::slice::from_ref(&fb), &rows) else { continue };
        let view = arrays[0].as_view();
        for req in &reqs {
            let r = read_as(&fb, &view, *req);
            let coq = format!("(CDeBool {} {} {})", req.coq(), cf::boolean(v), match &r { Out::Ok(s) => format!("(Ok {})", s), Out::Err(_) => "Err".into(), Out::Panic(_) => "(Panic PExternal)".into() });
            ctx.add_case(coq, json!({"column": "Boolean", "request": format!("{:?}", req), "stored": v}), true);
        }
    }
    // ---- float columns read as f32 and as f64: the same width bit for bit, `as f64` exact, `as f32` the nearest value (ties to even,
    // subnormals, overflow to infinity); values on and next to ties of the f32 grid, every exponent range, the canonical NaN
    {
        let mut rng = ctx.rng.fork();
        let n = if ctx.thorough { 6000 } else { 600 };
        let f32s: Vec<u32> = (0..n).map(|i| { let b = rng.next_u64() as u32; match i % 6 { 0 => b & 0x807f_ffff, 1 => *rng.pick(&[0u32, 1, 0x8000_0000, 0x7f80_0000, 0xff80_0000, 0x7fc0_0000, 0x007f_ffff, 0x0080_0000, 0x7f7f_ffff, 0x3f80_0000]), _ => if f32::from_bits(b).is_nan() { 0x7fc0_0000 } else { b } } }).collect();
        let f64s: Vec<u64> = (0..n).map(|_| crate::arrgen::gen_f64_for_f32(&mut rng)).collect();
        let a32 = marrow::array::Array::Float32(marrow::array::PrimitiveArray { validity: None, values: f32s.iter().map(|b| f32::from_bits(*b)).collect() });
        let a64 = marrow::array::Array::Float64(marrow::array::PrimitiveArray { validity: None, values: f64s.iter().map(|b| f64::from_bits(*b)).collect() });
        for (col32, arr, stored) in [(true, &a32, f32s.iter().map(|b| *b as u64).collect::<Vec<u64>>()), (false, &a64, f64s.clone())] {
            let field = mk("item", if col32 { DataType::Float32 } else { DataType::Float64 }, false);
            let view = arr.as_view();
            for req32 in [true, false] {
                let got: Out<Vec<u64>> = if req32 { guarded(|| serde_arrow::from_marrow::<Vec<Item<f32>>>(std::slice::from_ref(&field), std::slice::from_ref(&view)).map(|v| v.into_iter().map(|Item(x)| x.to_bits() as u64).collect()).map_err(|e| e.to_string())) }
                    else { guarded(|| serde_arrow::from_marrow::<Vec<Item<f64>>>(std::slice::from_ref(&field), std::slice::from_ref(&view)).map(|v| v.into_iter().map(|Item(x)| x.to_bits()).collect()).map_err(|e| e.to_string())) };
                for (i, bits) in stored.iter().enumerate() {
                    let impl_coq = match &got { Out::Ok(v) if v.len() == stored.len() => format!("(Ok {})", cf::z(v[i])), Out::Ok(_) => "Err".into(), Out::Err(_) => "Err".into(), Out::Panic(_) => "(Panic PExternal)".into() };
                    let coq = format!("(CDeFloat {} {} {} {})", cf::boolean(col32), cf::boolean(req32), cf::z(*bits), impl_coq);
                    let idx = ctx.add_case(coq, json!({"column": if col32 { "Float32" } else { "Float64" }, "request": if req32 { "f32" } else { "f64" }, "stored_bits": bits.to_string(), "read_bits": match &got { Out::Ok(v) if v.len() == stored.len() => v[i].to_string(), other => format!("{:?}", other.class()) }}), true);
                    if !matches!(&got, Out::Ok(v) if v.len() == stored.len()) { ctx.fail(idx, "float_column_not_readable", format!("a {} column read as {}: {:?}", if col32 { "Float32" } else { "Float64" }, if req32 { "f32" } else { "f64" }, got.class())); }
                    ctx.count(&format!("float_read:{}_as_{}", if col32 { "f32" } else { "f64" }, if req32 { "f32" } else { "f64" }));
                }
            }
        }
    }
    // ---- malformed text: never accepted, in any temporal or decimal column
    let malformed: Vec<(DataType, Vec<&str>)> = vec![
        (DataType::Decimal128(10, 2), vec!["1.50e3", "1.23abc", "-7.00 EUR", "0.129.5", "--1", "1..2", "1,5", " 1", "1 ", "+", "-", "", ".", "0x10", "1e3", "NaN", "inf", "1_000", "١٢", "1.2.3", "12a.50", "1.5x"]),
        (DataType::Decimal128(5, 0), vec!["1.5x", "abc", "1 2", "+-1", "."]),
        (DataType::Decimal128(5, -2), vec!["12x00", "abc", ""]),
        (DataType::Date32, vec!["2020-13-01", "2020-02-30", "2020-00-10", "not a date", "", "2020-01", "2020/01/01", "2020-01-01T00:00:00", "20200101x"]),
        (DataType::Date64, vec!["2020-13-01", "2021-02-29", "x", ""]),
        (DataType::Time32(TimeUnit::Second), vec!["24:00:00", "12:60:00", "12:00:61", "noon", "", "12", "12:00:00 PM x"]),
        (DataType::Time64(TimeUnit::Nanosecond), vec!["25:00:00", "12:00:00.x", "::", ""]),
        (DataType::Timestamp(TimeUnit::Millisecond, None), vec!["2020-01-01T25:00:00", "2020-13-01T00:00:00", "2020-01-01", "yesterday", "", "2020-01-01T00:00:00Z"]),
        (DataType::Timestamp(TimeUnit::Second, Some("UTC".into())), vec!["2020-01-01T25:00:00Z", "2020-01-01T00:00:00", "x", ""]),
        (DataType::Duration(TimeUnit::Second), vec!["1D", "P1", "PTS", "P1Y", "P1M", "PT1.S", "", "P-1D", "PT1H2"]),
    ];
    for (dt, texts) in &malformed {
        for nullable in [false, true] {
            let f = mk("c", dt.clone(), nullable);
            for t in texts {
                let rows = vec![Val::Struct(vec![("c".into(), Val::Str(t.to_string()))], 0)];
                let r = guarded(|| serde_arrow::to_marrow(std::slice::from_ref(&f), &rows).map(|a| format!("{:?}", a)).map_err(|e| e.to_string()));
                ctx.count(&format!("malformed_text:{}", r.class()));
                let accepted = matches!(r, Out::Ok(_));
                let idx = ctx.add_case(format!("(CMalformed {} {} {})", cf::text(&format!("{:?}", dt)), cf::text(t), cf::boolean(accepted)), json!({"column": format!("{:?}", dt), "text": t, "impl": match &r { Out::Ok(a) => format!("Ok({})", a), Out::Err(e) => format!("Err({})", e), Out::Panic(p) => format!("Panic({})", p) }}), true);
                if accepted { ctx.fail(idx, "malformed_text_accepted", format!("{:?} accepted the text {:?}", dt, t)); }
                if let Out::Panic(p) = &r { ctx.fail(idx, "panic", p.clone()); }
            }
        }
    }
    // ---- a null container read into a non-Option target must be an error, never the values hidden below the null
    {
        use marrow::array::*;
        use marrow::datatypes::{FieldMeta, MapMeta};
        let meta = |n: &str, nullable: bool| FieldMeta { name: n.into(), nullable, metadata: Default::default() };
        let ints = || Array::Int32(PrimitiveArray { validity: None, values: vec![7, 8, 9] });
        #[derive(serde::Deserialize, Debug, PartialEq)] struct P { x: i32 }
        let list_f = mk("item", DataType::List(Box::new(mk("element", DataType::Int32, false))), true);
        let list_a = Array::List(ListArray { validity: Some(vec![0b101]), offsets: vec![0, 1, 2, 3], meta: meta("element", false), elements: Box::new(ints()) });
        let llist_f = mk("item", DataType::LargeList(Box::new(mk("element", DataType::Int32, false))), true);
        let llist_a = Array::LargeList(ListArray { validity: Some(vec![0b101]), offsets: vec![0, 1, 2, 3], meta: meta("element", false), elements: Box::new(ints()) });
        let fsl_f = mk("item", DataType::FixedSizeList(Box::new(mk("element", DataType::Int32, false)), 1), true);
        let fsl_a = Array::FixedSizeList(FixedSizeListArray { len: 3, n: 1, validity: Some(vec![0b101]), meta: meta("element", false), elements: Box::new(ints()) });
        let st_f = mk("item", DataType::Struct(vec![mk("x", DataType::Int32, false)]), true);
        let st_a = Array::Struct(StructArray { len: 3, validity: Some(vec![0b101]), fields: vec![(meta("x", false), ints())] });
        let map_f = mk("item", DataType::Map(Box::new(mk("entries", DataType::Struct(vec![mk("key", DataType::Int32, false), mk("value", DataType::Int32, false)]), false)), false), true);
        let map_a = Array::Map(MapArray { validity: Some(vec![0b101]), offsets: vec![0, 1, 2, 3], meta: MapMeta { entries_name: "entries".into(), sorted: false, keys: meta("key", false), values: meta("value", false) }, keys: Box::new(ints()), values: Box::new(ints()) });
        let mut check = |ctx: &mut Ctx, kind: &str, r: Out<String>| {
            ctx.count(&format!("null_container_into_non_option:{}:{}", kind, r.class()));
            let accepted = matches!(r, Out::Ok(_));
            let idx = ctx.add_case(format!("(CMalformed {} {} {})", cf::text(kind), cf::text("null row read into a non-Option target"), cf::boolean(accepted)), json!({"kind": kind, "impl": match &r { Out::Ok(a) => format!("Ok({})", a), Out::Err(e) => format!("Err({})", e), Out::Panic(p) => format!("Panic({})", p) }}), true);
            if let Out::Ok(v) = &r { ctx.fail(idx, "null_replaced_by_hidden_values", format!("a null {} row read into a non-Option target returned {}", kind, v)); }
            if let Out::Panic(p) = &r { ctx.fail(idx, "panic", p.clone()); }
        };
        let rd = |f: &Field, a: &Array| -> (Field, Array) { (f.clone(), a.clone()) };
        for (kind, (f, a)) in [("List", rd(&list_f, &list_a)), ("LargeList", rd(&llist_f, &llist_a)), ("FixedSizeList", rd(&fsl_f, &fsl_a))] {
            let v = a.as_view();
            check(ctx, kind, guarded(|| serde_arrow::from_marrow::<Vec<Item<Vec<i32>>>>(std::slice::from_ref(&f), std::slice::from_ref(&v)).map(|x| format!("{:?}", x)).map_err(|e| e.to_string())));
            check(ctx, &format!("{} as tuple", kind), guarded(|| serde_arrow::from_marrow::<Vec<Item<(i32,)>>>(std::slice::from_ref(&f), std::slice::from_ref(&v)).map(|x| format!("{:?}", x)).map_err(|e| e.to_string())));
        }
        { let v = st_a.as_view(); check(ctx, "Struct", guarded(|| serde_arrow::from_marrow::<Vec<Item<P>>>(std::slice::from_ref(&st_f), std::slice::from_ref(&v)).map(|x| format!("{:?}", x)).map_err(|e| e.to_string())));
          check(ctx, "Struct as map", guarded(|| serde_arrow::from_marrow::<Vec<Item<std::collections::BTreeMap<String, i32>>>>(std::slice::from_ref(&st_f), std::slice::from_ref(&v)).map(|x| format!("{:?}", x)).map_err(|e| e.to_string())));
          check(ctx, "Struct as tuple", guarded(|| serde_arrow::from_marrow::<Vec<Item<(i32,)>>>(std::slice::from_ref(&st_f), std::slice::from_ref(&v)).map(|x| format!("{:?}", x)).map_err(|e| e.to_string()))); }
        { let v = map_a.as_view(); check(ctx, "Map", guarded(|| serde_arrow::from_marrow::<Vec<Item<std::collections::BTreeMap<i32, i32>>>>(std::slice::from_ref(&map_f), std::slice::from_ref(&v)).map(|x| format!("{:?}", x)).map_err(|e| e.to_string()))); }
        // the same rows read into Option targets are None (control)
        { let v = list_a.as_view(); let r = serde_arrow::from_marrow::<Vec<Item<Option<Vec<i32>>>>>(std::slice::from_ref(&list_f), std::slice::from_ref(&v)); ctx.count(&format!("null_container_into_option:{}", match r { Ok(x) if x[1].0.is_none() && x[0].0 == Some(vec![7]) => "none_as_expected", Ok(_) => "unexpected", Err(_) => "err" })); }
    }
    ctx.extra.insert("exhaustive".into(), json!(true));
    ctx.extra.insert("exhaustive_domain".into(), json!("value pool x column types x nullability (writing); boundary values x 8 integer columns + Boolean x 13 requests (reading)"));
    
    // typed text reads of temporal columns at their boundaries (shared family, harness/src/temporal.rs)
    crate::temporal::run(ctx, "typed");
}
