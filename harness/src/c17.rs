//! C17: hand-corrupted views. Every valid array produced by the writer is corrupted at a single
//! point (one length, offset, key, type id, bitmap, buffer or parameter; at any nesting level),
//! read row by row through deserialize_any, and the outcome (Ok value / Err / panic) is compared
//! with the reader model inside Coq. A panic of the implementation is a violation by itself.
use crate::arrgen::{self, Inject, Val};
use crate::c02::read_at;
use crate::coqfmt::{self as cf, guarded, Out};
use crate::ctx::Ctx;
use crate::probe::rval_coq;
use crate::rng::Rng;
use crate::viewgen::view_coq;
use marrow::array::*;
use marrow::datatypes::{DataType, Field};
use serde_arrow::Deserializer;
use serde_json::json;

fn off_variants<O: Copy + TryFrom<i64> + Into<i64>>(offs: &[O], huge: i64, rng: &mut Rng) -> Vec<(String, Vec<O>)> {
    let mut out: Vec<(String, Vec<O>)> = vec![];
    let cv = |z: i64| -> O { O::try_from(z).ok().unwrap_or(offs[0]) };
    if offs.is_empty() { return out; }
    let n = offs.len();
    let i = rng.below(n);
    let last: i64 = offs[n - 1].into();
    let mut set = |name: &str, idx: usize, z: i64, out: &mut Vec<(String, Vec<O>)>| { let mut v = offs.to_vec(); v[idx] = cv(z); out.push((format!("offset[{}]={}:{}", idx, z, name), v)); };
    set("negative", i, -1, &mut out);
    set("beyond", n - 1, last + 5, &mut out);
    set("huge", n - 1, huge, &mut out);
    if n >= 2 { set("huge_first", 0, huge, &mut out); }
    if n >= 3 { let mid = 1 + rng.below(n - 2); set("decreasing", mid, last + 1, &mut out); set("zeroed", mid, 0, &mut out); }
    { let mut v = offs.to_vec(); v.pop(); out.push(("offsets_popped".into(), v)); }
    out.push(("offsets_empty".into(), vec![]));
    out
}

fn validity_variants(v: &Option<Vec<u8>>, len: usize) -> Vec<(String, Option<Vec<u8>>)> {
    let mut out = vec![];
    match v {
        Some(b) => { let mut t = b.clone(); t.pop(); out.push(("validity_truncated".to_string(), Some(t))); out.push(("validity_empty".to_string(), Some(vec![]))); }
        None => { if len > 0 { out.push(("validity_too_short".to_string(), Some(vec![0xff; (len - 1) / 8]))); } }
    }
    out
}

/// all single-point corruptions of `a` (at this node and below)
pub fn corruptions(a: &Array, rng: &mut Rng) -> Vec<(String, Array)> {
    use Array as A;
    let mut out: Vec<(String, Array)> = vec![];
    macro_rules! prim { ($var:ident, $x:expr) => {{
        for (n, v) in validity_variants(&$x.validity, $x.values.len()) { let mut y = $x.clone(); y.validity = v; out.push((n, A::$var(y))); }
        if !$x.values.is_empty() { let mut y = $x.clone(); y.values.pop(); out.push(("values_popped".into(), A::$var(y))); }
    }}; }
    macro_rules! bytes { ($var:ident, $x:expr, $huge:expr, $utf8:expr) => {{
        for (n, v) in validity_variants(&$x.validity, $x.offsets.len().saturating_sub(1)) { let mut y = $x.clone(); y.validity = v; out.push((n, A::$var(y))); }
        for (n, o) in off_variants(&$x.offsets, $huge, rng) { let mut y = $x.clone(); y.offsets = o; out.push((n, A::$var(y))); }
        if !$x.data.is_empty() { let mut y = $x.clone(); y.data.pop(); out.push(("data_popped".into(), A::$var(y)));
            if $utf8 { let mut y = $x.clone(); let i = rng.below(y.data.len()); y.data[i] = 0xff; out.push(("invalid_utf8".into(), A::$var(y))); } }
    }}; }
    macro_rules! view { ($var:ident, $x:expr, $utf8:expr) => {{
        for (n, v) in validity_variants(&$x.validity, $x.data.len()) { let mut y = $x.clone(); y.validity = v; out.push((n, A::$var(y))); }
        if !$x.data.is_empty() {
            let i = rng.below($x.data.len());
            let d = $x.data[i];
            let len = (d as u32) as u128;
            { let mut y = $x.clone(); y.data[i] = (d & !0xffff_ffffu128) | (len + 40); out.push(("desc_len+40".into(), A::$var(y))); }
            { let mut y = $x.clone(); y.data[i] = (d & !0xffff_ffffu128) | 0xffff_ffff; out.push(("desc_len_max".into(), A::$var(y))); }
            if len > 12 {
                { let mut y = $x.clone(); y.data[i] = d | (7u128 << 64); out.push(("desc_buffer_index".into(), A::$var(y))); }
                { let mut y = $x.clone(); y.data[i] = d | (0xffff_fff0u128 << 96); out.push(("desc_offset".into(), A::$var(y))); }
                { let mut y = $x.clone(); y.buffers.clear(); out.push(("buffers_cleared".into(), A::$var(y))); }
            } else if $utf8 && len > 0 { let mut y = $x.clone(); y.data[i] = d | (0xffu128 << 32); out.push(("invalid_utf8_inline".into(), A::$var(y))); }
            { let mut y = $x.clone(); y.data.pop(); out.push(("descs_popped".into(), A::$var(y))); }
        }
    }}; }
    macro_rules! list { ($var:ident, $x:expr, $huge:expr) => {{
        for (n, v) in validity_variants(&$x.validity, $x.offsets.len().saturating_sub(1)) { let mut y = $x.clone(); y.validity = v; out.push((n, A::$var(y))); }
        for (n, o) in off_variants(&$x.offsets, $huge, rng) { let mut y = $x.clone(); y.offsets = o; out.push((n, A::$var(y))); }
        for (n, c) in corruptions(&$x.elements, rng) { let mut y = $x.clone(); y.elements = Box::new(c); out.push((format!("elements/{}", n), A::$var(y))); }
    }}; }
    match a {
        A::Null(x) => { out.push(("null_len+1".into(), A::Null(NullArray { len: x.len + 1 }))); if x.len > 0 { out.push(("null_len-1".into(), A::Null(NullArray { len: x.len - 1 }))); } }
        A::Boolean(x) => {
            for (n, v) in validity_variants(&x.validity, x.len) { let mut y = x.clone(); y.validity = v; out.push((n, A::Boolean(y))); }
            if !x.values.is_empty() { let mut y = x.clone(); y.values.pop(); out.push(("bool_values_truncated".into(), A::Boolean(y))); }
            { let mut y = x.clone(); y.len += 9; out.push(("bool_len+9".into(), A::Boolean(y))); }
            if x.len > 0 { let mut y = x.clone(); y.len -= 1; out.push(("bool_len-1".into(), A::Boolean(y))); }
        }
        A::Int8(x) => prim!(Int8, x), A::Int16(x) => prim!(Int16, x), A::Int32(x) => prim!(Int32, x), A::Int64(x) => prim!(Int64, x),
        A::UInt8(x) => prim!(UInt8, x), A::UInt16(x) => prim!(UInt16, x), A::UInt32(x) => prim!(UInt32, x), A::UInt64(x) => prim!(UInt64, x),
        A::Float32(x) => prim!(Float32, x), A::Float64(x) => prim!(Float64, x), A::Date32(x) => prim!(Date32, x), A::Date64(x) => prim!(Date64, x),
        A::Time32(x) => prim!(Time32, x), A::Time64(x) => prim!(Time64, x), A::Duration(x) => prim!(Duration, x), A::Timestamp(x) => prim!(Timestamp, x), A::Decimal128(x) => prim!(Decimal128, x),
        A::Utf8(x) => bytes!(Utf8, x, i32::MAX as i64, true), A::LargeUtf8(x) => bytes!(LargeUtf8, x, i64::MAX / 2, true),
        A::Binary(x) => bytes!(Binary, x, i32::MAX as i64, false), A::LargeBinary(x) => bytes!(LargeBinary, x, i64::MAX / 2, false),
        A::Utf8View(x) => view!(Utf8View, x, true), A::BinaryView(x) => view!(BinaryView, x, false),
        A::FixedSizeBinary(x) => {
            for (n, v) in validity_variants(&x.validity, if x.n > 0 { x.data.len() / x.n as usize } else { 0 }) { let mut y = x.clone(); y.validity = v; out.push((n, A::FixedSizeBinary(y))); }
            for n in [0, -1, x.n.saturating_add(1)] { let mut y = x.clone(); y.n = n; out.push((format!("fixed_binary_n={}", n), A::FixedSizeBinary(y))); }
            if !x.data.is_empty() { let mut y = x.clone(); y.data.pop(); out.push(("data_popped".into(), A::FixedSizeBinary(y))); }
        }
        A::List(x) => list!(List, x, i32::MAX as i64), A::LargeList(x) => list!(LargeList, x, i64::MAX / 2),
        A::FixedSizeList(x) => {
            for (n, v) in validity_variants(&x.validity, x.len) { let mut y = x.clone(); y.validity = v; out.push((n, A::FixedSizeList(y))); }
            for n in [-1, x.n.saturating_add(1), i32::MAX] { let mut y = x.clone(); y.n = n; out.push((format!("fixed_list_n={}", n), A::FixedSizeList(y))); }
            { let mut y = x.clone(); y.len += 2; out.push(("fixed_list_len+2".into(), A::FixedSizeList(y))); }
            if x.len > 0 { let mut y = x.clone(); y.len -= 1; out.push(("fixed_list_len-1".into(), A::FixedSizeList(y))); }
            if x.len > 1 { let mut y = x.clone(); y.len = 0; out.push(("fixed_list_len=0".into(), A::FixedSizeList(y))); }
            for (n, c) in corruptions(&x.elements, rng) { let mut y = x.clone(); y.elements = Box::new(c); out.push((format!("elements/{}", n), A::FixedSizeList(y))); }
        }
        A::Struct(x) => {
            for (n, v) in validity_variants(&x.validity, x.len) { let mut y = x.clone(); y.validity = v; out.push((n, A::Struct(y))); }
            { let mut y = x.clone(); y.len += 1; out.push(("struct_len+1".into(), A::Struct(y))); }
            if x.len > 0 { let mut y = x.clone(); y.len -= 1; out.push(("struct_len-1".into(), A::Struct(y))); }
            for (k, (_, c)) in x.fields.iter().enumerate() { for (n, cc) in corruptions(c, rng) { let mut y = x.clone(); y.fields[k].1 = cc; out.push((format!("field{}/{}", k, n), A::Struct(y))); } }
        }
        A::Map(x) => {
            for (n, v) in validity_variants(&x.validity, x.offsets.len().saturating_sub(1)) { let mut y = x.clone(); y.validity = v; out.push((n, A::Map(y))); }
            for (n, o) in off_variants(&x.offsets, i32::MAX as i64, rng) { let mut y = x.clone(); y.offsets = o; out.push((n, A::Map(y))); }
            for (n, c) in corruptions(&x.keys, rng) { let mut y = x.clone(); y.keys = Box::new(c); out.push((format!("keys/{}", n), A::Map(y))); }
            for (n, c) in corruptions(&x.values, rng) { let mut y = x.clone(); y.values = Box::new(c); out.push((format!("values/{}", n), A::Map(y))); }
        }
        A::Dictionary(x) => {
            macro_rules! keys { ($var:ident, $k:expr, $big:expr) => {{
                if !$k.values.is_empty() { let i = rng.below($k.values.len());
                    { let mut kk = $k.clone(); kk.values[i] = $big; let mut y = x.clone(); y.keys = Box::new(A::$var(kk)); out.push(("dict_key_out_of_range".into(), A::Dictionary(y))); }
                    { let mut kk = $k.clone(); kk.values[i] = (0 as i64 - 1) as _; let mut y = x.clone(); y.keys = Box::new(A::$var(kk)); out.push(("dict_key_minus_one".into(), A::Dictionary(y))); } }
            }}; }
            match &*x.keys { A::Int8(k) => keys!(Int8, k, 100), A::Int16(k) => keys!(Int16, k, 1000), A::Int32(k) => keys!(Int32, k, i32::MAX), A::Int64(k) => keys!(Int64, k, i64::MAX),
                A::UInt8(k) => keys!(UInt8, k, 200), A::UInt16(k) => keys!(UInt16, k, 60000), A::UInt32(k) => keys!(UInt32, k, u32::MAX), A::UInt64(k) => keys!(UInt64, k, u64::MAX), _ => {} }
            for (n, c) in corruptions(&x.keys, rng) { let mut y = x.clone(); y.keys = Box::new(c); out.push((format!("keys/{}", n), A::Dictionary(y))); }
            for (n, c) in corruptions(&x.values, rng) { let mut y = x.clone(); y.values = Box::new(c); out.push((format!("values/{}", n), A::Dictionary(y))); }
        }
        A::Union(x) => {
            if !x.types.is_empty() { let i = rng.below(x.types.len());
                for t in [x.fields.len() as i8, -1, 127] { let mut y = x.clone(); y.types[i] = t; out.push((format!("type_id={}", t), A::Union(y))); }
                if let Some(o) = &x.offsets { if i < o.len() { for z in [-1, 1_000_000, i32::MAX] { let mut oo = o.clone(); oo[i] = z; let mut y = x.clone(); y.offsets = Some(oo); out.push((format!("union_offset={}", z), A::Union(y))); } } }
                { let mut y = x.clone(); if let Some(o) = &mut y.offsets { o.pop(); } out.push(("union_offsets_popped".into(), A::Union(y))); }
                { let mut y = x.clone(); y.types.pop(); out.push(("union_types_popped".into(), A::Union(y))); }
            }
            if x.fields.len() >= 2 { let mut y = x.clone(); y.fields.swap(0, 1); out.push(("union_fields_swapped".into(), A::Union(y))); }
            for (k, (_, _, c)) in x.fields.iter().enumerate() { for (n, cc) in corruptions(c, rng) { let mut y = x.clone(); y.fields[k].2 = cc; out.push((format!("variant{}/{}", k, n), A::Union(y))); } }
        }
        _ => {}
    }
    out
}

fn corrupted_case(ctx: &mut Ctx, field: &Field, arr: &Array, what: &str) { corrupted_view_case(ctx, field, &arr.as_view(), what) }

fn corrupted_view_case(ctx: &mut Ctx, field: &Field, view: &marrow::view::View, what: &str) {
    let view = view.clone();
    let len = match guarded(|| Deserializer::from_marrow(std::slice::from_ref(field), std::slice::from_ref(&view)).map(|d| d.len()).map_err(|e| e.to_string())) { Out::Ok(l) => l, Out::Err(_) => 0, Out::Panic(_) => 0 };
    let mut reads = vec![];
    let mut fails = vec![];
    let top = len.min(24);
    for i in 0..=top {
        let r = read_at(field, &view, i);
        if let Out::Panic(p) = &r { fails.push(("panic", format!("corruption {}: reading row {} panics: {}", what, i, p))); }
        reads.push((i, r));
    }
    let class = if reads.iter().any(|(_, r)| matches!(r, Out::Panic(_))) { "panic" } else if reads.iter().any(|(_, r)| matches!(r, Out::Err(_))) { "some_err" } else { "all_ok" };
    ctx.count(&format!("outcome:{}", class));
    ctx.count(&format!("corruption:{}", what.rsplit('/').next().unwrap_or(what).split(|c| c == '=' || c == '[').next().unwrap_or("")));
    let coq = format!("{{| c_field := {}; c_view := {}; c_reads := {} |}}", arrgen::field_coq(field), view_coq(&view), cf::list(&reads, |(i, r)| format!("({}%nat, {})", i, r.coq(|o| cf::option(o, rval_coq)))));
    let desc = json!({"kind": "corrupted", "corruption": what, "field": format!("{:?}", (&field.name, &field.data_type, field.nullable)), "view": format!("{:?}", view),
        "reads": reads.iter().map(|(i, r)| format!("{}: {}", i, match r { Out::Ok(v) => format!("{:?}", v), Out::Err(e) => format!("Err({})", e), Out::Panic(p) => format!("Panic({})", p) })).collect::<Vec<_>>() });
    let idx = ctx.add_case(coq, desc, true);
    for (c, w) in fails { ctx.fail(idx, c, w); }
}

pub fn run(ctx: &mut Ctx) {
    ctx.runner = "RunC17".into();
    ctx.shard_size = 150;
    ctx.rule = "valid one-column arrays of every supported (nested) data type produced by the writer, then every single-point corruption of one length, offset (negative, beyond the data, huge, decreasing, dropped), dictionary key, union type id / offset, validity bitmap (truncated, emptied, too short), data buffer (shortened, invalid UTF-8), view descriptor (length, buffer index, offset) or fixed-size parameter (0, negative, not dividing) at every nesting level (quick: a seeded sample of at most 12 per array), plus seeded pairs of corruptions; each corrupted view is read row by row (and one row past its length) through deserialize_any; the outcome class and value of every read is compared with the reader model (read_top) inside Coq; any panic of the implementation is a violation. Non-trivial: all cases; distinct by (view, reads) A directed sweep applies every single-point corruption (no sampling; lengths shortened as well as lengthened) to 12 kinds of nullable child below 6 kinds of parent, with 3 rows (bitmap padding) and 9 rows.".into();
    let n = if ctx.thorough { 1500 } else { 170 };
    let per = if ctx.thorough { 60 } else { 12 };
    for _g in 0..n {
        let mut rng = ctx.rng.fork();
        let d = rng.below(3);
        let mut field = arrgen::gen_field(&mut rng, "c", d);
        if matches!(field.data_type, DataType::Float16) { field.data_type = DataType::Float32; }
        let nrows = *rng.pick(&[1usize, 2, 3, 5, 9]);
        let mut none = Inject { countdown: -1, what: None };
        let rows: Vec<Val> = (0..nrows).map(|_| Val::Struct(vec![("c".to_string(), arrgen::gen_val(&mut rng, &field, &mut none))], 0)).collect();
        let Out::Ok(arrays) = guarded(|| serde_arrow::to_marrow(std::slice::from_ref(&field), &rows).map_err(|e| e.to_string())) else { ctx.count("skipped:rows_rejected"); continue };
        let mut all = corruptions(&arrays[0], &mut rng);
        ctx.count(&format!("corruptions_per_array:{}", match all.len() { 0..=5 => "0-5", 6..=20 => "6-20", 21..=60 => "21-60", _ => ">60" }));
        if all.len() > per { rng.shuffle(&mut all); all.truncate(per); }
        for (what, arr) in &all { corrupted_case(ctx, &field, arr, what); }
        // a pair of corruptions
        if !all.is_empty() { let (w1, a1) = &all[rng.below(all.len())]; let mut second = corruptions(a1, &mut rng); if !second.is_empty() { let k = rng.below(second.len()); let (w2, a2) = second.swap_remove(k); corrupted_case(ctx, &field, &a2, &format!("{} + {}", w1, w2)); } }
    }
    // windows with a bit offset whose bitmaps are too short (truncated, not empty): every bit offset 1..7 x every number of
    // bytes kept, for columns with a validity bitmap (and, for Boolean, a values bitmap); rows up to the window length are read
    {
        use DataType as T;
        let mk = |n: &str, dt: DataType, nl: bool| Field { name: n.into(), data_type: dt, nullable: nl, metadata: Default::default() };
        let mut rng = ctx.rng.fork();
        for dt in [T::Int32, T::Boolean, T::Utf8, T::Float64, T::List(Box::new(mk("element", T::Int8, true))), T::Struct(vec![mk("a", T::Int32, true)])] {
            let field = mk("c", dt, true);
            let nrows = 24usize;
            let mut none = Inject { countdown: -1, what: None };
            let rows: Vec<Val> = (0..nrows).map(|i| Val::Struct(vec![("c".to_string(), if i % 5 == 1 { Val::None } else { arrgen::gen_val(&mut rng, &mk("c", field.data_type.clone(), false), &mut none) })], 0)).collect();
            let Out::Ok(arrays) = guarded(|| serde_arrow::to_marrow(std::slice::from_ref(&field), &rows).map_err(|e| e.to_string())) else { ctx.count("skipped:sliced_rows_rejected"); continue };
            let whole = arrays[0].as_view();
            for off in 1..8usize {
                let len = nrows - off;
                let window = crate::viewgen::slice_view(&whole, off, len);
                for keep in 1..3usize {
                    if !ctx.thorough && (off + keep) % 2 == 1 { continue; }
                    let cut = crate::viewgen::truncate_bits(&window, keep);
                    ctx.count("sliced:bit_offset_x_short_bitmap");
                    corrupted_view_case(ctx, &field, &cut, &format!("window at {} of {} rows, bitmaps cut to {} byte(s)", off, nrows, keep));
                }
            }
        }
    }
    // directed: every kind of child below every kind of parent, all single-point corruptions (no sampling),
    // rows with nulls at the child so that validity bitmaps exist, 3 rows (bitmap padding) and 9 rows (two bytes)
    {
        use DataType as T;
        let mk = |n: &str, dt: DataType, nl: bool| Field { name: n.into(), data_type: dt, nullable: nl, metadata: Default::default() };
        let children: Vec<DataType> = vec![
            T::FixedSizeList(Box::new(mk("element", T::Int32, false)), 2), T::Struct(vec![mk("a", T::Int32, true), mk("b", T::Utf8, false)]), T::Boolean, T::Null, T::Int16, T::Utf8, T::LargeBinary,
            T::List(Box::new(mk("element", T::Int8, true))), T::Utf8View, T::FixedSizeBinary(2), T::Dictionary(Box::new(T::Int8), Box::new(T::Utf8)),
            T::Map(Box::new(mk("entries", T::Struct(vec![mk("key", T::Utf8, false), mk("value", T::Int32, true)]), false)), false)];
        let mut rng = ctx.rng.fork();
        for child in &children {
            // the child nullable (validity bitmaps exist) and not nullable (no bitmap: the bounds of the child are the only guard)
            for (parent, child_nullable) in (0..6usize).flat_map(|p| [(p, true), (p, false)]) {
                if !child_nullable && matches!(child, T::Null) { continue; }
                let c = |n: &str| mk(n, child.clone(), child_nullable);
                let field = match parent {
                    0 => mk("c", T::Struct(vec![mk("x", T::Int32, false), c("y")]), true),
                    1 => mk("c", T::List(Box::new(c("element"))), true),
                    2 => mk("c", T::LargeList(Box::new(c("element"))), false),
                    3 => mk("c", T::FixedSizeList(Box::new(c("element")), 2), true),
                    4 => mk("c", T::Map(Box::new(mk("entries", T::Struct(vec![mk("key", T::Utf8, false), c("value")]), false)), false), true),
                    _ => mk("c", T::Union(vec![(0, mk("V0", T::Null, true)), (1, c("V1"))], marrow::datatypes::UnionMode::Dense), false),
                };
                for nrows in [3usize, 9] {
                    if nrows == 9 && !ctx.thorough && (parent % 2 == 1 || !child_nullable) { continue; }
                    let mut none = Inject { countdown: -1, what: None };
                    let rows: Vec<Val> = (0..nrows).map(|_| Val::Struct(vec![("c".to_string(), arrgen::gen_val(&mut rng, &field, &mut none))], 0)).collect();
                    let Out::Ok(arrays) = guarded(|| serde_arrow::to_marrow(std::slice::from_ref(&field), &rows).map_err(|e| e.to_string())) else { ctx.count("skipped:directed_rows_rejected"); continue };
                    ctx.count("directed:child_x_parent");
                    for (what, arr) in corruptions(&arrays[0], &mut rng) { corrupted_case(ctx, &field, &arr, &what); }
                }
            }
        }
    }
}
