//! C04: round trip through a type-traced schema. For every zoo type and every combination of the
//! tracing options that change the physical types, values are written with the schema traced from
//! the type through every front end (to_marrow, to_arrow, to_record_batch, to_arrow2, ArrayBuilder
//! row by row, the Serializer wrapper) and read back (owned and borrowed targets); the result must
//! equal the input. The arrays are additionally judged inside Coq by the C01 oracle.
use crate::arrgen::Val;
use crate::c01::ser_case;
use crate::coqfmt::{guarded, Out};
use crate::ctx::Ctx;
use crate::tracegen::TOpts;
use crate::zoo::{self, Zoo};
use marrow::datatypes::Field;
use serde::Serialize;
use serde_arrow::schema::SchemaLike;
use serde_arrow::utils::Item;

fn option_sets<T: Zoo>(enum_none_ok_only: bool) -> Vec<TOpts> {
    let mut base = TOpts::default();
    base.allow_null = T::NEEDS_NULL; base.map_as_struct = !T::HAS_MAP;
    let mut out = vec![];
    for bits in 0..16u32 {
        let mut o = base; o.large_list = bits & 1 == 0; o.large_utf8 = bits & 2 == 0; o.dict = bits & 4 != 0; o.enums_str = bits & 8 != 0;
        if enum_none_ok_only && !o.enums_str { continue; }
        out.push(o);
    }
    out
}

fn roundtrips<T: Zoo>(ctx: &mut Ctx, fields: &[Field], values: &[T], idx: usize, o: &TOpts) {
    let fail = |ctx: &mut Ctx, class: &str, what: String| ctx.fail(idx, class, format!("{} under {:?}: {}", T::NAME, o, what));
    // marrow
    match guarded(|| -> Result<Vec<T>, String> { let a = serde_arrow::to_marrow(fields, values).map_err(|e| format!("to_marrow: {}", e))?; let v: Vec<_> = a.iter().map(|x| x.as_view()).collect(); serde_arrow::from_marrow(fields, &v).map_err(|e| format!("from_marrow: {}", e)) }) {
        Out::Ok(back) => if back != values { fail(ctx, "roundtrip_changes_values", format!("marrow: {:?} came back as {:?}", values, back)); },
        Out::Err(e) => fail(ctx, "type_traced_schema_rejects_value", e), Out::Panic(p) => fail(ctx, "panic", p),
    }
    // marrow, foreign layout: unions with their children in the reverse order must read back as the same values
    if fields.iter().any(crate::foreign::has_union) {
        match guarded(|| -> Result<Vec<T>, String> { let a = serde_arrow::to_marrow(fields, values).map_err(|e| format!("to_marrow: {}", e))?;
                let rf: Vec<Field> = fields.iter().map(crate::foreign::rev_field).collect(); let ra: Vec<_> = a.iter().map(crate::foreign::rev_array).collect();
                let v: Vec<_> = ra.iter().map(|x| x.as_view()).collect(); serde_arrow::from_marrow(&rf, &v).map_err(|e| format!("from_marrow (unions reversed): {}", e)) }) {
            Out::Ok(back) => if back != values { fail(ctx, "foreign_layout_changes_values", format!("unions reversed: {:?} came back as {:?}", values, back)); },
            Out::Err(e) => fail(ctx, "foreign_layout_rejected", e), Out::Panic(p) => fail(ctx, "panic", p),
        }
    }
    // arrow
    let af: Vec<arrow_schema::FieldRef> = match fields.iter().map(|f| arrow_schema::Field::try_from(f).map(std::sync::Arc::new)).collect::<Result<_, _>>() { Ok(v) => v, Err(e) => { fail(ctx, "arrow_fields", e.to_string()); return; } };
    match guarded(|| -> Result<Vec<T>, String> { let a = serde_arrow::to_arrow(&af, values).map_err(|e| format!("to_arrow: {}", e))?; serde_arrow::from_arrow(&af, &a).map_err(|e| format!("from_arrow: {}", e)) }) {
        Out::Ok(back) => if back != values { fail(ctx, "roundtrip_changes_values", format!("arrow: came back as {:?}", back)); },
        Out::Err(e) => fail(ctx, "arrow_roundtrip_fails", e), Out::Panic(p) => fail(ctx, "panic", p),
    }
    match guarded(|| -> Result<Vec<T>, String> { let b = serde_arrow::to_record_batch(&af, &values.to_vec()).map_err(|e| format!("to_record_batch: {}", e))?; serde_arrow::from_record_batch(&b).map_err(|e| format!("from_record_batch: {}", e)) }) {
        Out::Ok(back) => if back != values { fail(ctx, "roundtrip_changes_values", format!("record batch: came back as {:?}", back)); },
        Out::Err(e) => fail(ctx, "record_batch_roundtrip_fails", e), Out::Panic(p) => fail(ctx, "panic", p),
    }
    // arrow2 (only the types it offers)
    if let Ok(f2) = fields.iter().map(arrow2::datatypes::Field::try_from).collect::<Result<Vec<_>, _>>() {
        match guarded(|| -> Result<Vec<T>, String> { let a = serde_arrow::to_arrow2(&f2, values).map_err(|e| format!("to_arrow2: {}", e))?; serde_arrow::from_arrow2(&f2, &a).map_err(|e| format!("from_arrow2: {}", e)) }) {
            Out::Ok(back) => if back != values { fail(ctx, "roundtrip_changes_values", format!("arrow2: came back as {:?}", back)); },
            Out::Err(e) => fail(ctx, "arrow2_roundtrip_fails", e), Out::Panic(p) => fail(ctx, "panic", p),
        }
    } else { ctx.count("arrow2:fields_unsupported"); }
    // ArrayBuilder row by row, and the Serializer wrapper: the same arrays as the one-shot conversion
    let one = serde_arrow::to_marrow(fields, values).ok();
    match guarded(|| -> Result<Vec<marrow::array::Array>, String> { let mut b = serde_arrow::ArrayBuilder::from_marrow(fields).map_err(|e| e.to_string())?; for v in values { b.push(v).map_err(|e| e.to_string())?; } b.to_marrow().map_err(|e| e.to_string()) }) {
        Out::Ok(a) => if let Some(o1) = &one { if !crate::arrgen::arrays_eq(&a, o1) { fail(ctx, "front_ends_differ", "ArrayBuilder row by row differs from to_marrow".into()); } },
        Out::Err(e) => fail(ctx, "builder_roundtrip_fails", e), Out::Panic(p) => fail(ctx, "panic", p),
    }
    match guarded(|| -> Result<Vec<marrow::array::Array>, String> { let b = serde_arrow::ArrayBuilder::from_marrow(fields).map_err(|e| e.to_string())?; let s = values.serialize(serde_arrow::Serializer::new(b)).map_err(|e| e.to_string())?; s.into_inner().to_marrow().map_err(|e| e.to_string()) }) {
        Out::Ok(a) => if let Some(o1) = &one { if !crate::arrgen::arrays_eq(&a, o1) { fail(ctx, "front_ends_differ", "Serializer wrapper differs from to_marrow".into()); } },
        Out::Err(e) => fail(ctx, "serializer_roundtrip_fails", e), Out::Panic(p) => fail(ctx, "panic", p),
    }
}

fn type_cases<T: Zoo>(ctx: &mut Ctx, enum_none_ok_only: bool) {
    let mut rng = ctx.rng.fork();
    for o in option_sets::<T>(enum_none_ok_only) {
        let traced = guarded(|| Vec::<Field>::from_type::<T>(o.to_options()).map_err(|e| e.to_string()));
        let fields = match traced { Out::Ok(f) => f, Out::Err(e) => { ctx.count(&format!("{}:not_traced", T::NAME)); let _ = e; continue; } Out::Panic(p) => { let idx = ser_case(ctx, &[], &[], "panic", None); ctx.fail(idx, "panic", format!("from_type panics: {}", p)); continue; } };
        let n = if ctx.thorough { 60 } else { 8 };
        let mut values: Vec<T> = T::covering(&mut rng);
        for _ in 0..n { values.push(T::gen(&mut rng)); }
        let rows: Vec<Val> = values.iter().map(|v| zoo::to_val(v)).collect();
        ctx.count(&format!("{}:traced", T::NAME));
        let idx = ser_case(ctx, &fields, &rows, T::NAME, None);
        roundtrips::<T>(ctx, &fields, &values, idx, &o);
        // the empty batch
        roundtrips::<T>(ctx, &fields, &[], idx, &o);
        // the same values in reverse and in a shuffled order (state kept by the builders across records -
        // field lookup caches, union counters - must not depend on which record came first)
        let mut rev = values.clone(); rev.reverse();
        roundtrips::<T>(ctx, &fields, &rev, idx, &o);
        let mut order: Vec<usize> = (0..values.len()).collect(); rng.shuffle(&mut order);
        let shuffled: Vec<T> = order.iter().map(|&i| values[i].clone()).collect();
        roundtrips::<T>(ctx, &fields, &shuffled, idx, &o);
    }
}

pub fn run(ctx: &mut Ctx) {
    ctx.runner = "RunC01".into();
    ctx.shard_size = 40;
    ctx.rule = "10 derived types of the zoo (all primitive widths, char, strings, bytes, Option incl. Option of containers and of enums, Vec, arrays, tuples, newtype / unit / tuple structs, enums with unit / newtype / tuple / struct variants, all-unit and single-variant enums, string-keyed maps, rename / rename_all / default / skip_serializing_if / transparent) x the 16 combinations of the options that change physical types (sequence_as_large_list, strings_as_large_utf8, string_dictionary_encoding, enums_without_data_as_strings; maps as maps) x covering + random values (and the empty batch): schema traced from the type, written through to_marrow, to_arrow, to_record_batch, to_arrow2, ArrayBuilder row by row and the Serializer wrapper, read back with from_marrow / from_arrow / from_record_batch / from_arrow2 and compared with PartialEq; borrowed targets (&str, &[u8]) on the string and bytes columns; the arrays of every case are judged inside Coq by the C01 oracle (decode = interp of the recorded serde calls). Exclusions as in the property: None for an Option<enum> mapped to a union (such types only run with enums_without_data_as_strings)".into();
    type_cases::<zoo::Prims>(ctx, false); type_cases::<zoo::Nested>(ctx, false); type_cases::<zoo::Wrappers>(ctx, false); type_cases::<zoo::Enums>(ctx, false);
    type_cases::<zoo::UnitEnums>(ctx, false); type_cases::<zoo::Maps>(ctx, false); type_cases::<zoo::Attrs>(ctx, false); type_cases::<zoo::Deep>(ctx, false);
    type_cases::<zoo::OptEnums>(ctx, true); type_cases::<zoo::KeyMaps>(ctx, true);
    // borrowed targets
    let idx = ser_case(ctx, &[], &[], "borrowed", None);
    let f = vec![Field { name: "item".into(), data_type: marrow::datatypes::DataType::LargeUtf8, nullable: false, metadata: Default::default() }];
    let strings = vec![Item("a".to_string()), Item("".to_string()), Item("héllo".to_string())];
    match guarded(|| -> Result<bool, String> { let a = serde_arrow::to_marrow(&f, &strings).map_err(|e| e.to_string())?; let v: Vec<_> = a.iter().map(|x| x.as_view()).collect(); let back: Vec<Item<&str>> = serde_arrow::from_marrow(&f, &v).map_err(|e| e.to_string())?; Ok(back.iter().map(|x| x.0).collect::<Vec<_>>() == strings.iter().map(|x| x.0.as_str()).collect::<Vec<_>>()) }) {
        Out::Ok(true) => ctx.count("borrowed_str:ok"), Out::Ok(false) => ctx.fail(idx, "roundtrip_changes_values", "borrowed &str targets differ".into()), Out::Err(e) => ctx.fail(idx, "borrowed_target_fails", e), Out::Panic(p) => ctx.fail(idx, "panic", p),
    }
    let fb = vec![Field { name: "item".into(), data_type: marrow::datatypes::DataType::LargeBinary, nullable: false, metadata: Default::default() }];
    let blobs = vec![Item(serde_bytes::ByteBuf::from(vec![1u8, 2])), Item(serde_bytes::ByteBuf::from(vec![]))];
    match guarded(|| -> Result<bool, String> { let a = serde_arrow::to_marrow(&fb, &blobs).map_err(|e| e.to_string())?; let v: Vec<_> = a.iter().map(|x| x.as_view()).collect(); let back: Vec<Item<&serde_bytes::Bytes>> = serde_arrow::from_marrow(&fb, &v).map_err(|e| e.to_string())?; Ok(back.iter().map(|x| x.0.to_vec()).collect::<Vec<_>>() == blobs.iter().map(|x| x.0.to_vec()).collect::<Vec<_>>()) }) {
        Out::Ok(true) => ctx.count("borrowed_bytes:ok"), Out::Ok(false) => ctx.fail(idx, "roundtrip_changes_values", "borrowed &[u8] targets differ".into()), Out::Err(e) => ctx.fail(idx, "borrowed_target_fails", e), Out::Panic(p) => ctx.fail(idx, "panic", p),
    }
    // a record of borrowed fields, schema traced from the type: required and optional &str, required and optional &[u8] (a plain
    // &[u8] is WRITTEN element by element as a sequence of u8 into the LargeBinary column the type is traced as), nested once
    {
        #[derive(serde::Serialize, serde::Deserialize, PartialEq, Debug, Clone)]
        struct BInner<'a> { #[serde(borrow)] ob: Option<&'a [u8]>, #[serde(borrow)] s: &'a str }
        #[derive(serde::Serialize, serde::Deserialize, PartialEq, Debug, Clone)]
        struct Borrowed<'a> { #[serde(borrow)] b: &'a [u8], #[serde(borrow)] ob: Option<&'a [u8]>, #[serde(borrow)] os: Option<&'a str>, #[serde(borrow)] inner: Option<BInner<'a>>, #[serde(borrow)] l: Vec<Option<&'a [u8]>> }
        let data: Vec<Vec<u8>> = vec![vec![], vec![0], vec![1, 2, 3], (0..12u8).collect(), (0..13u8).collect(), vec![255; 40]];
        let texts = ["", "a", "héllo"];
        let mut values: Vec<Borrowed> = vec![];
        for i in 0..9usize {
            let d = |k: usize| data[(i + k) % data.len()].as_slice();
            values.push(Borrowed { b: d(0), ob: if i % 3 == 1 { None } else { Some(d(1)) }, os: if i % 2 == 0 { Some(texts[i % 3]) } else { None },
                inner: if i % 4 == 3 { None } else { Some(BInner { ob: if i % 2 == 0 { Some(d(2)) } else { None }, s: texts[(i + 1) % 3] }) },
                l: (0..i % 4).map(|k| if k == 1 { None } else { Some(d(3 + k)) }).collect() });
        }
        for lu in [true, false] {
            let mut o = TOpts::default(); o.large_utf8 = lu; o.large_list = !lu;
            let r = guarded(|| -> Result<bool, String> {
                let fields = Vec::<Field>::from_type::<Borrowed>(o.to_options()).map_err(|e| format!("from_type: {}", e))?;
                let a = serde_arrow::to_marrow(&fields, &values).map_err(|e| format!("to_marrow: {}", e))?;
                let v: Vec<_> = a.iter().map(|x| x.as_view()).collect();
                let back: Vec<Borrowed> = serde_arrow::from_marrow(&fields, &v).map_err(|e| format!("from_marrow: {}", e))?;
                Ok(back == values)
            });
            match r {
                Out::Ok(true) => ctx.count("borrowed_record:ok"), Out::Ok(false) => ctx.fail(idx, "roundtrip_changes_values", format!("record of borrowed fields under {:?} came back changed", o)),
                Out::Err(e) => ctx.fail(idx, "borrowed_target_fails", e), Out::Panic(p) => ctx.fail(idx, "panic", p),
            }
        }
    }
    // enums with data below a nullable struct-like parent: a missing parent writes a PLACEHOLDER row into the union (and into the first
    // variant's child); the values that follow - of the first variant and of later ones, in one batch and across batches of one builder -
    // must come back unchanged
    {
        #[derive(serde::Serialize, serde::Deserialize, PartialEq, Debug, Clone)]
        #[serde(rename_all = "snake_case")]
        enum Reading { RawCount(u32), Scaled { value: i16, exp: i8 }, Pair(u8, u8), Missing }
        #[derive(serde::Serialize, serde::Deserialize, PartialEq, Debug, Clone)]
        struct Sample { tag: i8, reading: Reading }
        #[derive(serde::Serialize, serde::Deserialize, PartialEq, Debug, Clone)]
        struct Holder { s: Option<Sample>, t: Option<(i8, Reading)>, l: Vec<Option<Sample>> }
        let rd = |i: usize| match i % 4 { 0 => Reading::RawCount(17 + i as u32), 1 => Reading::Scaled { value: -(i as i16), exp: 3 }, 2 => Reading::Pair(i as u8, 9), _ => Reading::Missing };
        let sm = |i: usize| Sample { tag: i as i8, reading: rd(i) };
        let mut values: Vec<Holder> = vec![];
        for i in 0..12usize {
            values.push(Holder { s: if i % 3 == 0 { None } else { Some(sm(i + i / 3)) }, t: if i % 4 == 1 { None } else { Some((i as i8, rd(i / 2))) },
                l: (0..i % 4).map(|k| if k == 0 { None } else { Some(sm(4 * k)) }).collect() });
        }
        for bits in [0u32, 2, 8] {
            let mut o = TOpts::from_bits(bits); o.allow_null = true;   // the unit variant is a Null field
            let r = guarded(|| -> Result<bool, String> {
                let fields = Vec::<Field>::from_type::<Holder>(o.to_options()).map_err(|e| format!("from_type: {}", e))?;
                let a = serde_arrow::to_marrow(&fields, &values).map_err(|e| format!("to_marrow: {}", e))?;
                let v: Vec<_> = a.iter().map(|x| x.as_view()).collect();
                let back: Vec<Holder> = serde_arrow::from_marrow(&fields, &v).map_err(|e| format!("from_marrow: {}", e))?;
                // the same values as the second batch of a reused builder
                let mut b = serde_arrow::ArrayBuilder::from_marrow(&fields).map_err(|e| e.to_string())?;
                b.extend(&values[..5]).map_err(|e| e.to_string())?; b.to_marrow().map_err(|e| e.to_string())?;
                b.extend(&values).map_err(|e| e.to_string())?; let a2 = b.to_marrow().map_err(|e| e.to_string())?;
                let v2: Vec<_> = a2.iter().map(|x| x.as_view()).collect();
                let back2: Vec<Holder> = serde_arrow::from_marrow(&fields, &v2).map_err(|e| format!("from_marrow: {}", e))?;
                Ok(back == values && back2 == values)
            });
            match r {
                Out::Ok(true) => ctx.count("enum_below_nullable_parent:ok"), Out::Ok(false) => ctx.fail(idx, "roundtrip_changes_values", format!("enums with data below nullable parents under {:?} came back changed", o)),
                Out::Err(e) => ctx.fail(idx, "enum_below_nullable_parent_fails", e), Out::Panic(p) => ctx.fail(idx, "panic", p),
            }
        }
    }
}
