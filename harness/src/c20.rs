//! C20: extension-type field helpers vs coq/Codec/Tensor.v
use crate::coqfmt::{self as cf, guarded, Out};
use crate::ctx::Ctx;
use crate::rng::Rng;
use marrow::datatypes::{DataType, Field};
use serde_arrow::schema::ext::{Bool8Field, FixedShapeTensorField, VariableShapeTensorField};
use serde_json::{json, Value};

#[derive(Clone, Debug)]
enum Cfg {
    Fixed { shape: Vec<usize>, perm: Option<Vec<usize>>, names: Option<Vec<String>> },
    Var { ndim: usize, perm: Option<Vec<usize>>, names: Option<Vec<String>>, uniform: Option<Vec<Option<usize>>> },
}

fn nat_list(v: &[usize]) -> String { format!("{}%nat", cf::list(v, |x| cf::nat(*x))) }
fn cfg_coq(c: &Cfg) -> String {
    match c {
        Cfg::Fixed { shape, perm, names } => format!("(CFixed {} {} {})",
            cf::list(shape, |x| cf::n(*x)), cf::option(perm, |p| nat_list(p)),
            cf::option(names, |ns| cf::list(ns, |s| cf::text(s)))),
        Cfg::Var { ndim, perm, names, uniform } => format!("(CVar {}%nat {} {} {})", ndim,
            cf::option(perm, |p| nat_list(p)), cf::option(names, |ns| cf::list(ns, |s| cf::text(s))),
            cf::option(uniform, |u| cf::list(u, |o| cf::option(o, |x| cf::n(*x))))),
    }
}

fn gen_name(rng: &mut Rng) -> String {
    let pool = ["x", "y", "", "a b", "q\"uote", "back\\slash", "tab\there", "nl\nx", "\u{1}", "\u{1f}ctl", "é", "日本", "𝄞", "\u{7f}", "\u{0}z", "C", "H", "W", "it's", "\u{200b}", "\u{301}"];
    if rng.chance(3, 4) { pool[rng.below(pool.len())].to_string() } else {
        let n = rng.below(5);
        (0..n).map(|_| { let c = rng.below(0x80) as u8 as char; c }).collect()
    }
}

fn gen_perm(rng: &mut Rng, ndim: usize) -> Vec<usize> {
    match rng.below(8) {
        0..=3 => { let mut p: Vec<usize> = (0..ndim).collect(); rng.shuffle(&mut p); p }
        4 => { let mut p: Vec<usize> = (0..ndim).collect(); rng.shuffle(&mut p); if ndim >= 2 { p[0] = p[1]; } p } // duplicate
        5 => { let mut p: Vec<usize> = (0..ndim).collect(); if ndim >= 1 { let k = rng.below(ndim); p[k] = ndim + rng.below(3); } p } // out of range
        6 => { let n = (ndim + 1 + rng.below(2)).min(6); (0..n).collect() } // too long
        _ => { let n = ndim.saturating_sub(1); (0..n).collect() } // too short
    }
}

fn all_perm_like(ndim: usize, out: &mut Vec<Vec<usize>>) {
    // every list of length ndim over 0..=ndim (covers all permutations and all non-permutations of that length)
    let base = ndim + 1;
    let total = base.pow(ndim as u32);
    for mut k in 0..total {
        let mut v = vec![];
        for _ in 0..ndim { v.push(k % base); k /= base; }
        out.push(v);
    }
}

fn is_perm(ndim: usize, p: &[usize]) -> bool {
    let mut s = p.to_vec(); s.sort(); s == (0..ndim).collect::<Vec<_>>()
}

fn expected_json(c: &Cfg) -> Value {
    let mut m = serde_json::Map::new();
    match c {
        Cfg::Fixed { shape, perm, names } => {
            m.insert("shape".into(), json!(shape));
            if let Some(p) = perm { m.insert("permutation".into(), json!(p)); }
            if let Some(n) = names { m.insert("dim_names".into(), json!(n)); }
        }
        Cfg::Var { perm, names, uniform, .. } => {
            if let Some(p) = perm { m.insert("permutation".into(), json!(p)); }
            if let Some(n) = names { m.insert("dim_names".into(), json!(n)); }
            if let Some(u) = uniform { m.insert("uniform_shape".into(), json!(u)); }
        }
    }
    Value::Object(m)
}

fn run_cfg(c: &Cfg) -> Out<Field> {
    let elem = json!({"name": "element", "data_type": "F32"});
    guarded(|| -> Result<Field, String> {
        match c {
            Cfg::Fixed { shape, perm, names } => {
                let mut f = FixedShapeTensorField::new("t", elem, shape.clone()).map_err(|e| e.to_string())?;
                if let Some(p) = perm { f = f.permutation(p.clone()).map_err(|e| e.to_string())?; }
                if let Some(n) = names { f = f.dim_names(n.clone()).map_err(|e| e.to_string())?; }
                Field::try_from(&f).map_err(|e| e.to_string())
            }
            Cfg::Var { ndim, perm, names, uniform } => {
                let mut f = VariableShapeTensorField::new("t", elem, *ndim).map_err(|e| e.to_string())?;
                if let Some(p) = perm { f = f.permutation(p.clone()).map_err(|e| e.to_string())?; }
                if let Some(n) = names { f = f.dim_names(n.clone()).map_err(|e| e.to_string())?; }
                if let Some(u) = uniform { f = f.uniform_shape(u.clone()).map_err(|e| e.to_string())?; }
                Field::try_from(&f).map_err(|e| e.to_string())
            }
        }
    })
}

fn check_case(ctx: &mut Ctx, c: &Cfg, label: &str) {
    let res = run_cfg(c);
    let mut fails: Vec<(String, String)> = vec![];
    // independent expectation of accept / reject
    let (ndim, perm, names, ulen) = match c {
        Cfg::Fixed { shape, perm, names } => (shape.len(), perm, names, None),
        Cfg::Var { ndim, perm, names, uniform } => (*ndim, perm, names, uniform.as_ref().map(|u| u.len())),
    };
    let params_ok = perm.as_ref().map_or(true, |p| is_perm(ndim, p)) && names.as_ref().map_or(true, |n| n.len() == ndim) && ulen.map_or(true, |l| l == ndim);
    let size: Option<u128> = match c {
        Cfg::Fixed { shape, .. } => { let mut n: u128 = 1; let mut ok = true; for s in shape { n = n.saturating_mul(*s as u128); if n > u64::MAX as u128 { ok = false; } } if ok && n <= i32::MAX as u128 { Some(n) } else { None } }
        Cfg::Var { ndim, .. } => Some(*ndim as u128),
    };
    let out: Out<(u128, Vec<u8>)> = match &res {
        Out::Ok(field) => {
            let md = field.metadata.get("ARROW:extension:metadata").cloned().unwrap_or_default();
            let name = field.metadata.get("ARROW:extension:name").cloned().unwrap_or_default();
            if !params_ok { fails.push(("accepts_invalid_parameters".into(), format!("{:?} accepted", c))); }
            match serde_json::from_str::<Value>(&md) {
                Ok(v) => if v != expected_json(c) { fails.push(("metadata_wrong_content".into(), format!("metadata {} does not state {}", md, expected_json(c)))); },
                Err(e) => fails.push(("metadata_not_json".into(), format!("metadata {:?} is not valid JSON: {}", md, e))),
            }
            let elem = Field { name: "element".into(), data_type: DataType::Float32, nullable: false, metadata: Default::default() };
            let n = match (c, &field.data_type) {
                (Cfg::Fixed { .. }, DataType::FixedSizeList(e, n)) => {
                    if **e != elem || name != "arrow.fixed_shape_tensor" || Some(*n as u128) != size { fails.push(("storage_wrong".into(), format!("{:?}", field))); }
                    *n as u128
                }
                (Cfg::Var { ndim, .. }, DataType::Struct(fs)) => {
                    let ok = fs.len() == 2 && fs[0].name == "data" && fs[0].data_type == DataType::List(Box::new(elem.clone())) && !fs[0].nullable
                        && fs[1].name == "shape" && !fs[1].nullable
                        && fs[1].data_type == DataType::FixedSizeList(Box::new(Field { name: "element".into(), data_type: DataType::Int32, nullable: false, metadata: Default::default() }), *ndim as i32)
                        && name == "arrow.variable_shape_tensor";
                    if !ok { fails.push(("storage_wrong".into(), format!("{:?}", field))); }
                    *ndim as u128
                }
                _ => { fails.push(("storage_wrong".into(), format!("{:?}", field))); 0 }
            };
            Out::Ok((n, md.into_bytes()))
        }
        Out::Err(e) => {
            if params_ok && size.is_some() { fails.push(("rejects_valid_parameters".into(), format!("{:?} rejected: {}", c, e))); }
            Out::Err(e.clone())
        }
        Out::Panic(p) => { fails.push(("panic".into(), format!("{:?} panics: {}", c, p))); Out::Panic(p.clone()) }
    };
    ctx.count(&format!("{}:{}", label, out.class()));
    let coq = format!("{{| c_cfg := {}; c_impl := {} |}}", cfg_coq(c), out.coq(|(n, m)| format!("({}, {})", cf::n(n), cf::bytes(m))));
    let desc = json!({"cfg": format!("{:?}", c), "impl": match &out { Out::Ok((n, m)) => json!({"ok": {"size": n.to_string(), "metadata": String::from_utf8_lossy(m)}}), Out::Err(e) => json!({"err": e}), Out::Panic(p) => json!({"panic": p}) }});
    let nontrivial = perm.is_some() || names.is_some() || ulen.is_some() || ndim == 0 || size.is_none();
    let idx = ctx.add_case(coq, desc, nontrivial);
    for (cls, what) in fails { ctx.fail(idx, &cls, what); }
}

pub fn run(ctx: &mut Ctx) {
    ctx.runner = "RunC20".into();
    ctx.rule = "fixed/variable-shape tensor helper configurations: exhaustive part = every index list of length ndim over 0..=ndim for ndim <= 4 (all permutations and non-permutations of that length) for both helpers, every subset of the optional settings on a fixed family; random part = shapes incl. 0 dims, zeros and overflowing extents, permutation candidates (valid, duplicate, out of range, too long/short), dim names needing JSON escaping (quotes, backslash, control characters, non-ASCII), uniform shapes; non-trivial = any optional setting present, ndim = 0, or element count out of range; distinct by configuration and result".into();
    // bool8 (fixed output)
    {
        let f = Field::try_from(&Bool8Field::new("b").nullable(true)).unwrap();
        let ok = f.data_type == DataType::Int8 && f.nullable && f.metadata.get("ARROW:extension:name").map(|s| s.as_str()) == Some("arrow.bool8") && f.metadata.get("ARROW:extension:metadata").map(|s| s.as_str()) == Some("");
        ctx.add_eval("bool8", true);
        if !ok { ctx.fail(0, "bool8_wrong", format!("{:?}", f)); }
    }
    // exhaustive permutations / non-permutations
    for ndim in 0..=4usize {
        let mut ps = vec![]; all_perm_like(ndim, &mut ps);
        for p in ps {
            check_case(ctx, &Cfg::Fixed { shape: (0..ndim).map(|i| i + 2).collect(), perm: Some(p.clone()), names: None }, "exh_fixed");
            check_case(ctx, &Cfg::Var { ndim, perm: Some(p), names: None, uniform: None }, "exh_var");
        }
    }
    // every subset of optional settings
    for mask in 0..8u32 {
        let names = vec!["a\"b".to_string(), "c\\d\u{2}".to_string()];
        check_case(ctx, &Cfg::Var { ndim: 2, perm: if mask & 1 != 0 { Some(vec![1, 0]) } else { None }, names: if mask & 2 != 0 { Some(names.clone()) } else { None }, uniform: if mask & 4 != 0 { Some(vec![None, Some(3)]) } else { None } }, "subsets");
        check_case(ctx, &Cfg::Fixed { shape: vec![4, 5], perm: if mask & 1 != 0 { Some(vec![1, 0]) } else { None }, names: if mask & 2 != 0 { Some(names.clone()) } else { None } }, "subsets");
    }
    // overflow pool
    for shape in [vec![usize::MAX, 2], vec![1 << 32, 1 << 32], vec![1 << 31], vec![(1 << 31) - 1], vec![65536, 65536], vec![0, usize::MAX, 5], vec![usize::MAX, 0], vec![3, 1 << 62, 4], vec![46341, 46341], vec![46340, 46340]] {
        check_case(ctx, &Cfg::Fixed { shape, perm: None, names: None }, "overflow_pool");
    }
    ctx.extra.insert("exhaustive".into(), json!(false));
    ctx.extra.insert("exhaustive_subdomains".into(), json!(["index lists of length ndim over 0..=ndim, ndim<=4, both helpers", "all 8 subsets of optional settings"]));
    let n = if ctx.thorough { 40000 } else { 1500 };
    for _ in 0..n {
        let mut rng = ctx.rng.fork();
        let ndim = rng.below(5);
        let perm = if rng.chance(1, 2) { Some(gen_perm(&mut rng, ndim)) } else { None };
        let names = if rng.chance(1, 2) { let k = if rng.chance(5, 6) { ndim } else { ndim + 1 }; Some((0..k).map(|_| gen_name(&mut rng)).collect()) } else { None };
        if rng.chance(1, 2) {
            let dims = [0usize, 1, 2, 3, 7, 100, 65536, 1 << 31, usize::MAX];
            let shape = (0..ndim).map(|_| if rng.chance(9, 10) { dims[rng.below(5)] } else { dims[rng.below(dims.len())] }).collect();
            check_case(ctx, &Cfg::Fixed { shape, perm, names }, "rand_fixed");
        } else {
            let uniform = if rng.chance(1, 2) { let k = if rng.chance(5, 6) { ndim } else { ndim.saturating_sub(1) + 2 * (ndim == 0) as usize }; Some((0..k).map(|_| if rng.chance(1, 2) { Some(rng.below(1000)) } else { None }).collect()) } else { None };
            check_case(ctx, &Cfg::Var { ndim, perm, names, uniform }, "rand_var");
        }
    }
}
