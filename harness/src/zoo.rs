//! A zoo of real `#[derive(Serialize, Deserialize)]` types (structs, tuple / newtype / unit structs,
//! enums with unit / newtype / tuple / struct variants, Option, Vec, arrays, tuples, maps, strings,
//! bytes, chars, all integer and float widths, serde attributes that keep the type self-describing)
//! with, per type: its description in the Coq `Ty` grammar, a value generator and a covering sample
//! set (every variant, Some, non-empty collections). Used by C04 and C08.
use crate::arrgen::{Val, IK};
use crate::rng::Rng;
use serde::{Deserialize, Serialize};
use std::collections::BTreeMap;

// ------------------------------------------------------------------------------------------
// recording serializer: the serde calls a value makes, as a `Val` tree

pub fn to_val<T: Serialize + ?Sized>(v: &T) -> Val { v.serialize(Rec).unwrap_or(Val::None) }

#[derive(Debug)]
pub struct RecErr;
impl std::fmt::Display for RecErr { fn fmt(&self, f: &mut std::fmt::Formatter) -> std::fmt::Result { write!(f, "recording failed") } }
impl std::error::Error for RecErr {}
impl serde::ser::Error for RecErr { fn custom<T: std::fmt::Display>(_: T) -> Self { RecErr } }

struct Rec;
struct SeqRec(Vec<Val>, u8, u32, String);
struct MapRec(Vec<(Val, Val)>, Option<Val>);
struct StructRec(Vec<(String, Val)>, Option<(u32, String)>);

impl serde::Serializer for Rec {
    type Ok = Val; type Error = RecErr;
    type SerializeSeq = SeqRec; type SerializeTuple = SeqRec; type SerializeTupleStruct = SeqRec; type SerializeTupleVariant = SeqRec;
    type SerializeMap = MapRec; type SerializeStruct = StructRec; type SerializeStructVariant = StructRec;
    fn serialize_bool(self, v: bool) -> Result<Val, RecErr> { Ok(Val::Bool(v)) }
    fn serialize_i8(self, v: i8) -> Result<Val, RecErr> { Ok(Val::Int(IK::I8, v as i128)) }
    fn serialize_i16(self, v: i16) -> Result<Val, RecErr> { Ok(Val::Int(IK::I16, v as i128)) }
    fn serialize_i32(self, v: i32) -> Result<Val, RecErr> { Ok(Val::Int(IK::I32, v as i128)) }
    fn serialize_i64(self, v: i64) -> Result<Val, RecErr> { Ok(Val::Int(IK::I64, v as i128)) }
    fn serialize_u8(self, v: u8) -> Result<Val, RecErr> { Ok(Val::Int(IK::U8, v as i128)) }
    fn serialize_u16(self, v: u16) -> Result<Val, RecErr> { Ok(Val::Int(IK::U16, v as i128)) }
    fn serialize_u32(self, v: u32) -> Result<Val, RecErr> { Ok(Val::Int(IK::U32, v as i128)) }
    fn serialize_u64(self, v: u64) -> Result<Val, RecErr> { Ok(Val::Int(IK::U64, v as i128)) }
    fn serialize_f32(self, v: f32) -> Result<Val, RecErr> { Ok(Val::F32(v.to_bits())) }
    fn serialize_f64(self, v: f64) -> Result<Val, RecErr> { Ok(Val::F64(v.to_bits())) }
    fn serialize_char(self, v: char) -> Result<Val, RecErr> { Ok(Val::Char(v)) }
    fn serialize_str(self, v: &str) -> Result<Val, RecErr> { Ok(Val::Str(v.to_string())) }
    fn serialize_bytes(self, v: &[u8]) -> Result<Val, RecErr> { Ok(Val::Bytes(v.to_vec())) }
    fn serialize_none(self) -> Result<Val, RecErr> { Ok(Val::None) }
    fn serialize_some<T: Serialize + ?Sized>(self, v: &T) -> Result<Val, RecErr> { Ok(Val::Some(Box::new(v.serialize(Rec)?))) }
    fn serialize_unit(self) -> Result<Val, RecErr> { Ok(Val::Unit) }
    fn serialize_unit_struct(self, _: &'static str) -> Result<Val, RecErr> { Ok(Val::UnitStruct) }
    fn serialize_unit_variant(self, _: &'static str, i: u32, n: &'static str) -> Result<Val, RecErr> { Ok(Val::UnitVariant(i, n.to_string())) }
    fn serialize_newtype_struct<T: Serialize + ?Sized>(self, _: &'static str, v: &T) -> Result<Val, RecErr> { Ok(Val::Newtype(Box::new(v.serialize(Rec)?))) }
    fn serialize_newtype_variant<T: Serialize + ?Sized>(self, _: &'static str, i: u32, n: &'static str, v: &T) -> Result<Val, RecErr> { Ok(Val::NewtypeVariant(i, n.to_string(), Box::new(v.serialize(Rec)?))) }
    fn serialize_seq(self, _: Option<usize>) -> Result<SeqRec, RecErr> { Ok(SeqRec(vec![], 0, 0, String::new())) }
    fn serialize_tuple(self, _: usize) -> Result<SeqRec, RecErr> { Ok(SeqRec(vec![], 1, 0, String::new())) }
    fn serialize_tuple_struct(self, _: &'static str, _: usize) -> Result<SeqRec, RecErr> { Ok(SeqRec(vec![], 2, 0, String::new())) }
    fn serialize_tuple_variant(self, _: &'static str, i: u32, n: &'static str, _: usize) -> Result<SeqRec, RecErr> { Ok(SeqRec(vec![], 3, i, n.to_string())) }
    fn serialize_map(self, _: Option<usize>) -> Result<MapRec, RecErr> { Ok(MapRec(vec![], None)) }
    fn serialize_struct(self, _: &'static str, _: usize) -> Result<StructRec, RecErr> { Ok(StructRec(vec![], None)) }
    fn serialize_struct_variant(self, _: &'static str, i: u32, n: &'static str, _: usize) -> Result<StructRec, RecErr> { Ok(StructRec(vec![], Some((i, n.to_string())))) }
}
impl SeqRec { fn fin(self) -> Val { match self.1 { 0 => Val::Seq(self.0), 1 => Val::Tuple(self.0), 2 => Val::TupleStruct(self.0), _ => Val::TupleVariant(self.2, self.3, self.0) } } }
impl serde::ser::SerializeSeq for SeqRec { type Ok = Val; type Error = RecErr; fn serialize_element<T: Serialize + ?Sized>(&mut self, v: &T) -> Result<(), RecErr> { self.0.push(v.serialize(Rec)?); Ok(()) } fn end(self) -> Result<Val, RecErr> { Ok(self.fin()) } }
impl serde::ser::SerializeTuple for SeqRec { type Ok = Val; type Error = RecErr; fn serialize_element<T: Serialize + ?Sized>(&mut self, v: &T) -> Result<(), RecErr> { self.0.push(v.serialize(Rec)?); Ok(()) } fn end(self) -> Result<Val, RecErr> { Ok(self.fin()) } }
impl serde::ser::SerializeTupleStruct for SeqRec { type Ok = Val; type Error = RecErr; fn serialize_field<T: Serialize + ?Sized>(&mut self, v: &T) -> Result<(), RecErr> { self.0.push(v.serialize(Rec)?); Ok(()) } fn end(self) -> Result<Val, RecErr> { Ok(self.fin()) } }
impl serde::ser::SerializeTupleVariant for SeqRec { type Ok = Val; type Error = RecErr; fn serialize_field<T: Serialize + ?Sized>(&mut self, v: &T) -> Result<(), RecErr> { self.0.push(v.serialize(Rec)?); Ok(()) } fn end(self) -> Result<Val, RecErr> { Ok(self.fin()) } }
impl serde::ser::SerializeMap for MapRec { type Ok = Val; type Error = RecErr;
    fn serialize_key<T: Serialize + ?Sized>(&mut self, k: &T) -> Result<(), RecErr> { self.1 = Some(k.serialize(Rec)?); Ok(()) }
    fn serialize_value<T: Serialize + ?Sized>(&mut self, v: &T) -> Result<(), RecErr> { let k = self.1.take().ok_or(RecErr)?; self.0.push((k, v.serialize(Rec)?)); Ok(()) }
    fn end(self) -> Result<Val, RecErr> { Ok(Val::Map(self.0)) } }
impl serde::ser::SerializeStruct for StructRec { type Ok = Val; type Error = RecErr;
    fn serialize_field<T: Serialize + ?Sized>(&mut self, k: &'static str, v: &T) -> Result<(), RecErr> { self.0.push((k.to_string(), v.serialize(Rec)?)); Ok(()) }
    fn end(self) -> Result<Val, RecErr> { Ok(Val::Struct(self.0, 0)) } }
impl serde::ser::SerializeStructVariant for StructRec { type Ok = Val; type Error = RecErr;
    fn serialize_field<T: Serialize + ?Sized>(&mut self, k: &'static str, v: &T) -> Result<(), RecErr> { self.0.push((k.to_string(), v.serialize(Rec)?)); Ok(()) }
    fn end(self) -> Result<Val, RecErr> { let (i, n) = self.1.unwrap_or((0, String::new())); Ok(Val::StructVariant(i, n, self.0)) } }

// ------------------------------------------------------------------------------------------
// the types

pub trait Zoo: Serialize + for<'de> Deserialize<'de> + PartialEq + std::fmt::Debug + Clone {
    const NAME: &'static str;
    /// the type in the Coq `Ty` grammar
    fn ty() -> String;
    fn gen(rng: &mut Rng) -> Self;
    /// samples that exercise every variant, Some and non-empty collections
    fn covering(rng: &mut Rng) -> Vec<Self>;
    /// needs allow_null_fields or enums_without_data_as_strings to be traced at all
    const NEEDS_NULL: bool = false;
    const HAS_MAP: bool = false;
}

fn s(rng: &mut Rng) -> String { (*rng.pick(&["", "a", "héllo", "日本", "x y", "0123456789abcdef"])).to_string() }
fn int<T: TryFrom<i128>>(rng: &mut Rng, lo: i128, hi: i128) -> T where T::Error: std::fmt::Debug { let z = match rng.below(5) { 0 => lo, 1 => hi, 2 => 0i128.clamp(lo, hi), _ => lo + (rng.next_u64() as i128).rem_euclid(hi - lo + 1) }; T::try_from(z).unwrap() }

#[derive(Serialize, Deserialize, PartialEq, Debug, Clone)]
pub struct Prims { pub b: bool, pub i8_: i8, pub i16_: i16, pub i32_: i32, pub i64_: i64, pub u8_: u8, pub u16_: u16, pub u32_: u32, pub u64_: u64, pub f32_: f32, pub f64_: f64, pub c: char, pub s: String }
impl Zoo for Prims {
    const NAME: &'static str = "Prims";
    fn ty() -> String { "TyStruct [(b \"b\", TyBool); (b \"i8_\", TyInt I8); (b \"i16_\", TyInt I16); (b \"i32_\", TyInt I32); (b \"i64_\", TyInt I64); (b \"u8_\", TyInt U8); (b \"u16_\", TyInt U16); (b \"u32_\", TyInt U32); (b \"u64_\", TyInt U64); (b \"f32_\", TyF32); (b \"f64_\", TyF64); (b \"c\", TyChar); (b \"s\", TyString)]".into() }
    fn gen(rng: &mut Rng) -> Self { Prims { b: rng.chance(1, 2), i8_: int(rng, -128, 127), i16_: int(rng, -32768, 32767), i32_: int(rng, i32::MIN as i128, i32::MAX as i128), i64_: int(rng, i64::MIN as i128, i64::MAX as i128), u8_: int(rng, 0, 255), u16_: int(rng, 0, 65535), u32_: int(rng, 0, u32::MAX as i128), u64_: int(rng, 0, u64::MAX as i128), f32_: *rng.pick(&[0.0f32, -1.5, 3.25e10, f32::MIN_POSITIVE]), f64_: *rng.pick(&[0.0f64, 2.5, -1e300, 1e-300]), c: *rng.pick(&['a', 'é', '日', '𝄞', '\0']), s: s(rng) } }
    fn covering(rng: &mut Rng) -> Vec<Self> { vec![Self::gen(rng), Self::gen(rng)] }
}

#[derive(Serialize, Deserialize, PartialEq, Debug, Clone)]
pub struct Inner { pub x: i64, pub y: Option<bool> }
#[derive(Serialize, Deserialize, PartialEq, Debug, Clone)]
pub struct Nested { pub inner: Inner, pub list: Vec<Inner>, pub t: (u8, String), pub arr: [i16; 3], pub o: Option<Vec<i16>>, pub oo: Option<Inner> }
fn inner(rng: &mut Rng, full: bool) -> Inner { Inner { x: int(rng, i64::MIN as i128, i64::MAX as i128), y: if full || rng.chance(1, 2) { Some(rng.chance(1, 2)) } else { None } } }
impl Zoo for Nested {
    const NAME: &'static str = "Nested";
    fn ty() -> String { let i = "TyStruct [(b \"x\", TyInt I64); (b \"y\", TyOption TyBool)]"; format!("TyStruct [(b \"inner\", {i}); (b \"list\", TySeq ({i})); (b \"t\", TyTuple [TyInt U8; TyString]); (b \"arr\", TyTuple [TyInt I16; TyInt I16; TyInt I16]); (b \"o\", TyOption (TySeq (TyInt I16))); (b \"oo\", TyOption ({i}))]") }
    fn gen(rng: &mut Rng) -> Self { Nested { inner: inner(rng, false), list: (0..rng.below(4)).map(|_| inner(rng, false)).collect(), t: (int(rng, 0, 255), s(rng)), arr: [int(rng, -5, 5), 0, int(rng, -32768, 32767)], o: if rng.chance(1, 2) { Some((0..rng.below(3)).map(|_| int(rng, -9, 9)).collect()) } else { None }, oo: if rng.chance(1, 2) { Some(inner(rng, false)) } else { None } } }
    fn covering(rng: &mut Rng) -> Vec<Self> { vec![Nested { inner: inner(rng, true), list: vec![inner(rng, true)], t: (1, "t".into()), arr: [1, 2, 3], o: Some(vec![1]), oo: Some(inner(rng, true)) }, Self::gen(rng)] }
}

#[derive(Serialize, Deserialize, PartialEq, Debug, Clone)] pub struct NT(pub u32);
#[derive(Serialize, Deserialize, PartialEq, Debug, Clone)] pub struct U;
#[derive(Serialize, Deserialize, PartialEq, Debug, Clone)] pub struct TS(pub i8, pub String);
#[derive(Serialize, Deserialize, PartialEq, Debug, Clone)] pub struct Wrappers { pub n: NT, pub u: U, pub ts: TS, pub unit: (), pub on: Option<NT> }
impl Zoo for Wrappers {
    const NAME: &'static str = "Wrappers"; const NEEDS_NULL: bool = true;
    fn ty() -> String { "TyStruct [(b \"n\", TyNewtype (TyInt U32)); (b \"u\", TyUnit); (b \"ts\", TyTuple [TyInt I8; TyString]); (b \"unit\", TyUnit); (b \"on\", TyOption (TyNewtype (TyInt U32)))]".into() }
    fn gen(rng: &mut Rng) -> Self { Wrappers { n: NT(int(rng, 0, u32::MAX as i128)), u: U, ts: TS(int(rng, -128, 127), s(rng)), unit: (), on: if rng.chance(1, 2) { Some(NT(7)) } else { None } } }
    fn covering(rng: &mut Rng) -> Vec<Self> { let mut a = Self::gen(rng); a.on = Some(NT(1)); vec![a, Self::gen(rng)] }
}

#[derive(Serialize, Deserialize, PartialEq, Debug, Clone)] pub enum E { A, B(i32), C(u8, String), D { x: bool, y: Option<f32> } }
#[derive(Serialize, Deserialize, PartialEq, Debug, Clone)] pub struct Enums { pub e: E, pub es: Vec<E> }
fn e(rng: &mut Rng, k: usize) -> E { match k % 4 { 0 => E::A, 1 => E::B(int(rng, i32::MIN as i128, i32::MAX as i128)), 2 => E::C(int(rng, 0, 255), s(rng)), _ => E::D { x: rng.chance(1, 2), y: if rng.chance(1, 2) { Some(1.5) } else { None } } } }
impl Zoo for Enums {
    const NAME: &'static str = "Enums"; const NEEDS_NULL: bool = true;
    fn ty() -> String { let e = "TyEnum [(b \"A\", PUnit); (b \"B\", PNewtype (TyInt I32)); (b \"C\", PTuple [TyInt U8; TyString]); (b \"D\", PStruct [(b \"x\", TyBool); (b \"y\", TyOption TyF32)])]"; format!("TyStruct [(b \"e\", {e}); (b \"es\", TySeq ({e}))]") }
    fn gen(rng: &mut Rng) -> Self { let k = rng.below(4); Enums { e: e(rng, k), es: (0..rng.below(4)).map(|_| { let k = rng.below(4); e(rng, k) }).collect() } }
    fn covering(rng: &mut Rng) -> Vec<Self> { (0..4).map(|k| Enums { e: if k == 3 { E::D { x: false, y: Some(2.5) } } else { e(rng, k) }, es: vec![E::A, E::B(1), E::C(2, "c".into()), E::D { x: true, y: Some(0.5) }] }).collect() }
}

#[derive(Serialize, Deserialize, PartialEq, Debug, Clone)] pub enum Unit3 { X, Y, Z }
#[derive(Serialize, Deserialize, PartialEq, Debug, Clone)] pub struct UnitEnums { pub k: Unit3, pub ks: Vec<Unit3> }
fn u3(k: usize) -> Unit3 { match k % 3 { 0 => Unit3::X, 1 => Unit3::Y, _ => Unit3::Z } }
impl Zoo for UnitEnums {
    const NAME: &'static str = "UnitEnums"; const NEEDS_NULL: bool = true;
    fn ty() -> String { let e = "TyEnum [(b \"X\", PUnit); (b \"Y\", PUnit); (b \"Z\", PUnit)]"; format!("TyStruct [(b \"k\", {e}); (b \"ks\", TySeq ({e}))]") }
    fn gen(rng: &mut Rng) -> Self { UnitEnums { k: u3(rng.below(3)), ks: (0..rng.below(4)).map(|_| u3(rng.below(3))).collect() } }
    fn covering(_: &mut Rng) -> Vec<Self> { (0..3).map(|k| UnitEnums { k: u3(k), ks: vec![Unit3::X, Unit3::Y, Unit3::Z] }).collect() }
}

#[derive(Serialize, Deserialize, PartialEq, Debug, Clone)] pub struct Maps { pub m: BTreeMap<String, i32>, pub mv: BTreeMap<String, Vec<u8>>, pub om: Option<BTreeMap<String, bool>> }
impl Zoo for Maps {
    const NAME: &'static str = "Maps"; const HAS_MAP: bool = true;
    fn ty() -> String { "TyStruct [(b \"m\", TyMap TyString (TyInt I32)); (b \"mv\", TyMap TyString (TySeq (TyInt U8))); (b \"om\", TyOption (TyMap TyString TyBool))]".into() }
    fn gen(rng: &mut Rng) -> Self { let keys = ["k1", "k2", "", "é"]; Maps { m: (0..rng.below(4)).map(|i| (keys[i].to_string(), i as i32 - 1)).collect(), mv: (0..rng.below(3)).map(|i| (keys[i].to_string(), vec![i as u8; i])).collect(), om: if rng.chance(1, 2) { Some((0..rng.below(3)).map(|i| (keys[i].to_string(), i % 2 == 0)).collect()) } else { None } } }
    fn covering(_: &mut Rng) -> Vec<Self> { vec![Maps { m: [("k".to_string(), 1)].into_iter().collect(), mv: [("k".to_string(), vec![1u8])].into_iter().collect(), om: Some([("k".to_string(), true)].into_iter().collect()) }] }
}

#[derive(Serialize, Deserialize, PartialEq, Debug, Clone)]
#[serde(rename_all = "camelCase")]
pub struct Attrs { pub first_name: String, #[serde(rename = "ID")] pub id: u64, #[serde(default)] pub with_default: i32, #[serde(skip_serializing_if = "Option::is_none", default)] pub maybe_text: Option<String>, pub wrapped: Transparent }
#[derive(Serialize, Deserialize, PartialEq, Debug, Clone)]
#[serde(transparent)]
pub struct Transparent { pub value: Inner }
impl Zoo for Attrs {
    const NAME: &'static str = "Attrs";
    fn ty() -> String { "TyStruct [(b \"firstName\", TyString); (b \"ID\", TyInt U64); (b \"withDefault\", TyInt I32); (b \"maybeText\", TyOption TyString); (b \"wrapped\", TyStruct [(b \"x\", TyInt I64); (b \"y\", TyOption TyBool)])]".into() }
    fn gen(rng: &mut Rng) -> Self { Attrs { first_name: s(rng), id: int(rng, 0, u64::MAX as i128), with_default: int(rng, -5, 5), maybe_text: if rng.chance(1, 2) { Some(s(rng)) } else { None }, wrapped: Transparent { value: inner(rng, false) } } }
    fn covering(rng: &mut Rng) -> Vec<Self> { let mut a = Self::gen(rng); a.maybe_text = Some("t".into()); a.wrapped.value.y = Some(true); vec![a, Self::gen(rng)] }
}

#[derive(Serialize, Deserialize, PartialEq, Debug, Clone)]
pub struct Deep { pub v: Vec<Vec<Option<(i8, Vec<String>)>>>, pub b: serde_bytes::ByteBuf, pub ob: Option<serde_bytes::ByteBuf> }
impl Zoo for Deep {
    const NAME: &'static str = "Deep";
    fn ty() -> String { "TyStruct [(b \"v\", TySeq (TySeq (TyOption (TyTuple [TyInt I8; TySeq TyString])))); (b \"b\", TyBytes); (b \"ob\", TyOption TyBytes)]".into() }
    fn gen(rng: &mut Rng) -> Self { Deep { v: (0..rng.below(3)).map(|_| (0..rng.below(3)).map(|_| if rng.chance(1, 3) { None } else { Some((int(rng, -128, 127), (0..rng.below(3)).map(|_| s(rng)).collect())) }).collect()).collect(), b: serde_bytes::ByteBuf::from((0..rng.below(5)).map(|i| i as u8 * 50).collect::<Vec<u8>>()), ob: if rng.chance(1, 2) { Some(serde_bytes::ByteBuf::from(vec![255u8, 0])) } else { None } } }
    fn covering(_: &mut Rng) -> Vec<Self> { vec![Deep { v: vec![vec![Some((1, vec!["s".into()]))]], b: serde_bytes::ByteBuf::from(vec![1u8]), ob: Some(serde_bytes::ByteBuf::from(vec![2u8])) }] }
}

#[derive(Serialize, Deserialize, PartialEq, Debug, Clone)] pub enum Single { Only }
#[derive(Serialize, Deserialize, PartialEq, Debug, Clone)] pub enum Outer { V(Option<Single>), W { inner: Option<Unit3> } }
#[derive(Serialize, Deserialize, PartialEq, Debug, Clone)] pub struct OptEnums { pub a: Option<Single>, pub b: Option<Unit3>, pub c: Outer, pub l: Vec<Option<Single>> }
impl Zoo for OptEnums {
    const NAME: &'static str = "OptEnums"; const NEEDS_NULL: bool = true;
    fn ty() -> String { let s1 = "TyEnum [(b \"Only\", PUnit)]"; let u3 = "TyEnum [(b \"X\", PUnit); (b \"Y\", PUnit); (b \"Z\", PUnit)]"; format!("TyStruct [(b \"a\", TyOption ({s1})); (b \"b\", TyOption ({u3})); (b \"c\", TyEnum [(b \"V\", PNewtype (TyOption ({s1}))); (b \"W\", PStruct [(b \"inner\", TyOption ({u3}))])]); (b \"l\", TySeq (TyOption ({s1})))]") }
    fn gen(rng: &mut Rng) -> Self { OptEnums { a: if rng.chance(1, 2) { Some(Single::Only) } else { None }, b: if rng.chance(1, 2) { Some(u3(rng.below(3))) } else { None }, c: if rng.chance(1, 2) { Outer::V(if rng.chance(1, 2) { Some(Single::Only) } else { None }) } else { Outer::W { inner: if rng.chance(1, 2) { Some(Unit3::Y) } else { None } } }, l: (0..rng.below(4)).map(|_| if rng.chance(1, 2) { Some(Single::Only) } else { None }).collect() } }
    fn covering(_: &mut Rng) -> Vec<Self> { vec![OptEnums { a: Some(Single::Only), b: Some(Unit3::X), c: Outer::V(Some(Single::Only)), l: vec![Some(Single::Only)] }, OptEnums { a: Some(Single::Only), b: Some(Unit3::Y), c: Outer::W { inner: Some(Unit3::Z) }, l: vec![Some(Single::Only)] }, OptEnums { a: Some(Single::Only), b: Some(Unit3::Z), c: Outer::W { inner: Some(Unit3::X) }, l: vec![] }, OptEnums { a: None, b: None, c: Outer::W { inner: Some(Unit3::Y) }, l: vec![None] }] }
}

// (no other member needs more than one pass of from_type, so the key tracers alone decide completion)
// maps whose keys are not strings: enum keys with data in later variants, integer keys, tuple values
#[derive(Serialize, Deserialize, PartialEq, Eq, PartialOrd, Ord, Debug, Clone)] pub enum Key { Unit, Name(String), Id { n: u32 } }
#[derive(Serialize, Deserialize, PartialEq, Debug, Clone)] pub struct KeyMaps { pub by: BTreeMap<Key, i32>, pub ids: BTreeMap<u16, Option<bool>>, pub nested: Vec<BTreeMap<Key, (i8, bool)>> }
fn key(rng: &mut Rng, k: usize) -> Key { match k % 3 { 0 => Key::Unit, 1 => Key::Name(s(rng)), _ => Key::Id { n: int(rng, 0, u32::MAX as i128) } } }
impl Zoo for KeyMaps {
    const NAME: &'static str = "KeyMaps"; const NEEDS_NULL: bool = true; const HAS_MAP: bool = true;
    fn ty() -> String { let k = "TyEnum [(b \"Unit\", PUnit); (b \"Name\", PNewtype TyString); (b \"Id\", PStruct [(b \"n\", TyInt U32)])]"; format!("TyStruct [(b \"by\", TyMap ({k}) (TyInt I32)); (b \"ids\", TyMap (TyInt U16) (TyOption TyBool)); (b \"nested\", TySeq (TyMap ({k}) (TyTuple [TyInt I8; TyBool])))]") }
    fn gen(rng: &mut Rng) -> Self { KeyMaps { by: (0..rng.below(4)).map(|i| (key(rng, i), i as i32)).collect(), ids: (0..rng.below(3)).map(|i| (i as u16 * 7, if rng.chance(1, 3) { None } else { Some(i % 2 == 0) })).collect(), nested: (0..rng.below(3)).map(|_| (0..rng.below(3)).map(|i| (key(rng, i + 2), (int(rng, -128, 127), rng.chance(1, 2)))).collect()).collect() } }
    fn covering(rng: &mut Rng) -> Vec<Self> { vec![KeyMaps { by: (0..3).map(|i| (key(rng, i), 1)).collect(), ids: (0..3).map(|i| (i as u16, Some(i == 1))).collect(), nested: vec![(0..3).map(|i| (key(rng, i), (1, true))).collect()] }] }
}
