//! Views: printing marrow views as Coq terms, and slicing them the way the Arrow libraries do
//! (values / offsets windows, validity bit offsets; children of lists, maps and dense unions are
//! left untouched, so slices are also the source of non-canonical but valid layouts).
use crate::arrgen::{meta_coq, unit_coq};
use crate::coqfmt as cf;
use marrow::view::*;

fn bm(b: &BitsWithOffset) -> String { crate::arrgen::bitmap_coq(b.offset, b.data) }
fn val(v: &Option<BitsWithOffset>) -> String { cf::option(v, bm) }
fn zl<T: Copy + Into<i128>>(v: &[T]) -> String { let mut s = String::from("["); for (i, x) in v.iter().enumerate() { if i > 0 { s.push(';'); } let z: i128 = (*x).into(); if z < 0 { s.push_str(&format!("({})", z)); } else { s.push_str(&z.to_string()); } } s.push_str("]%Z"); s }
fn nl(v: &[u8]) -> String { let mut s = String::from("["); for (i, x) in v.iter().enumerate() { if i > 0 { s.push(';'); } s.push_str(&x.to_string()); } s.push_str("]%N"); s }

pub fn view_coq(v: &View) -> String {
    use View as V;
    let prim = |k: String, vv: &Option<BitsWithOffset>, vals: String| format!("(APrim {} {} {})", k, val(vv), vals);
    match v {
        V::Null(x) => format!("(ANull {})", x.len),
        V::Boolean(x) => format!("(ABool {} {} {})", x.len, val(&x.validity), bm(&x.values)),
        V::Int8(x) => prim("(PInt I8)".into(), &x.validity, zl(x.values)), V::Int16(x) => prim("(PInt I16)".into(), &x.validity, zl(x.values)),
        V::Int32(x) => prim("(PInt I32)".into(), &x.validity, zl(x.values)), V::Int64(x) => prim("(PInt I64)".into(), &x.validity, zl(x.values)),
        V::UInt8(x) => prim("(PInt U8)".into(), &x.validity, zl(x.values)), V::UInt16(x) => prim("(PInt U16)".into(), &x.validity, zl(x.values)),
        V::UInt32(x) => prim("(PInt U32)".into(), &x.validity, zl(x.values)), V::UInt64(x) => prim("(PInt U64)".into(), &x.validity, zl(x.values)),
        V::Float32(x) => prim("PF32".into(), &x.validity, zl(&x.values.iter().map(|f| f.to_bits()).collect::<Vec<u32>>())),
        V::Float64(x) => prim("PF64".into(), &x.validity, zl(&x.values.iter().map(|f| f.to_bits()).collect::<Vec<u64>>())),
        V::Float16(x) => prim("PF16".into(), &x.validity, zl(&x.values.iter().map(|f| f.to_bits()).collect::<Vec<u16>>())),
        V::Date32(x) => prim("PDate32".into(), &x.validity, zl(x.values)), V::Date64(x) => prim("PDate64".into(), &x.validity, zl(x.values)),
        V::Time32(x) => prim(format!("(PTime32 {})", unit_coq(x.unit)), &x.validity, zl(x.values)),
        V::Time64(x) => prim(format!("(PTime64 {})", unit_coq(x.unit)), &x.validity, zl(x.values)),
        V::Duration(x) => prim(format!("(PDuration {})", unit_coq(x.unit)), &x.validity, zl(x.values)),
        V::Timestamp(x) => prim(format!("(PTimestamp {} {})", unit_coq(x.unit), cf::option(&x.timezone, |t| cf::text(t))), &x.validity, zl(x.values)),
        V::Decimal128(x) => prim(format!("(PDecimal {} {})", cf::n(x.precision), cf::z(x.scale)), &x.validity, zl(x.values)),
        V::Utf8(x) => format!("(ABytes BUtf8 {} {} {})", val(&x.validity), zl(x.offsets), nl(x.data)),
        V::LargeUtf8(x) => format!("(ABytes BLargeUtf8 {} {} {})", val(&x.validity), zl(x.offsets), nl(x.data)),
        V::Binary(x) => format!("(ABytes BBinary {} {} {})", val(&x.validity), zl(x.offsets), nl(x.data)),
        V::LargeBinary(x) => format!("(ABytes BLargeBinary {} {} {})", val(&x.validity), zl(x.offsets), nl(x.data)),
        V::Utf8View(x) => format!("(AView KUtf8View {} {} {})", val(&x.validity), cf::list(x.data, |d| cf::n(d)), cf::list(&x.buffers, |b| nl(b))),
        V::BinaryView(x) => format!("(AView KBinaryView {} {} {})", val(&x.validity), cf::list(x.data, |d| cf::n(d)), cf::list(&x.buffers, |b| nl(b))),
        V::FixedSizeBinary(x) => format!("(AFixedBin {} {} {})", cf::z(x.n), val(&x.validity), nl(x.data)),
        V::List(x) => format!("(AList KList {} {} {} {})", val(&x.validity), zl(x.offsets), meta_coq(&x.meta), view_coq(&x.elements)),
        V::LargeList(x) => format!("(AList KLargeList {} {} {} {})", val(&x.validity), zl(x.offsets), meta_coq(&x.meta), view_coq(&x.elements)),
        V::FixedSizeList(x) => format!("(AFixedList {} {} {} {} {})", x.len, cf::z(x.n), val(&x.validity), meta_coq(&x.meta), view_coq(&x.elements)),
        V::Struct(x) => format!("(AStruct {} {} {})", x.len, val(&x.validity), cf::list(&x.fields, |(m, c)| format!("({}, {})", meta_coq(m), view_coq(c)))),
        V::Map(x) => format!("(AMap {} {} {} {} {} {} {})", val(&x.validity), zl(x.offsets), cf::text(&x.meta.entries_name), meta_coq(&x.meta.keys), meta_coq(&x.meta.values), view_coq(&x.keys), view_coq(&x.values)),
        V::Dictionary(x) => format!("(ADict {} {})", view_coq(&x.keys), view_coq(&x.values)),
        V::Union(x) => format!("(AUnion {} {} {})", zl(x.types), zl(x.offsets.unwrap_or(&[])), cf::list(&x.fields, |(t, m, c)| format!("({}, {}, {})", cf::z(t), meta_coq(m), view_coq(c)))),
        _ => "(ANull 0)".into(),
    }
}

fn sv<'a>(v: &Option<BitsWithOffset<'a>>, o: usize) -> Option<BitsWithOffset<'a>> { v.map(|b| BitsWithOffset { offset: b.offset + o, data: b.data }) }

/// window [o, o+l) of a view, with the layout an Arrow slice has
pub fn slice_view<'a>(v: &View<'a>, o: usize, l: usize) -> View<'a> {
    use View as V;
    macro_rules! prim { ($var:ident, $x:expr) => { V::$var(PrimitiveView { validity: sv(&$x.validity, o), values: &$x.values[o..o + l] }) }; }
    macro_rules! time { ($var:ident, $x:expr) => { V::$var(TimeView { unit: $x.unit, validity: sv(&$x.validity, o), values: &$x.values[o..o + l] }) }; }
    macro_rules! bytes { ($var:ident, $x:expr) => { V::$var(BytesView { validity: sv(&$x.validity, o), offsets: &$x.offsets[o..o + l + 1], data: $x.data }) }; }
    match v {
        V::Null(_) => V::Null(NullView { len: l }),
        V::Boolean(x) => V::Boolean(BooleanView { len: l, validity: sv(&x.validity, o), values: BitsWithOffset { offset: x.values.offset + o, data: x.values.data } }),
        V::Int8(x) => prim!(Int8, x), V::Int16(x) => prim!(Int16, x), V::Int32(x) => prim!(Int32, x), V::Int64(x) => prim!(Int64, x),
        V::UInt8(x) => prim!(UInt8, x), V::UInt16(x) => prim!(UInt16, x), V::UInt32(x) => prim!(UInt32, x), V::UInt64(x) => prim!(UInt64, x),
        V::Float16(x) => prim!(Float16, x), V::Float32(x) => prim!(Float32, x), V::Float64(x) => prim!(Float64, x), V::Date32(x) => prim!(Date32, x), V::Date64(x) => prim!(Date64, x),
        V::Time32(x) => time!(Time32, x), V::Time64(x) => time!(Time64, x), V::Duration(x) => time!(Duration, x),
        V::Timestamp(x) => V::Timestamp(TimestampView { unit: x.unit, timezone: x.timezone.clone(), validity: sv(&x.validity, o), values: &x.values[o..o + l] }),
        V::Decimal128(x) => V::Decimal128(DecimalView { precision: x.precision, scale: x.scale, validity: sv(&x.validity, o), values: &x.values[o..o + l] }),
        V::Utf8(x) => bytes!(Utf8, x), V::LargeUtf8(x) => bytes!(LargeUtf8, x), V::Binary(x) => bytes!(Binary, x), V::LargeBinary(x) => bytes!(LargeBinary, x),
        V::Utf8View(x) => V::Utf8View(BytesViewView { validity: sv(&x.validity, o), data: &x.data[o..o + l], buffers: x.buffers.clone() }),
        V::BinaryView(x) => V::BinaryView(BytesViewView { validity: sv(&x.validity, o), data: &x.data[o..o + l], buffers: x.buffers.clone() }),
        V::FixedSizeBinary(x) => { let n = x.n.max(0) as usize; V::FixedSizeBinary(FixedSizeBinaryView { n: x.n, validity: sv(&x.validity, o), data: &x.data[o * n..(o + l) * n] }) }
        V::List(x) => V::List(ListView { validity: sv(&x.validity, o), offsets: &x.offsets[o..o + l + 1], meta: x.meta.clone(), elements: x.elements.clone() }),
        V::LargeList(x) => V::LargeList(ListView { validity: sv(&x.validity, o), offsets: &x.offsets[o..o + l + 1], meta: x.meta.clone(), elements: x.elements.clone() }),
        V::FixedSizeList(x) => { let n = x.n.max(0) as usize; V::FixedSizeList(FixedSizeListView { len: l, n: x.n, validity: sv(&x.validity, o), meta: x.meta.clone(), elements: Box::new(slice_view(&x.elements, o * n, l * n)) }) }
        V::Struct(x) => V::Struct(StructView { len: l, validity: sv(&x.validity, o), fields: x.fields.iter().map(|(m, c)| (m.clone(), slice_view(c, o, l))).collect() }),
        V::Map(x) => V::Map(MapView { validity: sv(&x.validity, o), offsets: &x.offsets[o..o + l + 1], meta: x.meta.clone(), keys: x.keys.clone(), values: x.values.clone() }),
        V::Dictionary(x) => V::Dictionary(DictionaryView { keys: Box::new(slice_view(&x.keys, o, l)), values: x.values.clone() }),
        V::Union(x) => V::Union(UnionView { types: &x.types[o..o + l], offsets: x.offsets.map(|f| &f[o..o + l]), fields: x.fields.clone() }),
        other => other.clone(),
    }
}

/// the top-level bitmaps of a view (validity; for Boolean also the values) cut to their first `keep` bytes:
/// what a window with a bit offset looks like when the buffer behind it is too short
pub fn truncate_bits<'a>(v: &View<'a>, keep: usize) -> View<'a> {
    use View as V;
    let cut = |b: &Option<BitsWithOffset<'a>>| b.map(|b| BitsWithOffset { offset: b.offset, data: &b.data[..keep.min(b.data.len())] });
    match v {
        V::Boolean(x) => V::Boolean(BooleanView { len: x.len, validity: cut(&x.validity), values: BitsWithOffset { offset: x.values.offset, data: &x.values.data[..keep.min(x.values.data.len())] } }),
        V::Int32(x) => V::Int32(PrimitiveView { validity: cut(&x.validity), values: x.values }),
        V::Int64(x) => V::Int64(PrimitiveView { validity: cut(&x.validity), values: x.values }),
        V::Float64(x) => V::Float64(PrimitiveView { validity: cut(&x.validity), values: x.values }),
        V::Utf8(x) => V::Utf8(BytesView { validity: cut(&x.validity), offsets: x.offsets, data: x.data }),
        V::LargeUtf8(x) => V::LargeUtf8(BytesView { validity: cut(&x.validity), offsets: x.offsets, data: x.data }),
        V::List(x) => V::List(ListView { validity: cut(&x.validity), offsets: x.offsets, meta: x.meta.clone(), elements: x.elements.clone() }),
        V::Struct(x) => V::Struct(StructView { len: x.len, validity: cut(&x.validity), fields: x.fields.clone() }),
        other => other.clone(),
    }
}
