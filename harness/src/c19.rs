//! C19: identical schemas and records through the marrow, arrow and arrow2 entry points: they must
//! succeed or fail together, hold the same logical content (every row read back through each back
//! end's own deserializer, and the arrow / arrow2 arrays - converted to views - judged inside Coq
//! by the C01 oracle), a record batch must carry exactly the given fields incl. metadata and read
//! back from the batch alone.
use crate::arrgen::{self, Inject, Val};
use crate::coqfmt::{self as cf, guarded, Out};
use crate::ctx::Ctx;
use crate::probe::{AnyProbe, RVal};
use crate::viewgen::view_coq;
use marrow::datatypes::{DataType, Field};
use marrow::view::View;
use serde::de::DeserializeSeed;
use serde_json::json;

fn read_all(de: &serde_arrow::Deserializer, fields: &[Field]) -> Result<Vec<RVal>, String> {
    let dt = DataType::Struct(fields.to_vec());
    let mut out = vec![];
    for item in de { out.push(AnyProbe { dt: Some(&dt) }.deserialize(item).map_err(|e| e.to_string())?); }
    Ok(out)
}

fn backend_case(ctx: &mut Ctx, fields: &[Field], rows: &[Val], label: &str) {
    let m = guarded(|| serde_arrow::to_marrow(fields, rows).map_err(|e| e.to_string()));
    let Ok(af): Result<Vec<arrow_schema::FieldRef>, _> = fields.iter().map(|f| arrow_schema::Field::try_from(f).map(std::sync::Arc::new)).collect::<Result<_, marrow::error::MarrowError>>() else { ctx.count("skipped:arrow_fields"); return };
    let a = guarded(|| serde_arrow::to_arrow(&af, rows).map_err(|e| e.to_string()));
    let rb = guarded(|| serde_arrow::to_record_batch(&af, &rows.to_vec()).map_err(|e| e.to_string()));
    let f2: Option<Vec<arrow2::datatypes::Field>> = fields.iter().map(|f| arrow2::datatypes::Field::try_from(f).ok()).collect();
    let a2 = f2.as_ref().map(|f2| guarded(|| serde_arrow::to_arrow2(f2, rows).map_err(|e| e.to_string())));
    ctx.count(&format!("{}:marrow_{}:arrow_{}:batch_{}:arrow2_{}", label, m.class(), a.class(), rb.class(), a2.as_ref().map(|x| x.class()).unwrap_or("n/a")));
    let mut fails: Vec<(&str, String)> = vec![];
    // zero-sized fixed types: marrow's own array type holds them, its arrow conversions cannot (the crate
    // answers with an error): the arrow-side front ends must agree among themselves and never panic
    let ok_m = if label == "zero_sized" { matches!(a, Out::Ok(_)) } else { matches!(m, Out::Ok(_)) };
    if let Some(Out::Panic(_)) = &a2 { fails.push(("panic", "to_arrow2 panics".into())); }
    if matches!(a, Out::Ok(_)) != ok_m { fails.push(("back_ends_disagree_on_success", format!("to_marrow {} but to_arrow {}", m.class(), a.class()))); }
    if matches!(rb, Out::Ok(_)) != ok_m { fails.push(("back_ends_disagree_on_success", format!("to_marrow {} but to_record_batch {}", m.class(), rb.class()))); }
    if let Some(x) = &a2 { if matches!(x, Out::Ok(_)) != ok_m { fails.push(("back_ends_disagree_on_success", format!("to_marrow {} but to_arrow2 {}", m.class(), x.class()))); } }
    for (n, r) in [("to_marrow", m.class()), ("to_arrow", a.class()), ("to_record_batch", rb.class())] { if r == "panic" { fails.push(("panic", format!("{} panics", n))); } }
    // logical content through each back end's deserializer
    let mut coq_impl = "Err".to_string();
    if let (Out::Ok(ma), Out::Ok(aa)) = (&m, &a) {
        let mv: Vec<View> = ma.iter().map(|x| x.as_view()).collect();
        let base = guarded(|| { let de = serde_arrow::Deserializer::from_marrow(fields, &mv).map_err(|e| e.to_string())?; read_all(&de, fields) });
        let via_arrow = guarded(|| { let de = serde_arrow::Deserializer::from_arrow(&af, aa).map_err(|e| e.to_string())?; read_all(&de, fields) });
        match (&base, &via_arrow) { (Out::Ok(x), Out::Ok(y)) => if x != y { fails.push(("back_ends_differ_in_content", format!("rows read from the arrow arrays differ from the marrow arrays: {:?} vs {:?}", y, x))); }, (x, y) => if x.class() != y.class() { fails.push(("back_ends_disagree_on_reading", format!("from_marrow {} but from_arrow {}", x.class(), y.class()))); } }
        if let Out::Ok(batch) = &rb {
            // the batch carries exactly the given fields (names, types, nullability, metadata)
            let bf: Vec<arrow_schema::FieldRef> = batch.schema().fields().iter().cloned().collect();
            if bf != af { fails.push(("record_batch_fields_differ", format!("batch fields {:?} vs given {:?}", bf, af))); }
            let via_batch = guarded(|| { let de = serde_arrow::Deserializer::from_record_batch(batch).map_err(|e| e.to_string())?; read_all(&de, fields) });
            match (&base, &via_batch) { (Out::Ok(x), Out::Ok(y)) => if x != y { fails.push(("back_ends_differ_in_content", "rows read from the record batch differ".into())); }, (x, y) => if x.class() != y.class() { fails.push(("back_ends_disagree_on_reading", format!("from_marrow {} but from_record_batch {}", x.class(), y.class()))); } }
        }
        if let (Some(f2), Some(Out::Ok(a2a))) = (&f2, &a2) {
            let via2 = guarded(|| { let de = serde_arrow::Deserializer::from_arrow2(f2, a2a).map_err(|e| e.to_string())?; read_all(&de, fields) });
            match (&base, &via2) { (Out::Ok(x), Out::Ok(y)) => if x != y { fails.push(("back_ends_differ_in_content", "rows read from the arrow2 arrays differ".into())); }, (x, y) => if x.class() != y.class() { fails.push(("back_ends_disagree_on_reading", format!("from_marrow {} but from_arrow2 {}", x.class(), y.class()))); } }
        }
        // the same rows as the second and third batch of one reused builder: each back end must give what its one-shot
        // entry point gives (arrays incl. their data types - child field names, nullability, metadata - and the batch)
        if label == "valid" {
            let reused = guarded(|| {
                let mut b = serde_arrow::ArrayBuilder::from_arrow(&af).map_err(|e| e.to_string())?;
                b.extend(rows).map_err(|e| e.to_string())?; b.to_arrow().map_err(|e| format!("first batch: {}", e))?;
                b.extend(rows).map_err(|e| e.to_string())?; let second = b.to_arrow().map_err(|e| format!("second batch to_arrow: {}", e))?;
                b.extend(rows).map_err(|e| e.to_string())?; let third = b.to_record_batch().map_err(|e| format!("third batch to_record_batch: {}", e))?;
                Ok::<_, String>((second, third))
            });
            ctx.count(&format!("reused_builder:{}", reused.class()));
            match &reused {
                Out::Ok((second, third)) => {
                    if second != aa { fails.push(("reused_builder_differs", format!("second batch of a reused builder (to_arrow) {:?} differs from the one-shot arrays {:?}", second, aa))); }
                    if let Out::Ok(batch) = &rb { if third != batch { fails.push(("reused_builder_differs", "third batch of a reused builder (to_record_batch) differs from the one-shot batch".into())); } }
                }
                Out::Err(e) => fails.push(("reused_builder_differs", format!("one-shot conversion succeeds, the reused builder fails: {}", e))),
                Out::Panic(e) => fails.push(("panic", format!("reused builder panics: {}", e))),
            }
        }
        // the arrow arrays as views, for the specification oracle
        let views: Result<Vec<View>, _> = aa.iter().map(|x| View::try_from(&**x)).collect();
        if let Ok(vs) = views { coq_impl = format!("(Ok {})", cf::list(&vs, view_coq)); }
    } else if let Out::Panic(_) = &a { coq_impl = "(Panic PExternal)".into(); }
    let coq = format!("{{| c_fields := {}; c_rows := {}; c_impl := {} |}}", cf::list(fields, arrgen::field_coq), cf::list(rows, arrgen::val_coq), coq_impl);
    let idx = ctx.add_case(coq, json!({"fields": format!("{:?}", fields), "rows": format!("{:?}", rows), "marrow": m.class(), "arrow": a.class(), "record_batch": rb.class(), "arrow2": a2.as_ref().map(|x| x.class())}), true);
    for (c, w) in fails { ctx.fail(idx, c, w); }
}

pub fn run(ctx: &mut Ctx) {
    ctx.runner = "RunC19".into();
    ctx.shard_size = 100;
    ctx.rule = "random schemas (1-3 fields, depth <= 3, all supported data types, field metadata) x 0-17 rows in random presentations (a fifth with one injected invalid value) through to_marrow, to_arrow, to_record_batch and - where arrow2 offers the types - to_arrow2: equal success / failure; every row read back through Deserializer::from_marrow / from_arrow / from_record_batch / from_arrow2 with a recording probe and compared; record batch fields (incl. metadata) equal to the given fields; the same rows as second and third batch of one reused ArrayBuilder give the one-shot arrays (data types incl. child fields) and batch; the arrow arrays, converted to views, judged inside Coq by the C01 specification oracle (well-formed batch, decode = interp). Thorough: the crate is additionally built and run under further feature configurations (tools/c19_matrix.py). Non-trivial: all; distinct by (schema, rows, outcomes)".into();
    let n = if ctx.thorough { 8000 } else { 500 };
    for _ in 0..n {
        let mut rng = ctx.rng.fork();
        let fields = arrgen::gen_schema(&mut rng);
        let nrows = *rng.pick(&[0usize, 1, 2, 3, 7, 9, 17]);
        let inject = rng.chance(1, 5) && nrows > 0;
        let mut inj = Inject { countdown: if inject { rng.below(nrows * 3) as i32 } else { -1 }, what: None };
        let rows: Vec<Val> = (0..nrows).map(|_| arrgen::gen_record(&mut rng, &fields, &mut inj)).collect();
        backend_case(ctx, &fields, &rows, if inject { "injected" } else { "valid" });
    }
    // directed: time zones that are accepted as UTC without being spelled "UTC" (the documentation writes Some("Utc")): the arrays and
    // the record batch must carry the GIVEN field, in every back end, at the top level and below parents
    {
        use marrow::datatypes::TimeUnit;
        let mut rng = ctx.rng.fork();
        for tz in ["UTC", "Utc", "utc"] { for unit in [TimeUnit::Second, TimeUnit::Millisecond, TimeUnit::Microsecond, TimeUnit::Nanosecond] {
            let leaf = DataType::Timestamp(unit, Some(tz.to_string()));
            for parent in 0..8usize { for nullable in [false, true] {
                if parent > 0 && !(unit == TimeUnit::Millisecond) { continue; }
                let Some((field, _)) = crate::c18::under_parent(parent, &leaf, nullable) else { continue };
                let mut none = Inject { countdown: -1, what: None };
                let rows: Vec<Val> = (0..3).map(|_| Val::Struct(vec![("c".to_string(), arrgen::gen_val(&mut rng, &field, &mut none))], 0)).collect();
                backend_case(ctx, std::slice::from_ref(&field), &rows, "valid");
            } }
        } }
    }
    // directed: zero-sized fixed types at the top level and below every kind of parent, 0 and 2 rows
    let mut rng = ctx.rng.fork();
    for leaf in [DataType::FixedSizeBinary(0), DataType::FixedSizeList(Box::new(Field { name: "element".into(), data_type: DataType::Int8, nullable: false, metadata: Default::default() }), 0)] {
        for parent in 0..8usize { for nullable in [false, true] {
            let Some((field, _)) = crate::c18::under_parent(parent, &leaf, nullable) else { continue };
            for nrows in [0usize, 2] {
                let mut none = Inject { countdown: -1, what: None };
                let rows: Vec<Val> = (0..nrows).map(|_| Val::Struct(vec![("c".to_string(), arrgen::gen_val(&mut rng, &field, &mut none))], 0)).collect();
                backend_case(ctx, std::slice::from_ref(&field), &rows, "zero_sized");
            }
        } }
    }
}
