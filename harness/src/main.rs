mod arrgen;
mod c01;
mod c02;
mod c04;
mod c05;
mod c06;
mod c07;
mod c08;
mod zoo;
mod c09;
mod c16;
mod tracegen;
mod c17;
mod c18;
mod c19;
mod probe;
mod viewgen;
mod temporal;
mod foreign;
mod c10;
mod c11;
mod c13;
mod c14;
mod c15;
mod c20;
mod coqfmt;
mod ctx;
mod rng;

use std::path::PathBuf;

fn main() {
    let args: Vec<String> = std::env::args().collect();
    if args.len() < 2 {
        eprintln!("usage: verif_harness <prop> [--tier quick|thorough] [--seed N] [--out DIR] [--only IDX]");
        std::process::exit(2);
    }
    let prop = args[1].clone();
    let mut thorough = false;
    let mut seed: u64 = 1;
    let mut out = PathBuf::from("out");
    let mut only = None;
    let mut i = 2;
    while i < args.len() {
        match args[i].as_str() {
            "--tier" => { thorough = args[i + 1] == "thorough"; i += 2; }
            "--seed" => { seed = args[i + 1].parse().unwrap_or(1); i += 2; }
            "--out" => { out = PathBuf::from(&args[i + 1]); i += 2; }
            "--only" => { only = args[i + 1].parse().ok(); i += 2; }
            _ => { i += 1; }
        }
    }
    // panics are expected outcomes of cases; keep stderr quiet
    if std::env::var("VERIF_SHOW_PANICS").is_err() { std::panic::set_hook(Box::new(|_| {})); }
    // watchdog: a hang of the implementation must not hang the check
    let limit = if thorough { 3000 } else { 900 };
    std::thread::spawn(move || { std::thread::sleep(std::time::Duration::from_secs(limit)); eprintln!("WATCHDOG: harness exceeded {} s (possible hang in the implementation)", limit); std::process::exit(3); });
    let mut ctx = ctx::Ctx::new(&prop, thorough, seed, out, only);
    match prop.as_str() {
        "C01" | "C03" => c01::run(&mut ctx),
        "C02" | "C12" => c02::run(&mut ctx),
        "C16" => c16::run(&mut ctx),
        "C17" => c17::run(&mut ctx),
        "C18" => c18::run(&mut ctx),
        "C19" => c19::run(&mut ctx),
        "C04" => c04::run(&mut ctx),
        "C05" => c05::run(&mut ctx),
        "C06" => c06::run(&mut ctx),
        "C07" => c07::run(&mut ctx),
        "C08" => c08::run(&mut ctx),
        "C09" => c09::run(&mut ctx),
        "C10" => c10::run(&mut ctx),
        "C11" => c11::run(&mut ctx),
        "C13" => c13::run(&mut ctx),
        "C14" => c14::run(&mut ctx),
        "C15" => c15::run(&mut ctx),
        "C20" => c20::run(&mut ctx),
        _ => {
            eprintln!("unknown property {}", prop);
            std::process::exit(2);
        }
    }
    ctx.finish();
}
