HOOK_COMMITS = []
NOTES = ("Every check is ./check <id>: Coq proof obligations (coq/Props/<id>.v, listed in <id>.obligations) are rebuilt and their "
         "assumptions checked, the harness is rebuilt against /repo's working tree, the same generated cases are run on the crate and on "
         "the Coq model, and a direct oracle is evaluated on the crate's output. Genuine defects found are repaired in /repo by 'fix:' "
         "commits and recorded in KNOWN_FINDINGS.txt.")
NOT_APPLICABLE = {}
CLAIMED = {
    "C13": {
        "text": "Full proof on the model: construction refuses count/length mismatches, get domain, iteration and bulk read yield exactly 0..len-1, size hints truthful for every iterator state, history invariant. Model is tied to the crate by 1500 (quick) / 30000 (thorough) random access histories compared observation by observation.",
        "note": "Arrays are abstracted to their lengths; value-level reading of an item is C02. Trusted: Coq kernel, the harness, rustc/serde/marrow/arrow.",
    },
    "C20": {
        "text": "Full proof on the model: check_permutation accepts exactly the permutations of 0..ndim (iff, any length); dim-name and uniform-shape arity checks; the metadata text of both tensor helpers equals the compact print of the configured JSON object and a JSON reader parses it back to exactly that object (general print/parse round trip proved for all JSON values, strings with escapes included); element count = checked product within i32; no panic. Tied to the crate by exhaustive enumeration of all index lists of length ndim<=4 plus random configurations, metadata compared byte for byte; serde_json referee on the Rust side.",
        "note": "JSON spec is the compact reader in coq/Codec/Json.v; element field conversion (transmute_field) is sampled with one element type only. Trusted: Coq kernel, harness, serde_json as referee.",
    },
    "C15": {
        "text": "Index-level model of the truncating decimal parser, the float path and format_decimal (slice bounds, usize underflow and the fixed buffer are explicit Panic outcomes). Proved for all inputs: no panic for every u8 precision / i8 scale / text and every i128; every stored value (string and float path) satisfies |v| < 10^precision; copied digits are ASCII digits, at most `precision`. PARTIAL: exactness against the numeral denotation (C15_full) and the format/parse round trip are not yet theorems; they are evaluated as the Coq specification oracle (denote/value_scaled) on every implementation output and by a BigDecimal referee, over all 38 precisions x a scale grid x a numeral family plus random numerals up to 260 digits.",
        "note": "Only the truncating parser variants (the ones the builder constructs) are modelled. Float path takes trunc(v*10^scale) from the driver (documented lossy step).",
    },
    "C14": {
        "text": "Durations: the in-crate ISO-8601 span parser, to_arrow_duration and the span formatter are modelled byte for byte; proved for all texts and units: a stored duration equals trunc(span*unit) with the sign applied afterwards, interval-style spans refused, result within i64 (C14_duration_exact). Calendar: civil<->day-number bijection over all of Z (era sweep by vm_compute + era-shift lemmas); times and timestamps: the stored integer splits back into the same civil date / second of day with finer digits dropped (trunc for times, floor for instants). PARTIAL: the text-level parsing and printing of dates/times/timestamps is chrono's (external) - the model's canonical strings and acceptance conditions are validated against the crate on every run (field-structured inputs rendered in the accepted spellings; extremes of every storage width), chrono and jiff parse every produced string back as referees; the format/parse round trip over text is not a theorem.",
        "note": "chrono parsing/formatting/arithmetic is modelled, not verified. Leap seconds inside timestamps are not generated (chrono maps 23:59:60 differently per unit; recorded as an observation in DESIGN.md).",
    },
}
