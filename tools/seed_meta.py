#!/usr/bin/env python3
"""seed_meta.py <seed> <detected_by text> : record which check catches the seeded change"""
import json, sys
p = '/verif/seeded/%s/meta.json' % sys.argv[1]
m = json.load(open(p)); m['detected_by'] = sys.argv[2]; json.dump(m, open(p, 'w'), indent=1)
