#!/usr/bin/env python3
"""Driver shared by all property checks: proof obligations, correspondence, oracle, verdict,
evidence.  See DESIGN.md section 6 for the verdict procedure."""
import concurrent.futures
import fcntl
import hashlib
import json
import os
import re
import shutil
import subprocess
import sys
import time

VERIF = os.path.dirname(os.path.dirname(os.path.abspath(__file__)))
COQ = os.path.join(VERIF, "coq")
HARNESS = os.path.join(VERIF, "harness")
WORK = os.path.join(VERIF, "work")
REPO = "/repo"
GUARD_CFG = "serde_arrow_verif"

COQ_Q = []
for d in ["Base", "De", "Props", "Run", "Gen", "Ser", "Arrow", "Codec", "Trace", "Schema"]:
    COQ_Q += ["-Q", os.path.join(COQ, d), "Verif"]

ALLOWED_AXIOMS = set()  # by name; see DESIGN.md section 8

FORBIDDEN = re.compile(
    r"\b(Admitted|admit|Axiom|Axioms|Parameter|Parameters|Conjecture|Conjectures|Hypothesis|Variable|Variables|Hypotheses)\b"
    r"|Unset\s+Guard|bypass_check|type-in-type|impredicative-set|Admit\s+Obligations|Unset\s+Universe\s+Checking|Unset\s+Positivity")

TRUSTED_BASE = [
    "Coq 8.16.1 kernel (coqc, full .vo builds; vm_compute used in finite sweeps and case evaluation; no native_compute)",
    "axioms: none declared; Print Assumptions of every obligation must be 'Closed under the global context' (allow-list empty)",
    "hand-written Gallina model of the anchored Rust code (coq/*), tied to /repo by the correspondence run of this check",
    "Rust harness (/verif/harness: generators, serde replayers, Coq term printer) and this driver (tools/checklib.py)",
    "regex translators tools/translate.py for the generated tables in coq/Gen (where used)",
    "rustc/cargo, serde, marrow, arrow-rs/arrow2, chrono: modelled or used as referees, not verified",
]


def log(msg):
    print(msg, flush=True)


class Lock:
    def __init__(self, name):
        os.makedirs(WORK, exist_ok=True)
        self.path = os.path.join(WORK, name + ".lock")

    def __enter__(self):
        self.f = open(self.path, "w")
        fcntl.flock(self.f, fcntl.LOCK_EX)
        return self

    def __exit__(self, *a):
        fcntl.flock(self.f, fcntl.LOCK_UN)
        self.f.close()


def run(cmd, cwd=None, timeout=3600, env=None):
    e = dict(os.environ)
    e["CARGO_NET_OFFLINE"] = "true"
    if env:
        e.update(env)
    try:
        p = subprocess.run(cmd, cwd=cwd, timeout=timeout, env=e, stdout=subprocess.PIPE,
                           stderr=subprocess.STDOUT, text=True, errors="replace")
        return p.returncode, p.stdout
    except subprocess.TimeoutExpired as ex:
        out = ex.stdout or ""
        if isinstance(out, bytes):
            out = out.decode(errors="replace")
        return 124, out + "\n[timeout]"


# --------------------------------------------------------------------------------------------
# Coq side


def coq_sources():
    res = []
    for root, _, files in os.walk(COQ):
        for f in files:
            if f.endswith(".v"):
                res.append(os.path.join(root, f))
    return sorted(res)


def strip_comments(src):
    out, depth, i = [], 0, 0
    while i < len(src):
        if src.startswith("(*", i):
            depth += 1
            i += 2
        elif src.startswith("*)", i) and depth > 0:
            depth -= 1
            i += 2
        else:
            if depth == 0:
                out.append(src[i])
            i += 1
    return "".join(out)


def forbidden_scan():
    hits = []
    for p in coq_sources():
        src = strip_comments(open(p, errors="replace").read())
        # Variables / Hypotheses are fine inside sections; flag them only outside
        depth = 0
        for ln, line in enumerate(src.split("\n"), 1):
            if re.match(r"\s*Section\b", line):
                depth += 1
            if re.match(r"\s*End\b", line) and depth > 0:
                depth -= 1
            for m in FORBIDDEN.finditer(line):
                tok = m.group(0)
                if tok in ("Variable", "Variables", "Hypothesis", "Hypotheses", "Context") and depth > 0:
                    continue
                hits.append("%s:%d: %s" % (os.path.relpath(p, VERIF), ln, tok))
    return hits


def ensure_makefile():
    with Lock("coq"):
        mk = os.path.join(COQ, "Makefile.coq")
        proj = os.path.join(COQ, "_CoqProject")
        if not os.path.exists(mk) or os.path.getmtime(mk) < os.path.getmtime(proj):
            run(["coq_makefile", "-f", "_CoqProject", "-o", "Makefile.coq"], cwd=COQ)


def coq_make(targets, timeout=3000):
    ensure_makefile()
    with Lock("coq"):
        rc, out = run(["make", "-f", "Makefile.coq", "-j16"] + targets, cwd=COQ, timeout=timeout)
    return rc, out


def read_obligations(prop):
    path = os.path.join(COQ, "Props", prop + ".obligations")
    names = []
    for line in open(path):
        line = line.split("#")[0].strip()
        if line:
            names.append(line)
    return names


def check_obligations(prop, workdir):
    """Returns list of dicts {name, statement, assumptions, ok, why}."""
    names = read_obligations(prop)
    src = ["From Verif Require Import %s." % prop, "Set Printing Width 100000."]
    for n in names:
        src.append('Goal True. idtac "@@CHECK %s". Abort.' % n)
        src.append("Check %s." % n)
        src.append('Goal True. idtac "@@ASSUME %s". Abort.' % n)
        src.append("Print Assumptions %s." % n)
    src.append('Goal True. idtac "@@END". Abort.')
    f = os.path.join(workdir, "obligations_%s.v" % prop)
    open(f, "w").write("\n".join(src) + "\n")
    rc, out = run(["coqc", "-noglob"] + COQ_Q + [f], cwd=workdir, timeout=600)
    res = []
    chunks = re.split(r"@@(CHECK|ASSUME|END)\s*", out)
    info = {}
    # chunks: [pre, kind, body, kind, body ...]
    i = 1
    while i + 1 < len(chunks):
        kind, body = chunks[i], chunks[i + 1]
        i += 2
        if kind == "END":
            break
        first, _, rest = body.partition("\n")
        name = first.strip()
        info.setdefault(name, {})[kind] = rest.strip()
    for n in names:
        d = info.get(n, {})
        stmt = d.get("CHECK", "")
        ass = d.get("ASSUME", "")
        ok, why = True, ""
        if not stmt or "Error" in stmt or not stmt.startswith(n):
            ok, why = False, "theorem not found: " + stmt[:200]
        elif "Closed under the global context" in ass:
            pass
        else:
            axs = re.findall(r"^([A-Za-z_][\w.']*)\s*:", ass, re.M)
            bad = [a for a in axs if a not in ALLOWED_AXIOMS]
            if bad or not axs:
                ok, why = False, "assumptions not allowed: " + (", ".join(bad) or ass[:200])
        res.append({"name": n, "statement": re.sub(r"\s+", " ", stmt)[:2000],
                    "assumptions": "closed" if "Closed under" in ass else re.sub(r"\s+", " ", ass)[:500],
                    "ok": ok, "why": why})
    if rc != 0 and all(r["ok"] for r in res):
        for r in res:
            r["ok"], r["why"] = False, "obligation file failed to compile: " + out[-300:]
    return res


def eval_shard(args):
    workdir, shard = args
    f = os.path.join(workdir, shard["file"])
    rc, out = run(["coqc", "-noglob"] + COQ_Q + [f], cwd=workdir, timeout=1800)
    res = {"corr": None, "oracle": None, "info": [], "rc": rc, "out": ""}
    for m in re.finditer(r"=\s*\((TagCorr|TagOracle|TagInfo),\s*(\[[^\]]*\])\)", out):
        idx = [int(x) for x in re.findall(r"(\d+)%N", m.group(2))]
        if m.group(1) == "TagInfo":
            res["info"] = idx
        else:
            res["corr" if m.group(1) == "TagCorr" else "oracle"] = [shard["start"] + i for i in idx]
    if rc != 0 or res["corr"] is None or res["oracle"] is None:
        res["out"] = out[-2000:]
    return res


# --------------------------------------------------------------------------------------------
# Rust side


def build_harness():
    with Lock("cargo"):
        lock_src = os.path.join(REPO, "Cargo.lock")
        lock_dst = os.path.join(HARNESS, "Cargo.lock")
        if not os.path.exists(lock_dst):
            shutil.copy(lock_src, lock_dst)
        t0 = time.time()
        rc, out = run(["cargo", "build", "--release", "--offline"], cwd=HARNESS, timeout=3000,
                      env={"RUSTFLAGS": "--cfg %s" % GUARD_CFG})
        return rc, out, time.time() - t0


def run_harness(prop, tier, seed, outdir, only=None, timeout=3000):
    if os.path.exists(outdir):
        shutil.rmtree(outdir)
    os.makedirs(outdir)
    cmd = [os.path.join(HARNESS, "target", "release", "verif_harness"), prop, "--tier", tier,
           "--seed", str(seed), "--out", outdir]
    if only is not None:
        cmd += ["--only", str(only)]
    rc, out = run(cmd, cwd=outdir, timeout=timeout)
    return rc, out


# --------------------------------------------------------------------------------------------
# known findings


def load_known(prop):
    known, fixed = {}, []
    path = os.path.join(VERIF, "KNOWN_FINDINGS.txt")
    if not os.path.exists(path):
        return known, fixed
    for line in open(path):
        line = line.strip()
        if not line or line.startswith("#"):
            continue
        m = re.match(r"known:\s+property=(\S+)\s+class=(\S+)\s+(.*)", line)
        if m and m.group(1) == prop:
            known[m.group(2)] = m.group(3)
        m = re.match(r"fixed:\s+property=(\S+)\s+(\S+)\s+(.*)", line)
        if m and m.group(1) == prop:
            fixed.append((m.group(2), m.group(3)))
    return known, fixed


# --------------------------------------------------------------------------------------------


def git_head(path):
    rc, out = run(["git", "-C", path, "rev-parse", "--short", "HEAD"])
    return out.strip() if rc == 0 else "?"


def main(prop_spec):
    """prop_spec: dict(id, runner, translators=[callables], extra_trusted=[...], partial=[...])"""
    import argparse
    ap = argparse.ArgumentParser()
    ap.add_argument("prop")
    ap.add_argument("--tier", default=os.environ.get("VERIF_TIER", "quick"))
    ap.add_argument("--seed", type=int, default=int(os.environ.get("VERIF_SEED", "1") or 1))
    ap.add_argument("--replay")
    args = ap.parse_args()
    prop = args.prop
    tier = "thorough" if args.tier == "thorough" else "quick"
    seed = args.seed
    t0 = time.time()
    workdir = os.path.join(WORK, prop)
    os.makedirs(workdir, exist_ok=True)
    replay_dir = os.path.join(VERIF, "replays", prop)
    os.makedirs(replay_dir, exist_ok=True)
    os.makedirs(os.path.join(VERIF, "evidence"), exist_ok=True)
    notes = []
    broken = []  # (kind, detail) proof/correspondence breakages

    only = None
    if args.replay:
        rp = json.load(open(args.replay))
        seed, tier, only = rp.get("seed", seed), rp.get("tier", tier), rp.get("case")
        log("replaying case %s of %s (seed %s, tier %s): %s" % (only, prop, seed, tier, rp.get("what", "")))

    # 0. translators (regenerate Gen/*.v from the Rust source)
    translator_status = {}
    for tr in prop_spec.get("translators", []):
        try:
            translator_status[tr.__name__] = tr()
        except Exception as ex:  # unparsable source: the generated table is stale, so the theorems about it say nothing of this tree
            translator_status[tr.__name__] = "unparsable: %s" % ex
            notes.append("translator %s could not parse the source: %s" % (tr.__name__, ex))
            broken.append(("proof", "translator %s cannot read the current source (%s): the generated table is not re-derived, the obligations about it are not re-checked" % (tr.__name__, ex)))

    # 1. proof obligations
    targets = ["Props/%s.vo" % prop] + ["Run/%s.vo" % r for r in prop_spec.get("runners", [])]
    rc, out = coq_make(targets)
    checker_cmd = "cd coq && make -f Makefile.coq -j16 %s && coqc obligations_%s.v (Check + Print Assumptions per obligation)" % (" ".join(targets), prop)
    obligations = []
    if rc != 0:
        err = out[-1500:]
        m = re.search(r'File "([^"]+)", line (\d+)[^\n]*\n(Error:[^\n]*(?:\n[^\n]+){0,6})', out)
        where = (m.group(1) + ":" + m.group(2) + " " + re.sub(r"\s+", " ", m.group(3))) if m else err[-400:]
        broken.append(("proof", "coq build failed: " + where))
        for n in read_obligations(prop):
            obligations.append({"name": n, "statement": "", "assumptions": "", "ok": False, "why": "build failed"})
    else:
        obligations = check_obligations(prop, workdir)
        for o in obligations:
            if not o["ok"]:
                broken.append(("proof", "obligation %s: %s" % (o["name"], o["why"])))
    hits = forbidden_scan()
    if hits:
        broken.append(("proof", "forbidden tokens in the development: " + "; ".join(hits[:5])))

    # 2. build + run the implementation side, 3. evaluate the model on the same cases
    model_runnable = rc == 0 or all(os.path.exists(os.path.join(COQ, "Run", r + ".vo")) for r in prop_spec.get("runners", []))
    brc, bout, bsecs = build_harness()
    report = None
    corr_fail, orc_fail = [], []
    model_info = []
    impl_failures = []
    descs = []
    if brc != 0:
        m = re.search(r"(error(\[E\d+\])?:[^\n]*(?:\n[^\n]+){0,8})", bout)
        broken.append(("correspondence", "harness does not build against /repo: " + (m.group(1) if m else bout[-600:])))
    else:
        seeds = [seed]
        hrc, hout = run_harness(prop, tier, seed, os.path.join(workdir, "out"), only)
        if hrc != 0:
            broken.append(("correspondence", "harness run failed: " + hout[-600:]))
        else:
            report = json.load(open(os.path.join(workdir, "out", "report.json")))
            descs = [json.loads(l) for l in open(os.path.join(workdir, "out", "cases_desc.jsonl"))]
            impl_failures = report["oracle_failures"]
            if model_runnable and report["shards"]:
                with concurrent.futures.ThreadPoolExecutor(max_workers=16) as ex:
                    results = list(ex.map(eval_shard, [(os.path.join(workdir, "out"), s) for s in report["shards"]]))
                for r in results:
                    if r["corr"] is None or r["oracle"] is None:
                        broken.append(("correspondence", "model evaluation failed: " + r["out"][-600:]))
                        break
                    corr_fail += r["corr"]
                    orc_fail += r["oracle"]
                    for k, x in enumerate(r.get("info", [])):
                        while len(model_info) <= k:
                            model_info.append(0)
                        model_info[k] += x
            elif not model_runnable:
                notes.append("model not runnable (build failed): correspondence skipped, direct oracle on the implementation only")

    # 3b. search when proof or correspondence is broken and no failing input is known yet
    known, fixed = load_known(prop)
    def unlisted(fs):
        return [f for f in fs if f["class"] not in known]
    coq_orc = [{"case": i, "class": "spec_oracle", "what": "specification oracle (Coq) rejects the implementation's output", "desc": descs[i] if i < len(descs) else None} for i in orc_fail]
    all_orc = impl_failures + coq_orc
    if (broken or corr_fail) and not unlisted(all_orc) and brc == 0 and not args.replay:
        for extra_seed in [seed + 1000003, seed + 2000003, seed + 3000017]:
            hrc, hout = run_harness(prop, tier, extra_seed, os.path.join(workdir, "search"), None)
            if hrc != 0:
                continue
            rep2 = json.load(open(os.path.join(workdir, "search", "report.json")))
            extra = unlisted(rep2["oracle_failures"])
            notes.append("search with seed %d: %d oracle failures" % (extra_seed, len(rep2["oracle_failures"])))
            if extra:
                for f in extra:
                    f["seed"] = extra_seed
                all_orc += extra
                break

    # 3c. property-specific thorough extras (e.g. the feature matrix of C19)
    extra_problems = []
    if tier == "thorough" and not args.replay and prop_spec.get("thorough_extra"):
        try:
            probs, xnotes = prop_spec["thorough_extra"]()
            notes += xnotes
            extra_problems = probs
        except Exception as ex:
            notes.append("thorough extra failed to run: %s" % ex)
    for k, pr in enumerate(extra_problems):
        all_orc.append({"case": -1 - k, "class": "thorough_extra", "what": pr, "desc": None})

    # 4. verdict
    violations = []
    known_lines = []
    seen_known = {}
    for f in all_orc:
        if f["class"] in known:
            seen_known.setdefault(f["class"], f)
        else:
            violations.append(f)
    for cls, f in sorted(seen_known.items()):
        known_lines.append("KNOWN-FINDING: property=%s %s [class=%s; e.g. case %s: %s]" % (prop, known[cls], cls, f["case"], f["what"][:200]))
    exit_code = 0
    out_lines = []
    if violations:
        # one replay per class, first case of each
        by_class = {}
        for f in violations:
            by_class.setdefault(f["class"], f)
        for cls, f in sorted(by_class.items()):
            path = os.path.join(replay_dir, "%s_%s_seed%d_case%d.json" % (prop, cls, f.get("seed", seed), f["case"]))
            json.dump({"property": prop, "class": cls, "seed": f.get("seed", seed), "tier": tier, "case": f["case"],
                       "what": f["what"], "input": f.get("desc"), "kind": "failing input on the implementation",
                       "also_broken": [b[1] for b in broken]}, open(path, "w"), indent=1)
            out_lines.append("VIOLATION property=%s replay=%s" % (prop, path))
        exit_code = 1
    elif broken or corr_fail:
        what = []
        if corr_fail:
            what.append("correspondence: model and implementation disagree on %d case(s), first: case %d" % (len(corr_fail), corr_fail[0]))
        what += ["%s: %s" % b for b in broken]
        path = os.path.join(replay_dir, "%s_unproved_seed%d.json" % (prop, seed))
        json.dump({"property": prop, "seed": seed, "tier": tier, "case": corr_fail[0] if corr_fail else None,
                   "kind": "proof obligation or correspondence no longer checks; no failing input found",
                   "no_longer_checks": what,
                   "disagreeing_inputs": [descs[i] for i in corr_fail[:5] if i < len(descs)]}, open(path, "w"), indent=1)
        out_lines.append("VIOLATION property=%s replay=%s no-failing-input-found" % (prop, path))
        exit_code = 1

    # 5. evidence
    n_ob = len(obligations)
    n_ok = sum(1 for o in obligations if o["ok"])
    samples = (report or {}).get("samples", [])
    if not samples:
        samples = [{"obligation": o["name"], "statement": o["statement"]} for o in obligations[:3]]
    ev = {
        "property_id": prop, "tier": tier, "seed": seed, "level": "proof",
        "coverage": {
            "obligations": n_ob, "discharged": n_ok, "checker_cmd": checker_cmd,
            "trusted_base": TRUSTED_BASE + prop_spec.get("extra_trusted", []),
            "evaluations": (report or {}).get("evaluations", 0),
            "distinct_nontrivial": (report or {}).get("distinct_nontrivial", 0),
            "rule": (report or {}).get("rule", ""),
            "samples": samples,
            "exhaustive": bool((report or {}).get("extra", {}).get("exhaustive", False)),
            "theorems": obligations,
            "partial": prop_spec.get("partial", []),
            "translators": translator_status,
            "correspondence": {"cases_compared_with_model": sum(s["count"] for s in (report or {}).get("shards", [])),
                               "disagreements": len(corr_fail), "first_disagreements": corr_fail[:10],
                               "runner_info": model_info, "runner_info_meaning": prop_spec.get("info_meaning", "")},
            "oracle": {"implementation_side_failures": len(impl_failures), "spec_oracle_failures": len(orc_fail),
                       "known_finding_classes_seen": sorted(seen_known.keys())},
            "distribution": (report or {}).get("distribution", {}),
            "extra": (report or {}).get("extra", {}),
            "broken": ["%s: %s" % b for b in broken],
            "notes": notes,
            "repo_head": git_head(REPO), "harness_build_s": round(bsecs, 1),
        },
        "assumptions": prop_spec.get("assumptions", []),
        "wall_s": round(time.time() - t0, 2),
        "violations": len(violations) + (1 if (exit_code == 1 and not violations) else 0),
    }
    if not args.replay:
        json.dump(ev, open(os.path.join(VERIF, "evidence", prop + ".json"), "w"), indent=1)
    else:
        log(json.dumps({"correspondence_disagreements": corr_fail, "oracle_failures": all_orc}, indent=1)[:4000])

    for l in known_lines:
        log(l)
    for l in out_lines:
        log(l)
    log("%s %s: obligations %d/%d, cases %d (model-compared %d), disagreements %d, oracle failures %d, %.1fs -> %s" % (
        prop, tier, n_ok, n_ob, ev["coverage"]["evaluations"], ev["coverage"]["correspondence"]["cases_compared_with_model"],
        len(corr_fail), len(all_orc), time.time() - t0, "exit %d" % exit_code))
    sys.exit(exit_code)
