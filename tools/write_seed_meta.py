#!/usr/bin/env python3
"""write_seed_meta.py <seed> <property> <detected_by text>: validate the seed in a scratch worktree and write its meta.json"""
import json, subprocess, sys
s, prop, det = sys.argv[1], sys.argv[2], sys.argv[3]
dd = '/verif/seeded/' + s
notes = open(dd + '/notes.md').read()
files = [l.split(' b/')[1].strip() for l in open(dd + '/patch.diff') if l.startswith('diff --git')]
r = subprocess.run(['bash', '/verif/tools/validate_seed.sh', dd], capture_output=True, text=True).stdout.strip().splitlines()[-1]
parts = [x.strip() for x in r.split('|')]
meta = {"seed": s, "property": prop, "summary": notes[:1800], "needs": "see notes.md (section on what is needed to manifest)", "files": files,
        "confirmed": {"by": "tools/validate_seed.sh in a scratch worktree of /repo HEAD (removed afterwards)", "suite_with_patch": parts[1].replace('suite: ', ''),
                      "demo_with_patch": parts[2].replace('demo with patch: ', ''), "demo_without_patch": parts[3].replace('demo without: ', '')},
        "detected_by": det}
json.dump(meta, open(dd + '/meta.json', 'w'), indent=1)
print(s, '|', parts[2][:60], '|', parts[3][:50])
