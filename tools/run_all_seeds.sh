#!/bin/bash
# run_all_seeds.sh [tier]: every seeded change against the check of its property (apply, check, undo).
# Prints one line per seed; exit 1 if a seed is missed or no longer applies.
t=${1:-quick}; cd /verif; bad=0
for d in seeded/*/; do
  s=$(basename $d); p=$(python3 -c "import json;print(json.load(open('$d/meta.json'))['property'])")
  out=$(bash tools/run_seed.sh $s $p $t 2>&1 | grep "^SEED")
  echo "$out"
  case "$out" in *"exit 1;"*) ;; *) bad=1;; esac
done
exit $bad
