#!/usr/bin/env python3
"""Regenerates MANIFEST.json from tools/manifest_data.py (kept valid at all times)."""
import json, os, sys
sys.path.insert(0, os.path.dirname(os.path.abspath(__file__)))
import manifest_data as md
props = [json.loads(l) for l in open(os.path.join(os.path.dirname(__file__), "..", "properties.jsonl"))]
ids = [p["id"] for p in props]
checks = []
for pid in ids:
    if pid in md.CLAIMED:
        c = md.CLAIMED[pid]
        checks.append({
            "property_id": pid,
            "quick_cmd": "./check %s --tier quick" % pid,
            "thorough_cmd": "./check %s --tier thorough" % pid,
            "evidence_file": "/verif/evidence/%s.json" % pid,
            "replay_cmd_template": "./check %s --replay {path}" % pid,
            "engine": "coq-model+correspondence",
            "level_claimed": {"category": "proof", "text": c["text"], "design_ref": c.get("design_ref", "DESIGN.md section 7, " + pid)},
            "level_note": c["note"],
            "technique": c.get("technique", "Coq proof about a hand-written executable model + differential correspondence check against the crate"),
        })
na = [{"property_id": pid, "reason": md.NOT_APPLICABLE.get(pid, "not yet built in this round: no check registered (see DESIGN.md section 12)")} for pid in ids if pid not in md.CLAIMED]
m = {
    "version": 1,
    "setup_cmd": "./setup",
    "hooks": {"guard": "--cfg serde_arrow_verif", "enable": "RUSTFLAGS=\"--cfg serde_arrow_verif\" cargo build (set by tools/checklib.py when building /verif/harness against /repo)",
              "baseline_off_cmd": "cd /repo && cargo nextest run --workspace --no-fail-fast --offline",
              "source_commits": md.HOOK_COMMITS, "add_only": True},
    "engines": [{"name": "coq-model+correspondence", "path": "/verif/coq, /verif/harness, /verif/tools", "serves_properties": sorted(md.CLAIMED),
                 "kind_free_text": "Coq 8.16.1 theorems over hand-written Gallina models; Rust harness drives the real crate and prints cases as Coq terms; coqc evaluates the model on the same cases (vm_compute) and compares"}],
    "checks": checks,
    "notes": md.NOTES,
    "not_applicable": na,
}
json.dump(m, open(os.path.join(os.path.dirname(__file__), "..", "MANIFEST.json"), "w"), indent=1)
print("claimed:", sorted(md.CLAIMED), "unclaimed:", [x["property_id"] for x in na])
