#!/bin/bash
# run_seed.sh <seed name> <property> [tier]: apply the seeded patch to /repo, run the check, undo.
s=$1; p=$2; t=${3:-quick}
cd /verif
if ! git -C /repo apply --check /verif/seeded/$s/patch.diff 2>/dev/null; then echo "SEED $s: patch does not apply to current /repo HEAD"; exit 2; fi
git -C /repo apply /verif/seeded/$s/patch.diff
./check $p --tier $t > work/seed_$s.log 2>&1; rc=$?
git -C /repo checkout -- .
echo "SEED $s on $p ($t): exit $rc; $(grep -c VIOLATION work/seed_$s.log) VIOLATION lines; $(grep VIOLATION work/seed_$s.log | head -2 | tr '\n' ' ')"
tail -1 work/seed_$s.log
