#!/bin/bash
# run_thorough_all.sh: setup, then the thorough tier of every property in turn; one summary line each.
cd "$(dirname "$0")/.."
./setup > work_setup.log 2>&1 || { echo "setup failed"; tail -20 work_setup.log; exit 2; }
rc=0
for p in ${@:-C01 C02 C03 C04 C05 C06 C07 C08 C09 C10 C11 C12 C13 C14 C15 C16 C17 C18 C19 C20}; do
  t0=$(date +%s)
  ./check $p --tier thorough > work_thorough_$p.log 2>&1; r=$?
  echo "THOROUGH $p exit $r in $(( $(date +%s) - t0 )) s: $(tail -1 work_thorough_$p.log)"
  grep -h "VIOLATION\|KNOWN-FINDING" work_thorough_$p.log | head -5
  [ $r -ne 0 ] && rc=1
done
exit $rc
