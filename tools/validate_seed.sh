#!/bin/bash
# validate_seed.sh <seed dir with patch.diff + seed_demo.rs> : confirms that the seeded change
# compiles, keeps the pinned suite at baseline (499 pass / 2 known failures), and that the demo
# fails with the patch and passes without it.  Uses a scratch worktree, removed afterwards.
d=$(realpath "$1"); name=$(basename "$d")
wt=/tmp/wtv_$name
export CARGO_TARGET_DIR=/tmp/seed_target CARGO_NET_OFFLINE=true
git -C /repo worktree remove --force $wt 2>/dev/null
git -C /repo worktree add -q $wt HEAD || exit 2
cd $wt
if ! git apply "$d/patch.diff"; then echo "RESULT $name patch_does_not_apply"; cd /; git -C /repo worktree remove --force $wt; exit 1; fi
suite=$(cargo nextest run --workspace --no-fail-fast --offline 2>&1 | grep -E "^\s*Summary|^error(\[|:)" | head -3 | tr '\n' ' ')
mkdir -p serde_arrow/tests; cp "$d/seed_demo.rs" serde_arrow/tests/seed_demo.rs
with=$(cargo test --offline -p serde_arrow --features arrow-55 --test seed_demo 2>&1 | grep -E "^test result|^error(\[|:)" | head -2 | tr '\n' ' ')
git apply -R "$d/patch.diff"
without=$(cargo test --offline -p serde_arrow --features arrow-55 --test seed_demo 2>&1 | grep -E "^test result|^error(\[|:)" | head -2 | tr '\n' ' ')
cd /; git -C /repo worktree remove --force $wt
echo "RESULT $name | suite: $suite | demo with patch: $with | demo without: $without"
