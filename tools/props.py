"""Per-property configuration of the check driver."""
SPECS = {
    "C13": {
        "id": "C13", "runners": ["RunC13"],
        "assumptions": [
            "arrays are abstracted to their lengths in the model; an item is the index its positioned reader stands at",
            "reading an item is stateless (StructDeserializer::at(idx)); value-level reading is the subject of C02",
        ],
    },
    "C20": {
        "id": "C20", "runners": ["RunC20"],
        "assumptions": [
            "JSON specification = the compact-JSON reader of coq/Codec/Json.v (null, naturals, strings with escapes, arrays, objects; no whitespace); serde_json is used as an independent referee on the Rust side",
            "element field handling (transmute_field) is shared with C09 and only sampled here with a Float32 element",
        ],
    },
}
