"""Per-property configuration of the check driver."""
import translate
import c19_matrix
SPECS = {
    "C13": {
        "id": "C13", "runners": ["RunC13"],
        "assumptions": [
            "arrays are abstracted to their lengths in the model; an item is the index its positioned reader stands at",
            "reading an item is stateless (StructDeserializer::at(idx)); value-level reading is the subject of C02",
        ],
    },
    "C20": {
        "id": "C20", "runners": ["RunC20"],
        "assumptions": [
            "JSON specification = the compact-JSON reader of coq/Codec/Json.v (null, naturals, strings with escapes, arrays, objects; no whitespace); serde_json is used as an independent referee on the Rust side",
            "element field handling (transmute_field) is shared with C09 and only sampled here with a Float32 element",
        ],
    },
    "C15": {
        "id": "C15", "runners": ["RunC15"], "translators": [translate.constants],
        "partial": ["C15_full (parse exact and complete w.r.t. the numeral denotation) and the format/parse round trip are evaluated as the specification oracle on every case, not yet proved"],
        "assumptions": [
            "only the truncating parser variants are modelled (the builder always constructs DecimalParser with truncated = true; the other three are reachable from tests only)",
            "the float path is modelled from trunc(v * 10^scale) as computed by the driver in floating point (documented lossy step)",
            "BigDecimal is used as an independent referee on the Rust side",
        ],
    },
    "C14": {
        "id": "C14", "runners": ["RunC14"], "translators": [translate.unit_tables],
        "partial": ["text-level parse/format of date, time and timestamp strings is chrono's; modelled and validated by correspondence, round trip over text not a theorem", "completeness of parse_duration (every in-range span is accepted) is checked by the referee on every case, not proved"],
        "assumptions": [
            "date/time/timestamp text is parsed and formatted by chrono (external): its behaviour is modelled and validated by the correspondence run, not verified",
            "jiff SignedDuration / civil types are used as referees on the Rust side within their range",
        ],
    },
    "C01": {
        "id": "C01", "runners": ["RunC01"], "translators": [translate.serializer_tables],
        "partial": ["C01_full (decode = interp) is a theorem for the builder core (see assumptions) at any nesting; all other kinds: per-case specification oracle"],
        "info_meaning": "[cases whose schema is inside the builder model (compared array by array, byte for byte); cases with impl Ok fully judged by decode = interp]",
        "assumptions": [
            "logical content = decode (coq/Arrow/Arr.v); documented mapping = interp (coq/Ser/Value.v); both are specifications written from the Arrow format and the crate documentation, not from the builders",
            "float presentations into non-float columns, temporal and decimal strings are not judged here (ISkip): see C14, C15",
            "builder model (coq/Ser/Builder.v) covers Boolean, integers, same-width Float32/Float64, the integer presentation of Date32/64, Time32/64, Timestamp (no / UTC zone) and Duration, Utf8/LargeUtf8, List/LargeList, Struct; other kinds and lossy presentations (float casts, temporal / decimal text) are judged by the specification oracle only",
            "to_marrow front end only in this stream; arrow/arrow2/ArrayBuilder front ends are compared in C19/C10",
        ],
    },
    "C03": {
        "id": "C03", "runners": ["RunC01"],
        "partial": ["WfB (lock step) => wf_arr is bridged by the per-case oracle, not a theorem"],
        "info_meaning": "[cases whose schema is inside the builder model; cases with impl Ok fully judged by decode = interp]",
        "assumptions": [
            "well-formedness = wf_batch strict (coq/Arrow/Wf.v), evaluated on the implementation's arrays for all data types; metadata and full data type equality are compared on the Rust side (Array::data_type() == field.data_type), arrow-rs validate_full is run as an independent referee",
            "builder model covers Boolean, integers, same-width floats, integer-valued temporal columns, Utf8/LargeUtf8, List/LargeList, Struct",
        ],
    },
    "C10": {
        "id": "C10", "runners": ["RunC10"],
        "info_meaning": "[batches inside the builder model or dictionary histories compared with the dictionary builder model; dictionary histories]",
        "assumptions": ["histories consist of rows the schema accepts (the statement speaks of successful pushes); behaviour after a failed push is not part of C10"],
    },
    "C11": {
        "id": "C11", "runners": ["RunC01"],
        "partial": ["field-order permutation invariance: differential + model comparison only"],
        "info_meaning": "[cases inside the builder model; cases fully judged by decode = interp]",
        "assumptions": ["AddrOk: two &'static str with equal address and length have equal content (Rust statics)"],
    },
    "C02": {
        "id": "C02", "runners": ["RunC02"], "translators": [translate.serializer_tables],
        "info_meaning": "[single-row reads judged against present(decode view)[i]]",
        "assumptions": ["valid views are windows (Arrow slice layout) of arrays produced by the writer and arrow-rs built/sliced arrays; hand-corrupted views are C17", "reads go through deserialize_any (self-describing) with a recording probe; typed requests are covered by C04/C05"],
    },
    "C12": {
        "id": "C12", "runners": ["RunC02"],
        "info_meaning": "[single-row reads judged against present(decode view)[i]]",
        "assumptions": ["slice_view in the harness mirrors the layout of arrow-rs slices converted by marrow; the layouts are compared on every arrow-rs slice of the run (distribution key arrow_slice_layout)"],
    },
    "C17": {
        "id": "C17", "runners": ["RunC17"],
        "info_meaning": "[reads of corrupted views; reads compared with the reader model]",
        "assumptions": ["corruptions are single points (and seeded pairs) applied to arrays the writer produced; lengths are only changed by small amounts so that every row can be read", "fixed-size list positions idx*n are computed without overflow in the model (usize overflow needs a view whose declared length exceeds 2^32 rows)", "reads go through deserialize_any; typed requests share the same accessors (ViewAccess::get, offsets, bitset_is_set)"],
    },
    "C07": {
        "id": "C07", "runners": ["RunC07"], "translators": [translate.tracer_tables],
        "info_meaning": "[cases compared with the tracer model; cases whose tracing succeeded]",
        "assumptions": ["strings are classified for guess_dates by the in-crate matchers (modelled); strategies of sampled leaves are always absent", "schema equality in the order law is up to the order of struct fields that are not map-sorted (first-seen order is allowed by the property)"],
    },
    "C06": {
        "id": "C06", "runners": ["RunC01"], "translators": [translate.tracer_tables],
        "info_meaning": "[cases whose traced schema is inside the builder model; cases fully judged by decode = interp]",
        "assumptions": ["documented exclusions are not counted: sample strings that only look like dates under guess_dates, unsigned values above the signed 64-bit range mixed with signed numbers under coerce_numbers, null for an enum-typed position", "the tracer model itself is compared with the crate in the C07/C08 runs (RunC07)"],
    },
    "C09": {
        "id": "C09", "runners": ["RunC09"], "translators": [translate.schema_tables],
        "info_meaning": "[cases read by the parser model; cases whose tree is compared with the printer model; cases the crate accepts]",
        "assumptions": ["identifiers and white space of the type mini language are modelled for ASCII text (the printer only emits ASCII names); trees with non-ASCII text are judged by the Rust-side round trips only", "time zone text is printed with Rust's {:?}: the model covers quote and backslash escapes; control and non-ASCII characters (\\u{..} escapes) are judged by the Rust-side round trips", "arrow / arrow2 field conversions are marrow's (external): differential only"],
    },
    "C18": {
        "id": "C18", "runners": ["RunC18"], "translators": [translate.annot_table],
        "info_meaning": "[serialization faults; deserialization faults; faults below the top level]",
        "assumptions": ["annotations are read from the Display text of the error (the only public view of them)", "the data_type text is the one the Context impl of the builder/reader sets (List vs List(..) differ between the two sides; both name the Arrow type)", "top-level field names are joined raw by the builders ($. for an empty name) and through ChildName by the readers ($.<empty>)"],
    },
    "C05": {
        "id": "C05", "runners": ["RunC05"], "translators": [translate.serializer_tables],
        "info_meaning": "[writing cells; writing cells inside the builder model; reading cells]",
        "assumptions": ["documented lossy conversions (float narrowing, integer to float, decimal truncation to scale) are the ISkip cells of interp and are not judged here", "malformed temporal / decimal strings are judged in C14 / C15; offsets overflow of 32-bit lists needs 2^31 elements and is covered by the theorem on increment_last only"],
    },
    "C16": {
        "id": "C16", "runners": ["RunC16"], "translators": [translate.constants],
        "partial": ["a theorem shows that the model cannot panic; that the Rust cannot is as good as the faithfulness of the model at each program point, which the other checks' correspondence runs and this sweep sample", "from_type (budget / depth limit) is not modelled: recursive and deep types are covered by the sweep only"],
        "info_meaning": "[calls of the adversarial sweep]",
        "assumptions": ["the harness is built with overflow-checks and debug-assertions on, so arithmetic overflow is a panic", "a call taking more than 5 s counts as unbounded running; the whole run has a watchdog"],
    },
    "C08": {
        "id": "C08", "runners": ["RunC08"], "translators": [translate.tracer_tables, translate.constants],
        "info_meaning": "[type x option-set cases; overwrite cases]",
        "assumptions": ["the zoo samples serde_derive (which Deserialize / Serialize calls a derived impl makes); it does not verify it", "the type description Ty states which serde requests a derived / std Deserialize impl makes (struct -> deserialize_struct with its field names, enum -> deserialize_enum and the variant accessor of the payload kind, Vec -> one element, map -> one entry): this is sampled on the zoo, not verified against serde_derive", "from_type cannot trace maps as structs (documented error); from_samples sorts such fields: the two are not compared for map types under map_as_struct"],
    },
    "C04": {
        "id": "C04", "runners": ["RunC01"],
        "partial": ["the round trip over a type grammar (C04_full) is not a theorem; it is evaluated on the implementation for the zoo types"],
        "info_meaning": "[cases whose traced schema is inside the builder model; cases fully judged by decode = interp]",
        "assumptions": ["the zoo samples serde_derive (the calls derived impls make); it does not verify it", "exclusions of the property: None for an Option<enum> mapped to a union (those types run only with enums_without_data_as_strings), the inner None of nested Options (not in the zoo)"],
    },
    "C19": {
        "id": "C19", "runners": ["RunC19"], "translators": [translate.arrow_versions], "thorough_extra": c19_matrix.run_matrix,
        "partial": ["the conversions marrow <-> arrow / arrow2 are external code (marrow): the equality of the back ends is differential testing; `the crate builds and behaves the same under feature configuration X` is a fact about cargo and the dependency versions that no Gallina model exhibits (thorough tier: a probe is built and run under further configurations)"],
        "info_meaning": "[cases; cases where the arrow back end produced arrays]",
        "assumptions": ["main harness: features arrow-55 + arrow2-0-17", "arrow2 is compared only on schemas whose types it offers"],
    },
}
