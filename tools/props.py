"""Per-property configuration of the check driver."""
SPECS = {
    "C13": {
        "id": "C13", "runners": ["RunC13"],
        "assumptions": [
            "arrays are abstracted to their lengths in the model; an item is the index its positioned reader stands at",
            "reading an item is stateless (StructDeserializer::at(idx)); value-level reading is the subject of C02",
        ],
    },
    "C20": {
        "id": "C20", "runners": ["RunC20"],
        "assumptions": [
            "JSON specification = the compact-JSON reader of coq/Codec/Json.v (null, naturals, strings with escapes, arrays, objects; no whitespace); serde_json is used as an independent referee on the Rust side",
            "element field handling (transmute_field) is shared with C09 and only sampled here with a Float32 element",
        ],
    },
    "C15": {
        "id": "C15", "runners": ["RunC15"],
        "partial": ["C15_full (parse exact and complete w.r.t. the numeral denotation) and the format/parse round trip are evaluated as the specification oracle on every case, not yet proved"],
        "assumptions": [
            "only the truncating parser variants are modelled (the builder always constructs DecimalParser with truncated = true; the other three are reachable from tests only)",
            "the float path is modelled from trunc(v * 10^scale) as computed by the driver in floating point (documented lossy step)",
            "BigDecimal is used as an independent referee on the Rust side",
        ],
    },
    "C14": {
        "id": "C14", "runners": ["RunC14"],
        "partial": ["text-level parse/format of date, time and timestamp strings is chrono's; modelled and validated by correspondence, round trip over text not a theorem", "completeness of parse_duration (every in-range span is accepted) is checked by the referee on every case, not proved"],
        "assumptions": [
            "date/time/timestamp text is parsed and formatted by chrono (external): its behaviour is modelled and validated by the correspondence run, not verified",
            "jiff SignedDuration / civil types are used as referees on the Rust side within their range",
        ],
    },
}
