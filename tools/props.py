"""Per-property configuration of the check driver."""
SPECS = {
    "C13": {
        "id": "C13", "runners": ["RunC13"],
        "assumptions": [
            "arrays are abstracted to their lengths in the model; an item is the index its positioned reader stands at",
            "reading an item is stateless (StructDeserializer::at(idx)); value-level reading is the subject of C02",
        ],
    },
}
