#!/bin/bash
# refresh_evidence.sh: run every quick check on the unchanged tree (evidence files are rewritten by every run, also by runs
# with a seeded change applied) and verify that each evidence file records a clean run.  Run before committing.
cd /verif
if [ -n "$(git -C /repo status --short)" ]; then echo "/repo has local modifications: aborting"; exit 2; fi
bad=0
for c in C01 C02 C03 C04 C05 C06 C07 C08 C09 C10 C11 C12 C13 C14 C15 C16 C17 C18 C19 C20; do
  out=$(./check $c --tier quick 2>&1 | tail -1); echo "$out" | cut -c1-120
  case "$out" in *"exit 0"*) ;; *) bad=1;; esac
done
python3 - <<'PY' || bad=1
import json,glob,sys
b=[f for f in sorted(glob.glob('/verif/evidence/C*.json')) if (lambda e: e['coverage']['obligations']!=e['coverage']['discharged'] or e.get('violations'))(json.load(open(f)))]
print('evidence files that do not record a clean run:', b); sys.exit(1 if b else 0)
PY
exit $bad
