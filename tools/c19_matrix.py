#!/usr/bin/env python3
"""C19 thorough tier: build /verif/harness19 under several feature configurations (one shared
target dir, removed afterwards), run it, and compare the digests. Returns a list of problems."""
import os, shutil, subprocess, sys

VERIF = os.path.dirname(os.path.dirname(os.path.abspath(__file__)))
CRATE = os.path.join(VERIF, "harness19")
TARGET = os.path.join(VERIF, "work", "C19", "matrix_target")
CONFIGS = [["arrow-55"], ["arrow-37"], ["arrow-46"], ["arrow-47"], ["arrow-52"], ["arrow-53"], ["arrow-37", "arrow-55"], ["arrow-53", "arrow-54", "arrow-55"], ["arrow-46", "arrow-47"]]


def run_matrix(configs=CONFIGS, timeout=2400):
    problems, digests, notes = [], {}, []
    lock_src, lock_dst = "/repo/Cargo.lock", os.path.join(CRATE, "Cargo.lock")
    if not os.path.exists(lock_dst):
        shutil.copy(lock_src, lock_dst)
    env = dict(os.environ, CARGO_NET_OFFLINE="true", CARGO_TARGET_DIR=TARGET)
    try:
        for feats in configs:
            name = "+".join(feats)
            p = subprocess.run(["cargo", "run", "--release", "--offline", "--quiet", "--features", ",".join(feats)], cwd=CRATE, env=env,
                               stdout=subprocess.PIPE, stderr=subprocess.PIPE, text=True, timeout=timeout)
            if p.returncode != 0:
                problems.append("configuration %s does not build or run: %s" % (name, (p.stderr or "")[-400:]))
                continue
            digests[name] = p.stdout
            notes.append("configuration %s: %d digest lines" % (name, len(p.stdout.splitlines())))
        names = sorted(digests)
        if names:
            ref = digests[names[0]]
            for n in names[1:]:
                if digests[n] != ref:
                    a, b = ref.splitlines(), digests[n].splitlines()
                    diff = next((i for i, (x, y) in enumerate(zip(a, b)) if x != y), min(len(a), len(b)))
                    problems.append("configuration %s behaves differently from %s at digest line %d: %r vs %r" % (n, names[0], diff, (b + [""])[diff][:200], (a + [""])[diff][:200]))
    finally:
        shutil.rmtree(TARGET, ignore_errors=True)
    return problems, notes


if __name__ == "__main__":
    pr, notes = run_matrix([c for c in CONFIGS][: int(sys.argv[1])] if len(sys.argv) > 1 else CONFIGS)
    print("\n".join(notes)); print("PROBLEMS:", pr)
